import Bxh.Proofs.ExecLemmas
import Bxh.Proofs.GoRemove
import Bxh.Proofs.RouterLemmas
import Bxh.Proofs.TimeoutList
/-!
# C06 — timeout rollback fires exactly at the timeout height and never otherwise
Theorems about the executor's timeout bookkeeping (`setTimeoutList`, `getTimeoutList`,
`setTimeoutRollback`) as modelled in `Bxh.Exec`.
-/
namespace Bxh.Props.C06
open Bxh Bxh.Exec

def plainReq (f t : SvcId) (idx : Nat) (T : Int) : Ibtp :=
  { frm := some f, to := some t, index := idx, typ := .interchain, timeout := T, group := none }

/-- an accepted plain request (receipt SUCCESS, not batch, not begin-failed, destination not the hub
itself) with `0 < T` and `H + T` not overflowing is put on the list of height `H + T` — no other -/
theorem C06_request_recorded_at_deadline (cfg : Cfg) (l : Led) (h : Nat) (s : String) (f t : SvcId) (idx : Nat)
    (T : Int) (p : ProofKind) (rc : Rcpt)
    (hok : rc.ok = true) (hnb : rc.ret ≠ "batch_ibtp") (hnf : rc.txStatus ≠ 1) (hdst : t.chain ≠ cfg.bxh)
    (hT : 0 < T) (hov : T.toNat < maxU64 - h)
    (hopen : finalInterRecord l { frm := f, to := t, index := idx } = none) :
    timeoutAct cfg l h (.ibtp s (plainReq f t idx T) p) rc = .add (h + T.toNat) { frm := f, to := t, index := idx } := by
  unfold timeoutAct plainReq
  have h1 : (t.chain == cfg.bxh) = false := by simpa using hdst
  have h2 : (rc.ret == "batch_ibtp") = false := by simpa using hnb
  have h3 : (rc.txStatus == 1) = false := by simpa using hnf
  simp [h1, h2, h3, hok, IType.isRequest, hopen]
  omega

/-- … and so is a request between two BitXHubs whatever it carries in its Group field (it is begun one-to-one): since the `fix:`
commit "a request between two BitXHubs that carries a Group times out like any other"; before, the executor left it to the group
bookkeeping of the transaction manager, which never heard of it, and it never timed out -/
theorem C06_interhub_request_with_group_recorded (cfg : Cfg) (l : Led) (h : Nat) (s : String) (f t : SvcId) (idx : Nat)
    (T : Int) (g : List (SvcId × Nat)) (p : ProofKind) (rc : Rcpt)
    (hok : rc.ok = true) (hnb : rc.ret ≠ "batch_ibtp") (hnf : rc.txStatus ≠ 1) (hdst : t.chain ≠ cfg.bxh) (hhub : f.bxh ≠ t.bxh)
    (hT : 0 < T) (hov : T.toNat < maxU64 - h)
    (hopen : finalInterRecord l { frm := f, to := t, index := idx } = none) :
    timeoutAct cfg l h (.ibtp s { plainReq f t idx T with group := some g } p) rc = .add (h + T.toNat) { frm := f, to := t, index := idx } := by
  unfold timeoutAct plainReq
  have h1 : (t.chain == cfg.bxh) = false := by simpa using hdst
  have h2 : (rc.ret == "batch_ibtp") = false := by simpa using hnb
  have h3 : (rc.txStatus == 1) = false := by simpa using hnf
  have h4 : (f.bxh == t.bxh) = false := by simpa using hhub
  simp [h1, h2, h3, h4, hok, IType.isRequest, hopen]
  omega

/-- the hypothesis `hopen` above holds for every transaction inside one hub, and between two hubs as long as the record is not final -/
theorem finalInterRecord_none_of_local (l : Led) (id : TxId) (h : id.frm.bxh = id.to.bxh) : finalInterRecord l id = none := by
  simp [finalInterRecord, h]

theorem finalInterRecord_none_of_open (l : Led) (id : TxId) (r : Rec) (hrec : l.getS (.txRec id) = some (.trec r))
    (hw : r.status.isFinal = false) : finalInterRecord l id = none := by
  simp [finalInterRecord, hrec, hw]

/-- **the destination hub's notice takes the transaction off its list** (since the `fix:` commit "the destination hub's notice
ends an inter-BitXHub transaction for the timeout mechanism too"): a request between two hubs whose record is final by the end
of its block — whatever its receipt says, also "batch_ibtp" — asks for removal from the list of the recorded deadline and is
booked under no new one.  Before the fix it was booked under `h + T` like a fresh request and stayed on the first list. -/
theorem C06_notice_leaves_list (cfg : Cfg) (l : Led) (h : Nat) (s : String) (f t : SvcId) (idx : Nat)
    (T : Int) (x : Ext) (p : ProofKind) (rc : Rcpt) (r : Rec)
    (hdst : t.chain ≠ cfg.bxh) (hhub : f.bxh ≠ t.bxh)
    (hrec : l.getS (.txRec { frm := f, to := t, index := idx }) = some (.trec r)) (hfin : r.status.isFinal = true) :
    timeoutAct cfg l h (.ibtp s { plainReq f t idx T with ext := x } p) rc = .remove r.height { frm := f, to := t, index := idx } := by
  unfold timeoutAct plainReq
  have h1 : (t.chain == cfg.bxh) = false := by simpa using hdst
  have h4 : finalInterRecord l { frm := f, to := t, index := idx } = some r.height := by
    simp [finalInterRecord, hrec, hfin, hhub]
  simp [h1, IType.isRequest, IType.isResponse, h4]

/-- requests with `T ≤ 0` (hence `T = 0`) or an overflowing `H + T` are never put on any list -/
theorem C06_zero_never (cfg : Cfg) (l : Led) (h : Nat) (s : String) (f t : SvcId) (idx : Nat)
    (T : Int) (p : ProofKind) (rc : Rcpt) (hT : T ≤ 0 ∨ T.toNat ≥ maxU64 - h)
    (hopen : finalInterRecord l { frm := f, to := t, index := idx } = none) :
    timeoutAct cfg l h (.ibtp s (plainReq f t idx T) p) rc = .skip := by
  unfold timeoutAct plainReq
  simp only [IType.isRequest, hopen]
  split
  · rfl
  · simp [hT]

/-- a rejected request (FAILED receipt), a batch request and a begin-failed request are never listed: no list gains an entry
(between two hubs, with a final record, it is the notice and leaves the list: `C06_notice_leaves_list`) -/
theorem C06_rejected_never (cfg : Cfg) (l : Led) (h : Nat) (s : String) (i : Ibtp) (p : ProofKind) (rc : Rcpt)
    (hreq : i.typ.isResponse = false)
    (hrej : rc.ok = false ∨ rc.ret = "batch_ibtp" ∨ rc.txStatus = 1) (th : Nat) (id : TxId) :
    timeoutAct cfg l h (.ibtp s i p) rc ≠ .add th id := by
  simp only [timeoutAct]
  cases hf : i.frm with
  | none => simp
  | some f =>
    cases ht : i.to with
    | none => simp
    | some t =>
      have : (((!rc.ok || rc.ret == "batch_ibtp") && !i.typ.isResponse) || rc.txStatus == 1) = true := by
        rcases hrej with h1 | h1 | h1 <;> simp [h1, hreq]
      simp only [this, if_true]
      split
      · simp
      · split <;> (try split) <;> simp

/-- … and when the transaction is not one that a notice has ended, the bookkeeping leaves it alone altogether -/
theorem C06_rejected_skipped (cfg : Cfg) (l : Led) (h : Nat) (s : String) (i : Ibtp) (p : ProofKind) (rc : Rcpt) (f t : SvcId)
    (hf : i.frm = some f) (ht : i.to = some t)
    (hreq : i.typ.isResponse = false)
    (hrej : rc.ok = false ∨ rc.ret = "batch_ibtp" ∨ rc.txStatus = 1)
    (hopen : finalInterRecord l { frm := f, to := t, index := i.index } = none) :
    timeoutAct cfg l h (.ibtp s i p) rc = .skip := by
  simp only [timeoutAct, hf, ht, hopen]
  have : (((!rc.ok || rc.ret == "batch_ibtp") && !i.typ.isResponse) || rc.txStatus == 1) = true := by
    rcases hrej with h1 | h1 | h1 <;> simp [h1, hreq]
  simp [this]

/-- a receipt asks for removal from the list of the recorded timeout height exactly when the
request no longer waits: it was accepted plainly, or it is counted as invalid ("batch_ibtp" of an
unordered source service, or rejected) and the record already has a final status.  (Before the
`fix:` commit "an accepted receipt of an unordered source service leaves the timeout list" every
"batch_ibtp" receipt was skipped and the request timed out although it had been answered.)  Whatever the receipt carries
in its Group field (`g`): before the `fix:` commit "the receipt of a one-to-one transaction leaves the timeout list even if
it carries a Group" a receipt with the field set was skipped, its request stayed listed and the timeout step later moved
the final record to BEGIN_ROLLBACK. -/
theorem C06_receipt_removes (cfg : Cfg) (l : Led) (h : Nat) (s : String) (f t : SvcId) (idx : Nat)
    (ty : IType) (p : ProofKind) (rc : Rcpt) (r : Rec) (g : Option (List (SvcId × Nat)))
    (hresp : ty.isResponse = true)
    (hnf : rc.txStatus ≠ 1) (hdst : t.chain ≠ cfg.bxh)
    (hrec : l.getS (.txRec { frm := f, to := t, index := idx }) = some (.trec r))
    (hdone : (rc.ok = true ∧ rc.ret ≠ "batch_ibtp") ∨ r.status.isFinal = true) :
    timeoutAct cfg l h (.ibtp s { frm := some f, to := some t, index := idx, typ := ty, timeout := 0, group := g } p) rc
      = .remove r.height { frm := f, to := t, index := idx } := by
  unfold timeoutAct
  have h1 : (t.chain == cfg.bxh) = false := by simpa using hdst
  have h3 : (rc.txStatus == 1) = false := by simpa using hnf
  have h5 : ty.isRequest = false := by cases ty <;> simp_all [IType.isResponse, IType.isRequest]
  rcases hdone with ⟨hok, hnb⟩ | hfin
  · have h2 : (rc.ret == "batch_ibtp") = false := by simpa using hnb
    simp [h1, h2, h3, hok, h5, hresp, hrec]
  · simp [h1, h3, h5, hresp, hrec, hfin]

/-- a receipt that was not accepted plainly and whose request still waits (record not final)
leaves the timeout list alone -/
theorem C06_unaccepted_receipt_keeps (cfg : Cfg) (l : Led) (h : Nat) (s : String) (f t : SvcId) (idx : Nat)
    (ty : IType) (p : ProofKind) (rc : Rcpt) (r : Rec)
    (hresp : ty.isResponse = true)
    (hrec : l.getS (.txRec { frm := f, to := t, index := idx }) = some (.trec r))
    (hinv : rc.ok = false ∨ rc.ret = "batch_ibtp") (hwait : r.status.isFinal = false) :
    timeoutAct cfg l h (.ibtp s { frm := some f, to := some t, index := idx, typ := ty, timeout := 0, group := none } p) rc
      = .skip := by
  unfold timeoutAct
  have h5 : ty.isRequest = false := by cases ty <;> simp_all [IType.isResponse, IType.isRequest]
  have hi : (!rc.ok || rc.ret == "batch_ibtp") = true := by rcases hinv with h1 | h1 <;> simp [h1]
  simp only [hi, hresp, h5, hrec, hwait]
  split <;> simp

/-- `getTimeoutList` of a stored list whose first element is not empty is the list itself -/
theorem getTimeoutList_of (l : Led) (h : Nat) (x : TId) (xs : List TId)
    (hs : l.getS (.timeout h) = some (.tlist ((x :: xs).map some))) : getTimeoutList l h = x :: xs := by
  unfold getTimeoutList
  simp only [hs]
  simp

/-- **removal from a timeout list is exact** (`removeFromTimeoutList`, Go's in-place removal while ranging over the
slice): when the list holds the id at most once, the loop does not panic, the id is gone and every other entry stays,
in order.  (With the id twice in a row the real loop keeps one copy, and with copies at the end it panics — the model
`goRemoveLoop` replays the backing array and reproduces both; the hypothesis is what rules them out.) -/
theorem C06_remove_exact (l : Led) (h : Nat) (t : TxId) (lst : List (Option TId))
    (hl : l.getS (.timeout h) = some (.tlist lst)) (hne : lst ≠ [none]) (hc : lst.count (some (.single t)) ≤ 1) :
    ∃ l', tmRemoveTimeout l h (.single t) = .ok l' ∧
      l'.getS (.timeout h) = some (.tlist (normList (lst.erase (some (.single t))))) := by
  unfold tmRemoveTimeout
  simp only [hl]
  have : (lst == [none]) = false := by simpa using hne
  rw [this]
  simp only [Bool.false_eq_true, if_false, goRemove_count_le_one lst (.single t) hc]
  exact ⟨_, rfl, by simp [Led.getS, Led.setS]⟩

/-- and every other id of the list is still listed afterwards -/
theorem C06_remove_keeps_others (lst : List (Option TId)) (x y : TId) (hc : lst.count (some x) ≤ 1) (hxy : x ≠ y) :
    ∃ r, goRemove lst x = some r ∧ (some y ∈ r ↔ some y ∈ lst) ∧ some x ∉ r := by
  refine ⟨lst.erase (some x), goRemove_count_le_one lst x hc, ?_, ?_⟩
  · exact List.mem_erase_of_ne (by intro h; exact hxy (Option.some.inj h).symm)
  · intro hm
    have h1 := List.count_erase_self (a := some x) (l := lst)
    have h2 := List.count_pos_iff.mpr hm
    omega

/-! ### the timeout notification reaches the source chain's pier -/

/-- **every chain's pier is handed exactly the timed-out ids the block lists for it**, whatever else the block holds (also a block
without a single interchain transaction) -/
theorem C06_router_hands_each_pier_its_timeouts (cfg : Cfg) (n : Node) (txs : List (Tx × Bool)) (d : String)
    (hm : Router.Keyed (execBlock cfg n txs).2.multiCounter) :
    (Router.deliver (execBlock cfg n txs).2 d).timeouts = KV.getD (execBlock cfg n txs).2.timeoutCounter d [] := by
  rw [Router.deliver_spec _ (Router.applyTxs_counter_keyed ..) (Router.getTimeoutMap_keyed ..) hm]

end Bxh.Props.C06

namespace Bxh.Props.C06
open Bxh Bxh.Exec

/-- one step of `setTimeoutRollback` never touches a one-to-one record other than the one it sets -/
theorem rollbackStep_other (h : Nat) (acc : Led × Bool) (id : TId) (t : TxId) (hne : id ≠ .single t) :
    (rollbackStep h acc id).1.getS (.txRec t) = acc.1.getS (.txRec t) := by
  unfold rollbackStep
  split
  · rfl
  · cases id with
    | single t' =>
      have : t' ≠ t := fun e => hne (by rw [e])
      simp only [Led.getS, Led.setS]
      exact KV.get_set_ne _ _ _ _ (by intro e; cases e; exact this rfl)
    | global g =>
      simp only
      split
      · simp only [Led.getS, Led.setS]
        exact KV.get_set_ne _ _ _ _ (by intro e; cases e)
      · rfl

/-- the fold keeps a record that was set to `{h, BEGIN_ROLLBACK}` -/
theorem rollbackFold_keeps (h : Nat) (t : TxId) (ids : List TId) (acc : Led × Bool)
    (hset : acc.1.getS (.txRec t) = some (.trec { height := h, status := .beginRollback })) :
    (ids.foldl (rollbackStep h) acc).1.getS (.txRec t) = some (.trec { height := h, status := .beginRollback }) := by
  induction ids generalizing acc with
  | nil => exact hset
  | cons id rest ih =>
    simp only [List.foldl_cons]
    apply ih
    by_cases he : id = .single t
    · subst he
      unfold rollbackStep
      split
      · exact hset
      · simp [Led.getS, Led.setS]
    · rw [rollbackStep_other h acc id t he]; exact hset

/-- every global id on the list has its record (otherwise the real code logs an error and stops) -/
def GlobalsPresent (l : Led) (ids : List TId) : Prop :=
  ∀ g, TId.global g ∈ ids → ∃ gi, l.getS (.glob g) = some (.glob gi)

theorem rollbackStep_glob_present (h : Nat) (acc : Led × Bool) (id : TId) (g : GId)
    (hp : ∃ gi, acc.1.getS (.glob g) = some (.glob gi)) :
    ∃ gi, (rollbackStep h acc id).1.getS (.glob g) = some (.glob gi) := by
  unfold rollbackStep
  split
  · exact hp
  · cases id with
    | single t =>
      simp only [Led.getS, Led.setS]
      rw [KV.get_set_ne _ _ _ _ (by intro e; cases e)]
      exact hp
    | global g' =>
      simp only
      split
      · rename_i gi hgi
        by_cases he : g' = g
        · subst he
          refine ⟨{ gi with state := .beginRollback, children := gi.children.map (fun p => (p.1, Status.beginRollback)) }, ?_⟩
          simp [Led.getS, Led.setS]
        · simp only [Led.getS, Led.setS]
          rw [KV.get_set_ne _ _ _ _ (by intro e; cases e; exact he rfl)]
          exact hp
      · exact hp

theorem rollbackFold_no_abort (h : Nat) (ids : List TId) (acc : Led × Bool) (hb : acc.2 = false)
    (hg : GlobalsPresent acc.1 ids) : (ids.foldl (rollbackStep h) acc).2 = false := by
  induction ids generalizing acc with
  | nil => exact hb
  | cons id rest ih =>
    simp only [List.foldl_cons]
    apply ih
    · unfold rollbackStep
      simp only [hb]
      cases id with
      | single t => rfl
      | global g =>
        obtain ⟨gi, hgi⟩ := hg g List.mem_cons_self
        simp [hgi]
    · intro g hmem
      exact rollbackStep_glob_present h acc id g (hg g (List.mem_cons_of_mem _ hmem))

/-- **fires at the deadline**: after the timeout step of block `h`, every one-to-one id on the list
of height `h` has status BEGIN_ROLLBACK (recorded with height `h`) -/
theorem rollbackFold_sets (h : Nat) (t : TxId) (ids : List TId) (acc : Led × Bool) (hb : acc.2 = false)
    (hg : GlobalsPresent acc.1 ids) (hmem : TId.single t ∈ ids) :
    (ids.foldl (rollbackStep h) acc).1.getS (.txRec t) = some (.trec { height := h, status := .beginRollback }) := by
  induction ids generalizing acc with
  | nil => cases hmem
  | cons id rest ih =>
    simp only [List.foldl_cons]
    have hb' : (rollbackStep h acc id).2 = false := by
      unfold rollbackStep
      simp only [hb]
      cases id with
      | single t => rfl
      | global g =>
        obtain ⟨gi, hgi⟩ := hg g List.mem_cons_self
        simp [hgi]
    have hg' : GlobalsPresent (rollbackStep h acc id).1 rest := by
      intro g hm
      exact rollbackStep_glob_present h acc id g (hg g (List.mem_cons_of_mem _ hm))
    rcases List.mem_cons.mp hmem with he | hr
    · subst he
      apply rollbackFold_keeps
      unfold rollbackStep
      simp [hb, Led.getS, Led.setS]
    · exact ih _ hb' hg' hr

theorem C06_fires_at_deadline (l : Led) (h : Nat) (t : TxId)
    (hmem : TId.single t ∈ getTimeoutList l h) (hg : GlobalsPresent l (getTimeoutList l h)) :
    tmGetStatus (setTimeoutRollback l h) t = some .beginRollback := by
  unfold setTimeoutRollback
  have := rollbackFold_sets h t (getTimeoutList l h) (l, false) rfl hg hmem
  simp [tmGetStatus, this]

/-- **never otherwise**: an id that is not on the list of height `h` is not touched by the timeout
step of block `h` -/
theorem C06_not_listed_untouched (l : Led) (h : Nat) (t : TxId)
    (hnm : TId.single t ∉ getTimeoutList l h) :
    (setTimeoutRollback l h).getS (.txRec t) = l.getS (.txRec t) := by
  unfold setTimeoutRollback
  generalize getTimeoutList l h = ids at hnm
  suffices H : ∀ acc : Led × Bool, (ids.foldl (rollbackStep h) acc).1.getS (.txRec t) = acc.1.getS (.txRec t) from H (l, false)
  induction ids with
  | nil => intro acc; rfl
  | cons id rest ih =>
    intro acc
    simp only [List.foldl_cons]
    rw [ih (fun hm => hnm (List.mem_cons_of_mem _ hm))]
    exact rollbackStep_other h acc id t (fun e => hnm (by rw [e]; exact List.mem_cons_self))

/-- an empty list element at the head (the residue of an emptied list) hides the whole list:
ids appended after it are never timed out (quirk of `strings.Split("", ",")`, kept by the model) -/
theorem C06_emptied_list_quirk (l : Led) (h : Nat) (rest : List (Option TId))
    (hs : l.getS (.timeout h) = some (.tlist (none :: rest))) : getTimeoutList l h = [] := by
  simp [getTimeoutList, hs]

end Bxh.Props.C06

namespace Bxh.Props.C06
open Bxh Bxh.Exec

/-! ### the bookkeeping of a whole block (`Proofs/TimeoutList.lean`: `setTimeoutList_at`) -/

/-- a stored timeout list is the emptied list (`""`, read as `[none]`) or holds ids only -/
def ListWF (v : Option Val) : Prop := ∀ lst, v = some (.tlist lst) → lst = [none] ∨ ∀ x ∈ lst, x ≠ none

theorem getTimeoutList_eq (l : Led) (h : Nat) :
    getTimeoutList l h = (if (curList (l.getS (.timeout h))).head? == some none then [] else (curList (l.getS (.timeout h))).filterMap id) := by
  unfold getTimeoutList curList
  split <;> simp_all

theorem filterMap_id_map_some (A : List TxId) : (A.map (fun t => some (TId.single t))).filterMap id = A.map TId.single := by
  induction A with
  | nil => rfl
  | cons a r ih => simp [ih]

/-- **every request a block books for height `d` is on the list of `d` afterwards, once, behind what was there** — whatever else
the block holds, as long as it takes nothing off that list (requests of any number of pairs sharing the deadline included) -/
theorem C06_block_books_requests (cfg : Cfg) (l : Led) (h : Nat) (txs : List Tx) (rcpts : List Rcpt) (d : Nat)
    (hna : ((txs.zip rcpts).map (fun p => timeoutAct cfg l h p.1 p.2)).contains .abort = false)
    (hR : remsAt d ((txs.zip rcpts).map (fun p => timeoutAct cfg l h p.1 p.2)) = [])
    (hwf : ListWF (l.getS (.timeout d))) :
    getTimeoutList (setTimeoutList cfg l h txs rcpts) d =
      getTimeoutList l d ++ (addsAt d ((txs.zip rcpts).map (fun p => timeoutAct cfg l h p.1 p.2))).map TId.single := by
  rw [getTimeoutList_eq, getTimeoutList_eq, setTimeoutList_at cfg l h txs rcpts d hna]
  generalize addsAt d _ = A at *
  unfold listAfter
  simp only [hR, if_true]
  by_cases hA : A = []
  · simp [hA]
  · simp only [hA, if_false]
    obtain ⟨a, A', rfl⟩ := List.exists_cons_of_ne_nil hA
    cases hv : l.getS (.timeout d) with
    | none => simp [curList]
    | some v =>
      cases v with
      | tlist lst =>
        rcases hwf lst hv with h1 | h1
        · subst h1; simp [curList]
        · have hne : (lst == [none]) = false := by
            cases lst with
            | nil => rfl
            | cons x r =>
              have := h1 x (List.mem_cons_self ..)
              cases r with
              | nil => cases x <;> simp_all
              | cons y r' => simp
          have hhead : lst.head? ≠ some none := by
            cases lst with
            | nil => simp
            | cons x r => have := h1 x (List.mem_cons_self ..); simpa using this
          have hhead2 : (lst ++ List.map (fun t => some (TId.single t)) (a :: A')).head? ≠ some none := by
            cases lst with
            | nil => simp
            | cons x r =>
              have := h1 x (List.mem_cons_self ..)
              simp only [List.cons_append, List.head?_cons, ne_eq, Option.some.injEq]
              exact this
          have e1 : (lst.head? == some none) = false := by rw [beq_eq_false_iff_ne]; exact hhead
          have e2 : ((lst ++ List.map (fun t => some (TId.single t)) (a :: A')).head? == some none) = false := by
            rw [beq_eq_false_iff_ne]; exact hhead2
          simp only [curList, hne, Bool.false_eq_true, if_false, e1, e2, List.filterMap_append, filterMap_id_map_some]
      | _ => simp [curList]

/-- **a transaction the block takes off the list of `d` is gone from it afterwards** (a receipt, or between two hubs the notice):
the block removes that id once and adds nothing for `d`, and the list held the id at most once -/
theorem C06_block_unbooks (cfg : Cfg) (l : Led) (h : Nat) (txs : List Tx) (rcpts : List Rcpt) (d : Nat) (t : TxId)
    (lst : List (Option TId))
    (hna : ((txs.zip rcpts).map (fun p => timeoutAct cfg l h p.1 p.2)).contains .abort = false)
    (hA : addsAt d ((txs.zip rcpts).map (fun p => timeoutAct cfg l h p.1 p.2)) = [])
    (hR : remsAt d ((txs.zip rcpts).map (fun p => timeoutAct cfg l h p.1 p.2)) = [t])
    (hl : l.getS (.timeout d) = some (.tlist lst)) (hc : lst.count (some (.single t)) ≤ 1) :
    (setTimeoutList cfg l h txs rcpts).getS (.timeout d) = some (.tlist (normList (lst.erase (some (.single t))))) ∧
    TId.single t ∉ getTimeoutList (setTimeoutList cfg l h txs rcpts) d := by
  have hst : (setTimeoutList cfg l h txs rcpts).getS (.timeout d) = some (.tlist (normList (lst.erase (some (.single t))))) := by
    rw [setTimeoutList_at cfg l h txs rcpts d hna, hA, hR]
    unfold listAfter
    simp [hl, curList, goRemove_count_le_one lst (.single t) hc]
  refine ⟨hst, ?_⟩
  rw [getTimeoutList_eq, hst]
  simp only [curList]
  by_cases hh : ((normList (lst.erase (some (TId.single t)))).head? == some none) = true
  · simp [hh]
  · simp only [hh, if_false]
    intro hm
    have hm' : some (TId.single t) ∈ normList (lst.erase (some (.single t))) := by
      simpa using hm
    have hm2 : some (TId.single t) ∈ lst.erase (some (.single t)) := by
      unfold normList at hm'
      split at hm'
      · simp at hm'
      · exact hm'
    have h1 := List.count_erase_self (a := some (TId.single t)) (l := lst)
    have h2 := List.count_pos_iff.mpr hm2
    omega

/-- **a request and its receipt in one block net out**: booked under `d` and taken off `d` by the same block, on a list that was
absent or emptied, the id is not listed afterwards (the stored list is the emptied one) -/
theorem C06_block_request_and_receipt_net_out (cfg : Cfg) (l : Led) (h : Nat) (txs : List Tx) (rcpts : List Rcpt) (d : Nat) (t : TxId)
    (hna : ((txs.zip rcpts).map (fun p => timeoutAct cfg l h p.1 p.2)).contains .abort = false)
    (hA : addsAt d ((txs.zip rcpts).map (fun p => timeoutAct cfg l h p.1 p.2)) = [t])
    (hR : remsAt d ((txs.zip rcpts).map (fun p => timeoutAct cfg l h p.1 p.2)) = [t])
    (hl : curList (l.getS (.timeout d)) = [none]) :
    getTimeoutList (setTimeoutList cfg l h txs rcpts) d = [] := by
  rw [getTimeoutList_eq, setTimeoutList_at cfg l h txs rcpts d hna, hA, hR]
  unfold listAfter
  have hg : goRemove [some (TId.single t)] (TId.single t) = some [] := by
    rw [goRemove_count_le_one _ _ (by simp)]; simp
  unfold curList at hl
  simp [hl, curList, hg, normList]

/-- a height the block has no action for keeps its list -/
theorem C06_block_other_heights_untouched (cfg : Cfg) (l : Led) (h : Nat) (txs : List Tx) (rcpts : List Rcpt) (d : Nat)
    (hA : addsAt d ((txs.zip rcpts).map (fun p => timeoutAct cfg l h p.1 p.2)) = [])
    (hR : remsAt d ((txs.zip rcpts).map (fun p => timeoutAct cfg l h p.1 p.2)) = []) :
    (setTimeoutList cfg l h txs rcpts).getS (.timeout d) = l.getS (.timeout d) := by
  by_cases hna : ((txs.zip rcpts).map (fun p => timeoutAct cfg l h p.1 p.2)).contains .abort = false
  · rw [setTimeoutList_at cfg l h txs rcpts d hna, hA, hR]; simp [listAfter]
  · unfold setTimeoutList
    have : ((txs.zip rcpts).map (fun p => timeoutAct cfg l h p.1 p.2)).contains .abort = true := by simpa using hna
    rw [if_pos this]

end Bxh.Props.C06

namespace Bxh.Props.C06
open Bxh Bxh.Exec

-- non-vacuity of the block theorems: block 7 books two requests of different pairs under the shared deadline 9 (behind the id
-- already there), block 8 takes one of them off again by its receipt, nothing else on that list moves
example :
    let s11 : SvcId := ⟨"1356", "c1", "s1"⟩
    let s21 : SvcId := ⟨"1356", "c2", "s1"⟩
    let s41 : SvcId := ⟨"1356", "c4", "s1"⟩
    let t0 : TxId := ⟨s41, s11, 5⟩
    let t1 : TxId := ⟨s11, s21, 1⟩
    let t2 : TxId := ⟨s21, s41, 3⟩
    let ok : Rcpt := { ok := true, ret := "" }
    let l : Led := { store := [(.timeout 9, .tlist [some (.single t0)])] }
    let b7 : List Tx := [.ibtp "ca1" (plainReq s11 s21 1 2) .ok, .xfer "u0" "u1" (some 1), .ibtp "ca2" (plainReq s21 s41 3 2) .ok]
    let l7 := setTimeoutList {} l 7 b7 [ok, ok, ok]
    let l7r : Led := { l7 with store := l7.store ++ [(.txRec t1, .trec { height := 9, status := .success })] }
    let b8 : List Tx := [.ibtp "ca2" { plainReq s11 s21 1 0 with typ := .receiptSuccess } .ok]
    getTimeoutList l7 9 = [.single t0, .single t1, .single t2] ∧
    getTimeoutList (setTimeoutList {} l7r 8 b8 [ok]) 9 = [.single t0, .single t2] := by decide

end Bxh.Props.C06
