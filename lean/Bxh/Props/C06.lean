import Bxh.Proofs.ExecLemmas
namespace Bxh.Props.C06
open Bxh Bxh.Exec
theorem placeholder_true : True := trivial
end Bxh.Props.C06
