import Bxh.Proofs.ExecSteps
/-!
# C07 — a failed transaction leaves nothing behind but its fee

`applyTx` models `applyTransaction` (internal/executor/handle.go): snapshot, run the transaction,
charge the fee, and on a fee failure `RevertToSnapshot` and take what is left.  The theorems hold
for every ledger, every transaction of the op language, every configuration.

The one modelled error that the real code raises *after* applying effects on the IBTP path (the
audit information of a party cannot be read) is excluded by `auditHole`; the IBTP path has no
inner snapshot, so the model keeps the effects there exactly as the code would.  No reachable
state of the harness world exhibits it (both parties of an accepted IBTP have an interchain
record), which is why it is a hypothesis here and not a finding.

Nonces are not part of the model (the correspondence monitor checks them on the real node).
-/
namespace Bxh.Props.C07
open Bxh Bxh.Exec

def start (l : Led) : Led := { l with journal := [], events := [] }

theorem start_journal (l : Led) : (start l).journal = [] := rfl

theorem getBal_setBal (l : Led) (a b : String) (v : Int) :
    (l.setBal a v).getBal b = if a = b then v else l.getBal b := by
  simp only [Led.getBal, Led.setBal, KV.getD, KV.get_set]
  split <;> simp

theorem foldl_setBal_other (g : Led → String → Int) (as : List String) (l : Led) (a : String) (ha : a ∉ as) :
    (as.foldl (fun l x => l.setBal x (g l x)) l).getBal a = l.getBal a := by
  induction as generalizing l with
  | nil => rfl
  | cons x rest ih =>
    simp only [List.foldl_cons]
    rw [ih _ (fun h => ha (List.mem_cons_of_mem _ h))]
    have hx : ¬ x = a := fun e => ha (by simp [e])
    simp [getBal_setBal, hx]

/-- balances of accounts that are neither the sender nor an admin are not touched by fee charging -/
theorem payAdmins_getBal_other (cfg : Cfg) (l : Led) (f : Int) (a : String) (ha : a ∉ cfg.admins) :
    (payAdmins cfg l f).getBal a = l.getBal a := by
  unfold payAdmins
  exact foldl_setBal_other (fun l x => l.getBal x + f / (cfg.admins.length : Int)) cfg.admins l a ha

theorem payGasFee_getBal_other (cfg : Cfg) (l l' : Led) (s a : String) (g : Nat) (h : payGasFee cfg l s g = some l')
    (hs : a ≠ s) (ha : a ∉ cfg.admins) : l'.getBal a = l.getBal a := by
  unfold payGasFee at h
  simp only at h
  split at h
  · cases h
  · cases h
    rw [payAdmins_getBal_other _ _ _ _ ha]
    have : ¬ s = a := fun e => hs e.symm
    simp [getBal_setBal, this]

theorem payLeft_getBal_other (cfg : Cfg) (l : Led) (s a : String) (hs : a ≠ s) (ha : a ∉ cfg.admins) :
    (payLeftAsGasFee cfg l s).getBal a = l.getBal a := by
  unfold payLeftAsGasFee
  simp only
  rw [payAdmins_getBal_other _ _ _ _ ha]
  have : ¬ s = a := fun e => hs e.symm
  simp [getBal_setBal, this]

/-- reverting to the snapshot taken when the transaction started restores storage and balances -/
theorem revert_restores (env : Env) (l : Led) (tx : Tx) (inv : Option String) :
    ((applyBxh env (start l) tx inv).1.revert (start l).snapshot).same (start l) := by
  rw [snapshot_nil _ (start_journal l), revert_zero]
  exact (applyBxh_steps env (start l) tx inv (start_journal l)).faithful (faithful_self _ (start_journal l))

/-- a failing transaction body hands back the ledger it started from -/
def ErrKeeps (env : Env) (l : Led) (tx : Tx) (inv : Option String) : Prop :=
  ∀ e, (applyBxh env (start l) tx inv).2.1 = .error e → (applyBxh env (start l) tx inv).1 = start l

theorem errKeeps_of_noHole (env : Env) (l : Led) (tx : Tx) (inv : Option String)
    (hh : ¬ auditHole env (start l) tx) : ErrKeeps env l tx inv :=
  fun e he => applyBxh_error_ledger env (start l) tx inv (start_journal l) e he hh

/-- a transaction rejected before execution (bad signature, rejected proof) never enters a contract -/
theorem errKeeps_of_invalid (env : Env) (l : Led) (tx : Tx) (r : String) : ErrKeeps env l tx (some r) := by
  intro e _
  unfold applyBxh
  rfl

theorem failed_storage_core (env : Env) (l : Led) (tx : Tx) (inv : Option String)
    (hfail : (applyTx env l tx inv).2.rcpt.ok = false) (hk : ErrKeeps env l tx inv) :
    ∀ k, (applyTx env l tx inv).1.getS k = l.getS k := by
  intro k
  unfold applyTx at hfail ⊢
  simp only at hfail ⊢
  split
  · rename_i l2 hfee
    rw [hfee] at hfail
    simp only at hfail
    have herr : ∃ e, (applyBxh env (start l) tx inv).2.1 = .error e := by
      cases hr : (applyBxh env (start l) tx inv).2.1 with
      | error e => exact ⟨e, rfl⟩
      | ok r =>
        simp only [start] at hr
        rw [hr] at hfail
        simp [mkRcpt] at hfail
    obtain ⟨e, he⟩ := herr
    have hl := hk e he
    have hs := payGasFee_store _ _ _ _ _ hfee
    show KV.get l2.finalise.store k = KV.get l.store k
    rw [finalise_store, hs]
    show KV.get (applyBxh env (start l) tx inv).1.store k = _
    rw [hl]; rfl
  · have hr := (revert_restores env l tx inv).1 k
    show KV.get (payLeftAsGasFee env.cfg _ tx.sender).finalise.store k = KV.get l.store k
    rw [finalise_store, payLeft_store]
    exact hr

theorem failed_balances_core (env : Env) (l : Led) (tx : Tx) (inv : Option String)
    (hfail : (applyTx env l tx inv).2.rcpt.ok = false) (hk : ErrKeeps env l tx inv)
    (a : String) (hs : a ≠ tx.sender) (ha : a ∉ env.cfg.admins) :
    (applyTx env l tx inv).1.getBal a = l.getBal a := by
  unfold applyTx at hfail ⊢
  simp only at hfail ⊢
  split
  · rename_i l2 hfee
    rw [hfee] at hfail
    simp only at hfail
    have herr : ∃ e, (applyBxh env (start l) tx inv).2.1 = .error e := by
      cases hr : (applyBxh env (start l) tx inv).2.1 with
      | error e => exact ⟨e, rfl⟩
      | ok r =>
        simp only [start] at hr
        rw [hr] at hfail
        simp [mkRcpt] at hfail
    obtain ⟨e, he⟩ := herr
    have hl := hk e he
    have hb := payGasFee_getBal_other _ _ _ _ a _ hfee hs ha
    show Led.getBal l2.finalise a = _
    have : Led.getBal l2.finalise a = l2.getBal a := rfl
    rw [this, hb]
    show Led.getBal (applyBxh env (start l) tx inv).1 a = _
    rw [hl]; rfl
  · have hr := (revert_restores env l tx inv).2 a
    show Led.getBal (payLeftAsGasFee env.cfg _ tx.sender).finalise a = l.getBal a
    have : ∀ x : Led, Led.getBal x.finalise a = x.getBal a := fun _ => rfl
    rw [this, payLeft_getBal_other _ _ _ _ hs ha]
    exact hr

/-- **C07 (storage)**: whatever the reason of the failure — rejected before execution, contract
error, or a fee that cannot be paid after the transaction was fully processed — a transaction
whose receipt is FAILED leaves every storage key of every contract as it was. -/
theorem C07_failed_tx_storage_unchanged (env : Env) (l : Led) (tx : Tx) (inv : Option String)
    (hfail : (applyTx env l tx inv).2.rcpt.ok = false) (hh : ¬ auditHole env (start l) tx) :
    ∀ k, (applyTx env l tx inv).1.getS k = l.getS k :=
  failed_storage_core env l tx inv hfail (errKeeps_of_noHole env l tx inv hh)

/-- **C07 (balances)**: a FAILED transaction changes no balance except the sender's (fee) and the
admins' (their shares). -/
theorem C07_failed_tx_balances_unchanged (env : Env) (l : Led) (tx : Tx) (inv : Option String)
    (hfail : (applyTx env l tx inv).2.rcpt.ok = false) (hh : ¬ auditHole env (start l) tx)
    (a : String) (hs : a ≠ tx.sender) (ha : a ∉ env.cfg.admins) :
    (applyTx env l tx inv).1.getBal a = l.getBal a :=
  failed_balances_core env l tx inv hfail (errKeeps_of_noHole env l tx inv hh) a hs ha

/-- **C07 (delivery set)**: a FAILED transaction carries no event, so it is never listed in the
block's delivery set, does not reach the service cache and is not fed to the node/audit event
subscribers.  (Before the `fix:` commit "do not process the events of a failed transaction" the
events of a fee-failed transaction survived its revert.) -/
theorem C07_failed_tx_not_listed (env : Env) (l : Led) (tx : Tx) (inv : Option String)
    (hfail : (applyTx env l tx inv).2.rcpt.ok = false) :
    (applyTx env l tx inv).2.events = [] := by
  unfold applyTx at hfail ⊢
  simp only at hfail ⊢
  split
  · rename_i l2 hfee
    rw [hfee] at hfail
    simp only at hfail
    simp [hfail]
  · rfl

/-- the ledger handed to the next transaction has an empty journal: nothing of a finished
transaction can be reverted by a later one -/
theorem C07_journal_reset (env : Env) (l : Led) (tx : Tx) (inv : Option String) :
    (applyTx env l tx inv).1.journal = [] := by
  unfold applyTx
  simp only
  split <;> rfl

/-- non-vacuity: a fee-starved sender's valid request is processed, fails on the fee, and leaves
the interchain counters untouched -/
example :
    let cfg : Cfg := { price := 1, rule := fun _ => some true }
    let s1 : SvcId := ⟨"1356", "c1", "s1"⟩
    let s2 : SvcId := ⟨"1356", "c2", "s1"⟩
    let svc : Svc := { ordered := true, blacklist := [], available := true }
    let l : Led := { store := [(.svc "c1" "s1", .svc svc), (.svc "c2" "s1", .svc svc)], bal := [("ca1", 5)] }
    let env : Env := { cfg := cfg, cache := [], height := 7, txIndex := 0 }
    let tx : Tx := .ibtp "ca1" { frm := some s1, to := some s2, index := 1, typ := .interchain, timeout := 0, group := none } .ok
    (applyTx env l tx none).2.rcpt.ok = false ∧ (applyTx env l tx none).2.rcpt.ret = "fee" ∧
      (applyTx env l tx none).1.getS (.ic s1) = none := by decide

end Bxh.Props.C07
