import Bxh.Model.Mempool
import Bxh.Proofs.PoolBatch
import Bxh.Proofs.PoolHeld
import Bxh.Proofs.PoolOnce
/-!
# C18 — the pool batches each account's transactions in gap-free nonce order, once
Theorems about `generateBlock` / `genStep` / `drainSkipped` of `Bxh.Mempool`
(model of `mempoolImpl.generateBlock`).
-/
namespace Bxh.Props.C18
open Bxh Bxh.Mempool

/-- invariant of the batch-building loop: never more than `limit` entries, and the iteration is
stopped as soon as `limit` is reached -/
def Inv (limit : Nat) (acc : GenAcc) : Prop :=
  acc.result.length ≤ limit ∧ (acc.stop = false → acc.result.length < limit)

theorem addPtr_inv (limit : Nat) (acc : GenAcc) (ptr : Ptr) (h : Inv limit acc) (hs : acc.stop = false) :
    Inv limit (addPtr limit acc ptr) := by
  have hlt := h.2 hs
  unfold addPtr Inv
  simp only [List.length_append, List.length_cons, List.length_nil]
  constructor
  · omega
  · intro hne
    have : ¬ (acc.result.length + 1 = limit) := by simpa using hne
    omega

theorem drain_inv (limit : Nat) : ∀ (fuel : Nat) (acc : GenAcc) (ptr : Ptr),
    Inv limit acc → acc.stop = false → Inv limit (drainSkipped limit fuel acc ptr)
  | 0, acc, _, h, _ => h
  | fuel+1, acc, ptr, h, hs => by
    unfold drainSkipped
    split
    · simp only
      split
      · exact addPtr_inv limit acc ptr h hs
      · rename_i hns
        exact drain_inv limit fuel _ _ (addPtr_inv limit acc ptr h hs) (by simpa using hns)
    · exact h

theorem genStep_inv (limit : Nat) (acc : GenAcc) (k : Int × String × Nat) (h : Inv limit acc) :
    Inv limit (genStep limit acc k) := by
  unfold genStep
  split
  · exact h
  · rename_i hs
    have hs' : acc.stop = false := by simpa using hs
    split
    · exact h
    · simp only
      split
      · have h1 : Inv limit (addPtr limit { acc with pool := (getCommit acc.pool k.2.1).1 } (k.2.1, k.2.2)) :=
          addPtr_inv limit _ _ h hs'
        split
        · exact h1
        · rename_i hns
          exact drain_inv limit _ _ _ h1 (by simpa using hns)
      · exact ⟨h.1, h.2⟩

theorem fold_inv (limit : Nat) (ks : List (Int × String × Nat)) (acc : GenAcc) (h : Inv limit acc) :
    Inv limit (ks.foldl (genStep limit) acc) := by
  induction ks generalizing acc with
  | nil => exact h
  | cons k rest ih => exact ih _ (genStep_inv limit acc k h)

/-- **size bound**: whenever the pool believes it has ready transactions (`nonBatch > 0`, which is
the only case in which `GenerateBlock` / `ProcessTransactions` build a batch in untimed mode), a batch
never holds more than the configured batch size -/
theorem C18_batch_size_bound (p : Pool) (p' : Pool) (b : Batch) (hnb : 0 < p.nonBatch) (hbs : 0 < p.batchSize)
    (h : generateBlock p = (p', some b)) : b.txs.length ≤ p.batchSize := by
  unfold generateBlock at h
  simp only at h
  generalize hl : (if p.nonBatch > p.batchSize then p.batchSize else p.nonBatch) = limit at h
  have hlim : 0 < limit ∧ limit ≤ p.batchSize := by
    rw [← hl]; split <;> omega
  have hinv := fold_inv limit (sortPrio p.priority) { pool := p } ⟨by simp, fun _ => by simp; omega⟩
  split at h
  · cases h
  · cases h
    simp only [List.length_map]
    exact Nat.le_trans hinv.1 hlim.2

/-- the (account, nonce) pointers `generateBlock` puts into the batch, in batch order -/
def batchPointers (p : Pool) : List Ptr :=
  let limit := if p.nonBatch > p.batchSize then p.batchSize else p.nonBatch
  ((sortPrio p.priority).foldl (genStep limit) { pool := p }).result

/-- the batch handed to consensus is the image of those pointers (the transactions stored under them) -/
theorem C18_batch_is_pointer_image (p p' : Pool) (b : Batch) (h : generateBlock p = (p', some b)) :
    b.txs = (batchPointers p).map (fun ptr => KV.get p'.items ptr) := by
  unfold generateBlock at h
  simp only at h
  generalize hl : (if p.nonBatch > p.batchSize then p.batchSize else p.nonBatch) = limit at h
  have hbp : batchPointers p = ((sortPrio p.priority).foldl (genStep limit) { pool := p }).result := by
    unfold batchPointers; simp only [hl]
  split at h
  · cases h
  · cases h; rw [hbp]

/-- **gap-free and once, for every pool state** (whatever arrived in whatever order, whatever is parked, whatever the
priority index holds — including two entries for one pointer): the pointers of one batch are pairwise distinct, none
of them was already batched and uncommitted, and each carries either the account's committed nonce or the successor
of a nonce that is batched (before this batch or earlier in it) — the batch never skips a nonce -/
theorem C18_generate_gap_free_no_repeat (p : Pool) :
    (batchPointers p).Nodup ∧
    (∀ ptr ∈ batchPointers p, ptr ∉ p.batched) ∧
    (∀ ptr ∈ batchPointers p, ptr.2 = cn p ptr.1 ∨
      (1 ≤ ptr.2 ∧ ((ptr.1, ptr.2 - 1) ∈ p.batched ∨ (ptr.1, ptr.2 - 1) ∈ batchPointers p))) := by
  unfold batchPointers
  simp only
  generalize hl : (if p.nonBatch > p.batchSize then p.batchSize else p.nonBatch) = limit
  have hI := fold_binv p limit (sortPrio p.priority) { pool := p } (binv_init p)
  refine ⟨hI.nodup, fun ptr h => (hI.fresh ptr h).2, fun ptr h => ?_⟩
  rcases hI.gapfree ptr h with h1 | ⟨h1, h2⟩
  · exact Or.inl h1
  · exact Or.inr ⟨h1, (hI.grown _).mp h2⟩

/-- and what is batched afterwards is what was batched before plus this batch -/
theorem C18_batched_grows_by_batch (p p' : Pool) (b : Batch) (h : generateBlock p = (p', some b)) (x : Ptr) :
    x ∈ p'.batched ↔ (x ∈ p.batched ∨ x ∈ batchPointers p) := by
  unfold generateBlock at h
  simp only at h
  generalize hl : (if p.nonBatch > p.batchSize then p.batchSize else p.nonBatch) = limit at h
  have hI := fold_binv p limit (sortPrio p.priority) { pool := p } (binv_init p)
  have hbp : batchPointers p = ((sortPrio p.priority).foldl (genStep limit) { pool := p }).result := by
    unfold batchPointers; simp only [hl]
  split at h
  · cases h
  · cases h
    rw [hbp]
    exact hI.grown x

/-- **never below the committed nonce**: in a pool whose batched-and-uncommitted pointers all lie at or above their account's committed
nonce — a pool that has just been started (or restarted: nothing is batched, the committed nonces are re-read from the ledger), and
every pool reached from one by batch building — no pointer of the next batch carries a nonce below the committed nonce of its
account: the first one of an account carries exactly that nonce, every other one the successor of a batched one -/
theorem C18_never_below_commit_nonce (p : Pool) (hinv : ∀ x ∈ p.batched, cn p x.1 ≤ x.2) :
    ∀ ptr ∈ batchPointers p, cn p ptr.1 ≤ ptr.2 := by
  have key : ∀ (n : Nat) (a : String), (a, n) ∈ batchPointers p → cn p a ≤ n := by
    intro n
    induction n using Nat.strongRecOn with
    | _ n ih =>
      intro a hmem
      rcases (C18_generate_gap_free_no_repeat p).2.2 (a, n) hmem with h | ⟨h1, h2 | h2⟩
      · exact Nat.le_of_eq h.symm
      · have := hinv (a, n - 1) h2
        simp only at this h1
        omega
      · have := ih (n - 1) (by simp only at h1; omega) a h2
        simp only at h1
        omega
  intro ptr h
  exact key ptr.2 ptr.1 h

/-- a pool that was just (re)started has nothing batched: the hypothesis holds -/
example (p : Pool) (h : p.batched = []) : ∀ x ∈ p.batched, cn p x.1 ≤ x.2 := by
  intro x hx; rw [h] at hx; cases hx

/-- … and batch building keeps the hypothesis: after a batch was generated the pool's committed nonces are the ones from before and
everything batched (old and new) lies at or above them — so the statement holds for every batch of a run of the leader between two
commit notifications, from the (re)start on -/
theorem C18_generate_keeps_batched_above_commit (p p' : Pool) (b : Batch) (h : generateBlock p = (p', some b))
    (hinv : ∀ x ∈ p.batched, cn p x.1 ≤ x.2) : ∀ x ∈ p'.batched, cn p' x.1 ≤ x.2 := by
  have hcn : ∀ a, cn p' a = cn p a := by
    intro a
    unfold generateBlock at h
    simp only at h
    generalize hl : (if p.nonBatch > p.batchSize then p.batchSize else p.nonBatch) = limit at h
    have hI := fold_binv p limit (sortPrio p.priority) { pool := p } (binv_init p)
    split at h
    · cases h
    · cases h
      exact hI.cnSame a
  intro x hx
  rw [hcn]
  rcases (C18_batched_grows_by_batch p p' b h x).mp hx with h1 | h1
  · exact hinv x h1
  · exact C18_never_below_commit_nonce p hinv x h1

/-- **batch sequence numbers increase by one**: a generated batch carries the previous sequence number plus one, and a
call that generates nothing leaves the number alone -/
theorem C18_seqno_steps_by_one (p : Pool) :
    (∀ p' b, generateBlock p = (p', some b) → p'.seqNo = p.seqNo + 1 ∧ b.height = p.seqNo + 1) ∧
    (∀ p', generateBlock p = (p', none) → p'.seqNo = p.seqNo) := generateBlock_seqNo p

/-! ### …and over whole histories: never the same (account, nonce) twice before it is committed -/

/-- `generateBlock`, whatever it answers: afterwards the batched set is the set before plus the pointers of this batch -/
theorem generateBlock_batched (p : Pool) (x : Ptr) :
    x ∈ (generateBlock p).1.batched ↔ (x ∈ p.batched ∨ x ∈ batchPointers p) := by
  unfold generateBlock batchPointers
  simp only
  generalize (if p.nonBatch > p.batchSize then p.batchSize else p.nonBatch) = limit
  have hI := fold_binv p limit (sortPrio p.priority) { pool := p } (binv_init p)
  split
  · exact hI.grown x
  · exact hI.grown x

/-- when `generateBlock` answers with the "batch with 0 txs" error it has batched nothing -/
theorem generateBlock_none (p : Pool) (h : (generateBlock p).2 = none) : batchPointers p = [] := by
  unfold generateBlock at h
  unfold batchPointers
  simp only at h ⊢
  generalize (if p.nonBatch > p.batchSize then p.batchSize else p.nonBatch) = limit at h ⊢
  split at h
  · rename_i hc
    simp only [Bool.and_eq_true, List.isEmpty_iff] at hc
    exact hc.1.2
  · cases h

inductive Op
  | process (txs : List TxR) (isLeader : Bool) (group : Nat)
  | generate
  | commit (hashes : List String)
  | evict (cut : Nat)

def step (p : Pool) : Op → Pool
  | .process txs l g => (process p txs l g).1
  | .generate => (generate p).1
  | .commit hs => commit p hs
  | .evict cut => (evict p cut).1

def run (p : Pool) (ops : List Op) : Pool := ops.foldl step p

/-- the (account, nonce) pointers an operation hands to consensus (`[]`: it builds no batch) -/
def emitted (p : Pool) : Op → List Ptr
  | .process txs l g =>
    if l && (processPre p txs g).nonBatch ≥ (processPre p txs g).batchSize && !(processPre p txs g).timed
    then batchPointers (processPre p txs g) else []
  | .generate => if !p.timed && p.nonBatch == 0 then [] else batchPointers p
  | _ => []

/-- `emitted` is what the batch of the operation is made of -/
theorem emitted_is_the_batch (p : Pool) :
    (∀ b, (generate p).2 = some b → b.txs = (emitted p .generate).map (fun ptr => KV.get (generate p).1.items ptr)) ∧
    (∀ txs l g b, (process p txs l g).2 = some b →
      b.txs = (emitted p (.process txs l g)).map (fun ptr => KV.get (process p txs l g).1.items ptr)) := by
  constructor
  · intro b hb
    unfold generate at hb ⊢
    unfold emitted
    split
    · rename_i hc; rw [if_pos hc] at hb; cases hb
    · rename_i hc
      rw [if_neg hc] at hb
      exact C18_batch_is_pointer_image p (generateBlock p).1 b (Prod.ext rfl hb)
  · intro txs l g b hb
    simp only [emitted]
    rw [process_eq] at hb ⊢
    split
    · rename_i hc
      rw [if_pos hc] at hb
      exact C18_batch_is_pointer_image _ (generateBlock (processPre p txs g)).1 b (Prod.ext rfl hb)
    · rename_i hc; rw [if_neg hc] at hb; cases hb

/-- one operation: only batch building adds to the batched set, what it adds was not in it, and only a commit that names
the transaction takes a pointer out -/
theorem step_batched (p : Pool) (op : Op) (x : Ptr) :
    (x ∈ (step p op).batched ↔ ((x ∈ p.batched ∧ (x ∈ (step p op).batched)) ∨ x ∈ emitted p op)) ∧
    (x ∈ emitted p op → x ∉ p.batched) ∧
    (x ∈ p.batched → x ∉ (step p op).batched → ∃ hs, op = .commit hs ∧ ∃ h ∈ hs, KV.get p.hashMap h = some x) := by
  cases op with
  | process txs l g =>
    simp only [step, emitted]
    rw [process_eq]
    split
    · have hg := generateBlock_batched (processPre p txs g) x
      rw [processPre_batched] at hg
      refine ⟨?_, ?_, ?_⟩
      · rw [hg]; constructor
        · rintro (h | h)
          · exact Or.inl ⟨h, Or.inl h⟩
          · exact Or.inr h
        · rintro (⟨h, _⟩ | h)
          · exact Or.inl h
          · exact Or.inr h
      · intro hx
        have := (C18_generate_gap_free_no_repeat (processPre p txs g)).2.1 x hx
        rwa [processPre_batched] at this
      · intro hx hnx; exact absurd (hg.mpr (Or.inl hx)) hnx
    · simp only [processPre_batched]
      refine ⟨by simp, by simp, fun hx hnx => absurd hx hnx⟩
  | generate =>
    simp only [step, emitted]
    unfold generate
    split
    · refine ⟨by simp, by simp, fun hx hnx => absurd hx hnx⟩
    · have hg := generateBlock_batched p x
      refine ⟨?_, ?_, ?_⟩
      · rw [hg]; constructor
        · rintro (h | h)
          · exact Or.inl ⟨h, Or.inl h⟩
          · exact Or.inr h
        · rintro (⟨h, _⟩ | h)
          · exact Or.inl h
          · exact Or.inr h
      · intro hx; exact (C18_generate_gap_free_no_repeat p).2.1 x hx
      · intro hx hnx; exact absurd (hg.mpr (Or.inl hx)) hnx
  | commit hs =>
    simp only [step, emitted]
    have hc := commit_batched p hs x
    refine ⟨?_, by simp, fun hx hnx => ⟨hs, rfl, hc.2 hx hnx⟩⟩
    constructor
    · intro h; exact Or.inl ⟨hc.1 h, h⟩
    · rintro (⟨_, h⟩ | h)
      · exact h
      · cases h
  | evict cut =>
    simp only [step, emitted, evict_batched]
    refine ⟨by simp, by simp, fun hx hnx => absurd hx hnx⟩

/-- **never the same (account, nonce) twice before it is committed — over any history** of admissions, batch generations,
commit notifications (whatever they name, in whatever order) and evictions, from any pool state: if a pointer is in the
batched set and a later operation of the history hands it to consensus again, then in between a commit notification named a
hash the pool held for exactly that pointer -/
theorem C18_history_rebatch_only_after_commit (pre : List Op) (p : Pool) (op : Op) (x : Ptr)
    (hx : x ∈ p.batched) (he : x ∈ emitted (run p pre) op) :
    ∃ pre1 hs post1, pre = pre1 ++ Op.commit hs :: post1 ∧ ∃ h ∈ hs, KV.get (run p pre1).hashMap h = some x := by
  induction pre generalizing p with
  | nil => exact absurd hx ((step_batched p op x).2.1 he)
  | cons o rest ih =>
    by_cases hin : x ∈ (step p o).batched
    · obtain ⟨pre1, hs, post1, e, h, hh, hg⟩ := ih (step p o) hin he
      exact ⟨o :: pre1, hs, post1, by rw [e]; rfl, h, hh, hg⟩
    · obtain ⟨hs, e, h, hh, hg⟩ := (step_batched p o x).2.2 hx hin
      exact ⟨[], hs, rest, by rw [e]; rfl, h, hh, hg⟩

/-- the same for two batches of one history: between two operations that hand the same pointer to consensus lies a commit
notification naming it -/
theorem C18_history_no_double_batch (pre mid : List Op) (p : Pool) (op1 op2 : Op) (x : Ptr)
    (h1 : x ∈ emitted (run p pre) op1) (h2 : x ∈ emitted (run p (pre ++ op1 :: mid)) op2) :
    ∃ m1 hs m2, mid = m1 ++ Op.commit hs :: m2 ∧ ∃ h ∈ hs, KV.get (run p (pre ++ op1 :: m1)).hashMap h = some x := by
  have hb : x ∈ (step (run p pre) op1).batched := ((step_batched (run p pre) op1 x).1).mpr (Or.inr h1)
  have e : ∀ l, run p (pre ++ op1 :: l) = run (step (run p pre) op1) l := by
    intro l; simp [run, List.foldl_append]
  rw [e] at h2
  obtain ⟨m1, hs, m2, em, h, hh, hg⟩ := C18_history_rebatch_only_after_commit mid _ op2 x hb h2
  exact ⟨m1, hs, m2, em, h, hh, by rw [e]; exact hg⟩

-- the exception is real and the premises are met: nonce 0 is batched, committed by its hash, offered again under another
-- hash (a pool that lags behind: committed nonce still 0), and batched a second time
example :
    let t0 : TxR := { acct := "a", nonce := 0, hash := "h0", ts := 1 }
    let p : Pool := { nonBatch := 1, items := [(("a", 0), t0)], hashMap := [("h0", ("a", 0))], nidx := [("a", 0)], priority := [(1, "a", 0)] }
    emitted p .generate = [("a", 0)] ∧ ("a", 0) ∈ (step p .generate).batched ∧
    ("a", 0) ∉ (run p [.generate, .commit ["h0"]]).batched := by decide +kernel

/-- non-vacuity: nonces 0,1,2 of one account ready (committed nonce 0), nonce 1 listed twice in the priority index
(a superseded transaction), nonce 4 parked: the batch is 0,1,2 -/
example :
    let p : Pool := { nonBatch := 3, items := [(("a", 0), ⟨"a", 0, "h0", 7⟩), (("a", 1), ⟨"a", 1, "h1", 9⟩), (("a", 2), ⟨"a", 2, "h2", 1⟩)] }
    -- the priority index in iteration order (time, account, nonce)
    ([(1, "a", 2), (5, "a", 1), (7, "a", 0), (9, "a", 1)].foldl (genStep 3) { pool := p }).result = [("a", 0), ("a", 1), ("a", 2)] := by decide

end Bxh.Props.C18
