import Bxh.Model.Mempool
namespace Bxh.Props.C18
open Bxh Bxh.Mempool
theorem placeholder_true : True := trivial
end Bxh.Props.C18
