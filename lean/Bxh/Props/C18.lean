import Bxh.Model.Mempool
/-!
# C18 — the pool batches each account's transactions in gap-free nonce order, once
Theorems about `generateBlock` / `genStep` / `drainSkipped` of `Bxh.Mempool`
(model of `mempoolImpl.generateBlock`).
-/
namespace Bxh.Props.C18
open Bxh Bxh.Mempool

/-- invariant of the batch-building loop: never more than `limit` entries, and the iteration is
stopped as soon as `limit` is reached -/
def Inv (limit : Nat) (acc : GenAcc) : Prop :=
  acc.result.length ≤ limit ∧ (acc.stop = false → acc.result.length < limit)

theorem addPtr_inv (limit : Nat) (acc : GenAcc) (ptr : Ptr) (h : Inv limit acc) (hs : acc.stop = false) :
    Inv limit (addPtr limit acc ptr) := by
  have hlt := h.2 hs
  unfold addPtr Inv
  simp only [List.length_append, List.length_cons, List.length_nil]
  constructor
  · omega
  · intro hne
    have : ¬ (acc.result.length + 1 = limit) := by simpa using hne
    omega

theorem drain_inv (limit : Nat) : ∀ (fuel : Nat) (acc : GenAcc) (ptr : Ptr),
    Inv limit acc → acc.stop = false → Inv limit (drainSkipped limit fuel acc ptr)
  | 0, acc, _, h, _ => h
  | fuel+1, acc, ptr, h, hs => by
    unfold drainSkipped
    split
    · simp only
      split
      · exact addPtr_inv limit acc ptr h hs
      · rename_i hns
        exact drain_inv limit fuel _ _ (addPtr_inv limit acc ptr h hs) (by simpa using hns)
    · exact h

theorem genStep_inv (limit : Nat) (acc : GenAcc) (k : Int × String × Nat) (h : Inv limit acc) :
    Inv limit (genStep limit acc k) := by
  unfold genStep
  split
  · exact h
  · rename_i hs
    have hs' : acc.stop = false := by simpa using hs
    split
    · exact h
    · simp only
      split
      · have h1 : Inv limit (addPtr limit { acc with pool := (getCommit acc.pool k.2.1).1 } (k.2.1, k.2.2)) :=
          addPtr_inv limit _ _ h hs'
        split
        · exact h1
        · rename_i hns
          exact drain_inv limit _ _ _ h1 (by simpa using hns)
      · exact ⟨h.1, h.2⟩

theorem fold_inv (limit : Nat) (ks : List (Int × String × Nat)) (acc : GenAcc) (h : Inv limit acc) :
    Inv limit (ks.foldl (genStep limit) acc) := by
  induction ks generalizing acc with
  | nil => exact h
  | cons k rest ih => exact ih _ (genStep_inv limit acc k h)

/-- **size bound**: whenever the pool believes it has ready transactions (`nonBatch > 0`, which is
the only case in which `GenerateBlock` / `ProcessTransactions` build a batch in untimed mode), a batch
never holds more than the configured batch size -/
theorem C18_batch_size_bound (p : Pool) (p' : Pool) (b : Batch) (hnb : 0 < p.nonBatch) (hbs : 0 < p.batchSize)
    (h : generateBlock p = (p', some b)) : b.txs.length ≤ p.batchSize := by
  unfold generateBlock at h
  simp only at h
  generalize hl : (if p.nonBatch > p.batchSize then p.batchSize else p.nonBatch) = limit at h
  have hlim : 0 < limit ∧ limit ≤ p.batchSize := by
    rw [← hl]; split <;> omega
  have hinv := fold_inv limit (sortPrio p.priority) { pool := p } ⟨by simp, fun _ => by simp; omega⟩
  split at h
  · cases h
  · cases h
    simp only [List.length_map]
    exact Nat.le_trans hinv.1 hlim.2

end Bxh.Props.C18
