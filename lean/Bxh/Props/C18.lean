import Bxh.Model.Mempool
import Bxh.Proofs.PoolBatch
import Bxh.Proofs.PoolHeld
/-!
# C18 — the pool batches each account's transactions in gap-free nonce order, once
Theorems about `generateBlock` / `genStep` / `drainSkipped` of `Bxh.Mempool`
(model of `mempoolImpl.generateBlock`).
-/
namespace Bxh.Props.C18
open Bxh Bxh.Mempool

/-- invariant of the batch-building loop: never more than `limit` entries, and the iteration is
stopped as soon as `limit` is reached -/
def Inv (limit : Nat) (acc : GenAcc) : Prop :=
  acc.result.length ≤ limit ∧ (acc.stop = false → acc.result.length < limit)

theorem addPtr_inv (limit : Nat) (acc : GenAcc) (ptr : Ptr) (h : Inv limit acc) (hs : acc.stop = false) :
    Inv limit (addPtr limit acc ptr) := by
  have hlt := h.2 hs
  unfold addPtr Inv
  simp only [List.length_append, List.length_cons, List.length_nil]
  constructor
  · omega
  · intro hne
    have : ¬ (acc.result.length + 1 = limit) := by simpa using hne
    omega

theorem drain_inv (limit : Nat) : ∀ (fuel : Nat) (acc : GenAcc) (ptr : Ptr),
    Inv limit acc → acc.stop = false → Inv limit (drainSkipped limit fuel acc ptr)
  | 0, acc, _, h, _ => h
  | fuel+1, acc, ptr, h, hs => by
    unfold drainSkipped
    split
    · simp only
      split
      · exact addPtr_inv limit acc ptr h hs
      · rename_i hns
        exact drain_inv limit fuel _ _ (addPtr_inv limit acc ptr h hs) (by simpa using hns)
    · exact h

theorem genStep_inv (limit : Nat) (acc : GenAcc) (k : Int × String × Nat) (h : Inv limit acc) :
    Inv limit (genStep limit acc k) := by
  unfold genStep
  split
  · exact h
  · rename_i hs
    have hs' : acc.stop = false := by simpa using hs
    split
    · exact h
    · simp only
      split
      · have h1 : Inv limit (addPtr limit { acc with pool := (getCommit acc.pool k.2.1).1 } (k.2.1, k.2.2)) :=
          addPtr_inv limit _ _ h hs'
        split
        · exact h1
        · rename_i hns
          exact drain_inv limit _ _ _ h1 (by simpa using hns)
      · exact ⟨h.1, h.2⟩

theorem fold_inv (limit : Nat) (ks : List (Int × String × Nat)) (acc : GenAcc) (h : Inv limit acc) :
    Inv limit (ks.foldl (genStep limit) acc) := by
  induction ks generalizing acc with
  | nil => exact h
  | cons k rest ih => exact ih _ (genStep_inv limit acc k h)

/-- **size bound**: whenever the pool believes it has ready transactions (`nonBatch > 0`, which is
the only case in which `GenerateBlock` / `ProcessTransactions` build a batch in untimed mode), a batch
never holds more than the configured batch size -/
theorem C18_batch_size_bound (p : Pool) (p' : Pool) (b : Batch) (hnb : 0 < p.nonBatch) (hbs : 0 < p.batchSize)
    (h : generateBlock p = (p', some b)) : b.txs.length ≤ p.batchSize := by
  unfold generateBlock at h
  simp only at h
  generalize hl : (if p.nonBatch > p.batchSize then p.batchSize else p.nonBatch) = limit at h
  have hlim : 0 < limit ∧ limit ≤ p.batchSize := by
    rw [← hl]; split <;> omega
  have hinv := fold_inv limit (sortPrio p.priority) { pool := p } ⟨by simp, fun _ => by simp; omega⟩
  split at h
  · cases h
  · cases h
    simp only [List.length_map]
    exact Nat.le_trans hinv.1 hlim.2

/-- the (account, nonce) pointers `generateBlock` puts into the batch, in batch order -/
def batchPointers (p : Pool) : List Ptr :=
  let limit := if p.nonBatch > p.batchSize then p.batchSize else p.nonBatch
  ((sortPrio p.priority).foldl (genStep limit) { pool := p }).result

/-- the batch handed to consensus is the image of those pointers (the transactions stored under them) -/
theorem C18_batch_is_pointer_image (p p' : Pool) (b : Batch) (h : generateBlock p = (p', some b)) :
    b.txs = (batchPointers p).map (fun ptr => KV.get p'.items ptr) := by
  unfold generateBlock at h
  simp only at h
  generalize hl : (if p.nonBatch > p.batchSize then p.batchSize else p.nonBatch) = limit at h
  have hbp : batchPointers p = ((sortPrio p.priority).foldl (genStep limit) { pool := p }).result := by
    unfold batchPointers; simp only [hl]
  split at h
  · cases h
  · cases h; rw [hbp]

/-- **gap-free and once, for every pool state** (whatever arrived in whatever order, whatever is parked, whatever the
priority index holds — including two entries for one pointer): the pointers of one batch are pairwise distinct, none
of them was already batched and uncommitted, and each carries either the account's committed nonce or the successor
of a nonce that is batched (before this batch or earlier in it) — the batch never skips a nonce -/
theorem C18_generate_gap_free_no_repeat (p : Pool) :
    (batchPointers p).Nodup ∧
    (∀ ptr ∈ batchPointers p, ptr ∉ p.batched) ∧
    (∀ ptr ∈ batchPointers p, ptr.2 = cn p ptr.1 ∨
      (1 ≤ ptr.2 ∧ ((ptr.1, ptr.2 - 1) ∈ p.batched ∨ (ptr.1, ptr.2 - 1) ∈ batchPointers p))) := by
  unfold batchPointers
  simp only
  generalize hl : (if p.nonBatch > p.batchSize then p.batchSize else p.nonBatch) = limit
  have hI := fold_binv p limit (sortPrio p.priority) { pool := p } (binv_init p)
  refine ⟨hI.nodup, fun ptr h => (hI.fresh ptr h).2, fun ptr h => ?_⟩
  rcases hI.gapfree ptr h with h1 | ⟨h1, h2⟩
  · exact Or.inl h1
  · exact Or.inr ⟨h1, (hI.grown _).mp h2⟩

/-- and what is batched afterwards is what was batched before plus this batch -/
theorem C18_batched_grows_by_batch (p p' : Pool) (b : Batch) (h : generateBlock p = (p', some b)) (x : Ptr) :
    x ∈ p'.batched ↔ (x ∈ p.batched ∨ x ∈ batchPointers p) := by
  unfold generateBlock at h
  simp only at h
  generalize hl : (if p.nonBatch > p.batchSize then p.batchSize else p.nonBatch) = limit at h
  have hI := fold_binv p limit (sortPrio p.priority) { pool := p } (binv_init p)
  have hbp : batchPointers p = ((sortPrio p.priority).foldl (genStep limit) { pool := p }).result := by
    unfold batchPointers; simp only [hl]
  split at h
  · cases h
  · cases h
    rw [hbp]
    exact hI.grown x

/-- **batch sequence numbers increase by one**: a generated batch carries the previous sequence number plus one, and a
call that generates nothing leaves the number alone -/
theorem C18_seqno_steps_by_one (p : Pool) :
    (∀ p' b, generateBlock p = (p', some b) → p'.seqNo = p.seqNo + 1 ∧ b.height = p.seqNo + 1) ∧
    (∀ p', generateBlock p = (p', none) → p'.seqNo = p.seqNo) := generateBlock_seqNo p

/-- non-vacuity: nonces 0,1,2 of one account ready (committed nonce 0), nonce 1 listed twice in the priority index
(a superseded transaction), nonce 4 parked: the batch is 0,1,2 -/
example :
    let p : Pool := { nonBatch := 3, items := [(("a", 0), ⟨"a", 0, "h0", 7⟩), (("a", 1), ⟨"a", 1, "h1", 9⟩), (("a", 2), ⟨"a", 2, "h2", 1⟩)] }
    -- the priority index in iteration order (time, account, nonce)
    ([(1, "a", 2), (5, "a", 1), (7, "a", 0), (9, "a", 1)].foldl (genStep 3) { pool := p }).result = [("a", 0), ("a", 1), ("a", 2)] := by decide

end Bxh.Props.C18
