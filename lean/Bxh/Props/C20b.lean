import Bxh.Model.ReadyLoop
import Bxh.Gen.ReadyOrder
/-!
# C20 — "identical content on every replica … across crash/restart of any replica at any point": nothing is acknowledged before it is durable

A replica that acknowledges log index k (or grants a vote) and forgets it in a crash lets two different batches be committed for one
height.  The order of the calls that handle one `Ready` is extracted from `listenRaftMsg` on every run (`Gen.readyHandler`).
-/
namespace Bxh.Props.C20
open Bxh.ReadyLoop

/-- what the other replicas were told is a subset of what this replica still knows after a crash -/
def Safe (r : Rep) : Prop := (∀ i ∈ r.sentAcks, i ∈ r.durable) ∧ (∀ t ∈ r.sentGrants, t ∈ r.votes)

/-- etcd/raft's side of the contract: the messages of a Ready acknowledge only entries that are durable already or are among the
entries of the same Ready, and grant only votes that are durable or are the vote of the same Ready's hard state -/
def Contract (rd : Ready) (r : Rep) (stored : Bool) : Prop :=
  (∀ i ∈ rd.acks, i ∈ r.durable ∨ (stored = false ∧ i ∈ rd.entries)) ∧
  (∀ t ∈ rd.grants, t ∈ r.votes ∨ (stored = false ∧ rd.vote = some t))

theorem run_safe (rd : Ready) : ∀ (steps : List Step) (r : Rep) (seen : Bool), okB seen steps = true → Safe r → Contract rd r seen →
    ∀ k, Safe (run rd (steps.take k) r) := by
  intro steps
  induction steps with
  | nil => intro r seen _ hs _ k; simpa [run] using hs
  | cons s t ih =>
    intro r seen hok hs hc k
    cases k with
    | zero => simpa [run] using hs
    | succ k =>
      show Safe (run rd (t.take k) (exec rd r s))
      cases s with
      | store =>
        refine ih _ true hok ?_ ?_ k
        · refine ⟨fun i hi => ?_, fun x hx => ?_⟩
          · exact List.mem_append_left _ (hs.1 i hi)
          · exact List.mem_append_left _ (hs.2 x hx)
        · refine ⟨fun i hi => ?_, fun x hx => ?_⟩
          · left
            rcases hc.1 i hi with h | ⟨_, h⟩
            · exact List.mem_append_left _ h
            · exact List.mem_append_right _ h
          · left
            rcases hc.2 x hx with h | ⟨_, h⟩
            · exact List.mem_append_left _ h
            · exact List.mem_append_right _ (by rw [h]; simp)
      | send =>
        simp only [okB, Bool.and_eq_true] at hok
        obtain ⟨hseen, hok⟩ := hok
        subst hseen
        refine ih _ true hok ?_ ?_ k
        · refine ⟨fun i hi => ?_, fun x hx => ?_⟩
          · rcases List.mem_append.mp hi with h | h
            · exact hs.1 i h
            · rcases hc.1 i h with h' | ⟨h', _⟩
              · exact h'
              · cases h'
          · rcases List.mem_append.mp hx with h | h
            · exact hs.2 x h
            · rcases hc.2 x h with h' | ⟨h', _⟩
              · exact h'
              · cases h'
        · exact hc
      | other => exact ih _ seen hok hs hc k

/-- the extracted order has every send behind the store (re-checked against the source on every run) -/
theorem C20_ready_handler_sends_after_store : okB false (Bxh.Gen.readyHandler.map classify) = true := by decide

/-- both calls are there (a handler without `n.send` would satisfy the order vacuously) -/
theorem C20_ready_handler_has_store_and_send :
    (Bxh.Gen.readyHandler.map classify).count .store = 1 ∧ (Bxh.Gen.readyHandler.map classify).count .send = 1 := by decide

/-- **nothing is acknowledged before it is durable, at any crash point**: for every replica state in which the others were told
nothing this replica could forget, and every Ready that keeps raft's side of the contract, a crash after any number `k` of the calls
of the Ready handler — as the source has them now — leaves a replica that still knows every log index it acknowledged and every
vote it granted -/
theorem C20_acknowledged_entries_survive_any_crash (rd : Ready) (r : Rep) (hs : Safe r) (hc : Contract rd r false) (k : Nat) :
    Safe (crashAfter rd Bxh.Gen.readyHandler r k) := by
  unfold crashAfter
  rw [List.map_take]
  exact run_safe rd _ r false C20_ready_handler_sends_after_store hs hc k

/-- the order matters: with the messages handed over first, a crash between the two calls leaves an acknowledged index the replica
does not hold (the witness a reordered handler is replayed with) -/
theorem C20_send_before_store_forgets_an_acknowledged_entry :
    ¬ Safe (crashAfter { entries := [4], acks := [4] } ["n.send", "n.raftStorage.Store"] {} 1) := by
  intro h
  have := h.1 4 (by decide)
  simp [crashAfter, run, exec, classify] at this

/-- non-vacuity: a replica holding indices 1–3 gets a Ready with entry 4, a vote for term 2, and messages acknowledging 4 and granting
the vote of term 2: the contract holds before the store -/
example : Safe { durable := [1, 2, 3], sentAcks := [3] } ∧
    Contract { entries := [4], vote := some 2, acks := [4], grants := [2] } { durable := [1, 2, 3], sentAcks := [3] } false := by
  refine ⟨⟨by decide, by decide⟩, ⟨?_, ?_⟩⟩
  · intro i hi; right; exact ⟨rfl, hi⟩
  · intro t ht
    right
    refine ⟨rfl, ?_⟩
    simp at ht
    rw [ht]

/-- position of a call in the extracted handler -/
def posOf (c : String) : Option Nat := (Bxh.Gen.readyHandler.zipIdx.find? (fun p => p.1 == c)).map (·.2)

/-- the rest of etcd/raft's contract for the application, read off the extracted order: the committed entries are applied
(`publishEntries`) and a received snapshot is installed (`recoverFromSnapshot`) only after the Ready was made durable, and
`Advance` — which lets raft hand out the next Ready — is the last call of the handler -/
theorem C20_ready_handler_applies_after_store_and_advances_last :
    (do let s ← posOf "n.raftStorage.Store"; let p ← posOf "n.publishEntries"; pure (decide (s < p))) = some true ∧
    (do let s ← posOf "n.raftStorage.Store"; let r ← posOf "n.recoverFromSnapshot"; pure (decide (s < r))) = some true ∧
    Bxh.Gen.readyHandler.getLast? = some "n.node.Advance" := by decide

end Bxh.Props.C20
