import Bxh.Proofs.LedgerFrame
import Bxh.Proofs.LedgerFlush
import Bxh.Gen.FailedEvents
/-!
# C07 — "Read-only (view) execution never changes ledger state or chain metadata at all"

`ApplyReadonlyTransactions` runs each transaction through `applyTransaction` on the view ledger and then calls `Clear()`; it never
flushes or commits.  On the model of the state ledger: whatever journaled writes the transaction made (storage writes and deletes,
balance, nonce; accounts loaded, loadable or created by the write), after `Clear` the ledger differs from the one before the
transaction in nothing a later reader, a later flush or a later commit can see.
-/
namespace Bxh.Props.C07
open Bxh Bxh.Ledger

/-- **view execution leaves nothing behind**: start from a ledger without account objects (the view ledger between two calls), make
any sequence of journaled writes, `Clear`: database, account cache, the root the next block is chained to, the journal window and
the pending block journals are the ones from before; there are no account objects; every storage key, balance and nonce of every
account reads what it read before; a flush right afterwards has nothing to write and computes the root it would have computed
before -/
theorem C07_view_execution_changes_nothing (H : RootPre → String) (l : L) (hno : l.accounts = []) (ws : List Write) :
    (clear (applyWrites ws l)).db = l.db ∧ (clear (applyWrites ws l)).cache = l.cache ∧
    (clear (applyWrites ws l)).prevRoot = l.prevRoot ∧ (clear (applyWrites ws l)).minJ = l.minJ ∧
    (clear (applyWrites ws l)).maxJ = l.maxJ ∧ (clear (applyWrites ws l)).blockJournals = l.blockJournals ∧
    (clear (applyWrites ws l)).accounts = [] ∧
    (∀ a k, (getState (clear (applyWrites ws l)) a k).2 = (getState l a k).2) ∧
    (∀ a, (getBalance (clear (applyWrites ws l)) a).2 = (getBalance l a).2 ∧ (getNonce (clear (applyWrites ws l)) a).2 = (getNonce l a).2) ∧
    (flush H (clear (applyWrites ws l))).2.root = (flush H l).2.root ∧ (flush H (clear (applyWrites ws l))).2.accounts = [] := by
  have hf := applyWrites_frame ws l
  have hc : (clear (applyWrites ws l)).cache = l.cache := hf.cache
  have hd : (clear (applyWrites ws l)).db = l.db := hf.db
  have ha : (clear (applyWrites ws l)).accounts = [] := rfl
  refine ⟨hd, hc, hf.prevRoot, hf.minJ, hf.maxJ, hf.bj, ha, ?_, ?_, ?_, ?_⟩
  · intro a k
    rw [getState_peek, getState_peek, peekState_no_objects _ ha, peekState_no_objects _ hno]
    exact below_congr hc hd a k
  · intro a
    rw [getBalance_peek, getBalance_peek, getNonce_peek, getNonce_peek,
      peekInner_congr hc hd a (by rw [ha, hno])]
    exact ⟨rfl, rfl⟩
  · have hp : (clear (applyWrites ws l)).prevRoot = l.prevRoot := hf.prevRoot
    unfold flush
    simp only [ha, hno, hp, List.map_nil, List.filterMap_nil]
  · unfold flush
    simp only [ha, List.map_nil, List.filterMap_nil]

/-- non-vacuity: a view ledger over a database with one account, a "transaction" that writes storage, balance and nonce of that
account and of a new one -/
example :
    let l : L := { db := { acct := [(1, { nonce := 3, balance := 10 })], state := [((1, "k"), "v")] } }
    l.accounts = [] ∧ (getState (applyWrites [.storage 1 "k" (some "w"), .balance 1 0, .nonce 2 9] l) 1 "k").2 = some "w" ∧
      (getState (clear (applyWrites [.storage 1 "k" (some "w"), .balance 1 0, .nonce 2 9] l)) 1 "k").2 = some "v" := by
  refine ⟨rfl, ?_, ?_⟩ <;> decide

/-- **what a FAILED transaction posted is void, whatever made it fail**: the condition under which `applyTx` drops the events of a
transaction — extracted from the source on every run — is the bare test of the receipt status, with no exception for particular
errors; it is the condition the model's `applyTx` uses (`C07_failed_tx_not_listed`: a FAILED receipt carries no event, is never
listed for delivery, does not reach the service cache, the node feed or the audit feed) -/
theorem C07_events_void_iff_failed : Bxh.Gen.failedEventsCond = "receipt.Status == pb.Receipt_FAILED" := by decide

end Bxh.Props.C07
