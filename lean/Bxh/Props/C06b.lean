import Bxh.Props.C04
import Bxh.Proofs.ExecListedE
/-!
# C06 — over whole histories of blocks (uses the `Tracked` invariant of `Props/C04.lean`)

"A request whose receipt was accepted in a block up to and including H+T is never listed as timed out and its status is never
altered by the timeout mechanism; requests with T=0 never time out."  The block-level theorems of `Props/C06.lean` say what one
bookkeeping step and one timeout step do; here the statements are about every history of blocks that starts on a fresh chain.
-/
namespace Bxh.Props.C06
open Bxh Bxh.Exec Bxh.Props.C02 Bxh.Props.C04

/-- **an answered request never times out**: once the record of `t` is final at a block boundary (its receipt was accepted in some
block — in the deadline block at the latest, or it would be BEGIN_ROLLBACK), `t` is on the list of no later height when that
height's timeout step runs, in every continuation of the history, and its status is what it was -/
theorem C06_answered_request_never_times_out (cfg : Cfg) (blocks : List (List (Tx × Bool))) (n : Node) (t : TxId) (st : Status)
    (hF : FinalInvL { cfg := cfg, cache := n.cache, height := 0, txIndex := 0 } n.led n.height t st) (hf : st.isFinal = true)
    (hnd : ∀ b ∈ blocks, ∀ p ∈ b, ∀ sg args, p.1 ≠ .bvm sg "interchain" "DeleteInterchain" args) :
    recStatus (runBlocks cfg n blocks).led t = some st ∧
    ∀ d, (runBlocks cfg n blocks).height < d → TId.single t ∉ getTimeoutList (runBlocks cfg n blocks).led d := by
  obtain ⟨h1, h2⟩ := C04_block_history_final_stays_unlisted cfg blocks n t st hF hf hnd
  exact ⟨h1, fun d hd hm => h2 d hd (listedAt_of_mem_getTimeoutList hm)⟩

/-- **… from the first block on**: on a history that starts on a fresh chain, if the status of `t` is final after the first `k`
blocks then no later block's timeout step finds `t` on its list: the lists still to come after all blocks do not hold it -/
theorem C06_final_is_unlisted_forever (cfg : Cfg) (blocks : List (List (Tx × Bool))) (n : Node) (t : TxId)
    (hT : Tracked cfg n t) (hdst : (t.to.chain == cfg.bxh) = false)
    (hB : ∀ j (hj : j < blocks.length), BlockOk cfg (runBlocks cfg n (blocks.take j)) blocks[j] t)
    (st : Status) (hst : recStatus (runBlocks cfg n blocks).led t = some st) (hf : st.isFinal = true) :
    ∀ d, (runBlocks cfg n blocks).height < d → TId.single t ∉ getTimeoutList (runBlocks cfg n blocks).led d := by
  have hTe := C04_history_tracked cfg blocks n t hT hdst hB
  intro d hd hm
  cases hTe with
  | fresh hN _ => unfold recStatus at hst; rw [hN.norec] at hst; cases hst
  | opened rec0 hO hopen => unfold recStatus at hst; rw [hO.recd] at hst; cases hst; rw [hopen] at hf; cases hf
  | final st' hF _ => exact hF.unlisted d hd (listedAt_of_mem_getTimeoutList hm)

/-- **an open transaction is on the lists still to come at most once, and only under the deadline its record names**, at every
block boundary of every history that starts on a fresh chain — so it can be listed as timed out in one block only, the block of its
recorded deadline, and a transaction recorded without a deadline (T = 0: `maxU64`) is on no list a block will ever read -/
theorem C06_open_listed_only_under_its_deadline (cfg : Cfg) (blocks : List (List (Tx × Bool))) (n : Node) (t : TxId)
    (hT : Tracked cfg n t) (hdst : (t.to.chain == cfg.bxh) = false)
    (hB : ∀ j (hj : j < blocks.length), BlockOk cfg (runBlocks cfg n (blocks.take j)) blocks[j] t)
    (r : Rec) (hr : (runBlocks cfg n blocks).led.getS (.txRec t) = some (.trec r)) (d : Nat)
    (hd : (runBlocks cfg n blocks).height < d) (hm : TId.single t ∈ getTimeoutList (runBlocks cfg n blocks).led d) :
    d = r.height ∧ r.status.isFinal = false ∧ listCount (runBlocks cfg n blocks).led d t = 1 := by
  have hTe := C04_history_tracked cfg blocks n t hT hdst hB
  have hl := listedAt_of_mem_getTimeoutList hm
  cases hTe with
  | fresh hN hul =>
    exfalso
    have := listedAt_iff_count.mp hl
    rw [hul d hd] at this; omega
  | opened rec0 hO hopen =>
    rw [hO.recd] at hr
    cases hr
    have h1 := hO.cnt d hd
    have h2 := listedAt_iff_count.mp hl
    exact ⟨hO.only d hd hl, hopen, by omega⟩
  | final st' hF _ => exact absurd hl (hF.unlisted d hd)

/-- **the transactions of a block neither add a one-to-one id to a timeout list nor take one off**: after any block's transactions
every one-to-one id is on every list exactly as often as before (only the bookkeeping at the end of the block edits them), and the
lists stay well-formed -/
theorem C06_transactions_leave_the_lists_alone (cfg : Cfg) (n : Node) (txs : List (Tx × Bool)) (d : Nat) (t : TxId) :
    listCount (applyTxs cfg n.cache (n.height + 1) n.led txs).led d t = listCount n.led d t :=
  applyTxs_count_eq cfg n.cache (n.height + 1) n.led txs d t

/-! ## the positive half: an unanswered request is on the list of H+T and times out in that block

`Due` is the invariant: the record is open, its deadline is still to come, the id is on the list of that deadline exactly once, and
every timeout list is well-formed (`[none]`, the way an emptied list is stored, or without a `none`).  A block that accepts the request
establishes it (`C06_block_opens_due`), a block that does not answer it keeps it (`C06_block_keeps_due`, `C06_history_keeps_due`), and
the block of the deadline fires (`C06_block_fires_due`, `C06_unanswered_request_times_out`). -/

/-- "remove" is decided for a request between two hubs whose record is final, or for a receipt whose record says so -/
theorem timeoutAct_remove {cfg : Cfg} {l : Led} {h : Nat} {tx : Tx} {rc : Rcpt} {d : Nat} {id : TxId}
    (e : timeoutAct cfg l h tx rc = .remove d id) :
    ∃ s i p, tx = .ibtp s i p ∧ i.frm = some id.frm ∧ i.to = some id.to ∧ i.index = id.index ∧
      ((i.typ.isRequest = true ∧ (finalInterRecord l id).isSome = true) ∨
       (i.typ.isResponse = true ∧ ∃ r, l.getS (.txRec id) = some (.trec r) ∧ d = r.height ∧
          ¬ ((!rc.ok || rc.ret == "batch_ibtp") = true ∧ r.status.isFinal = false))) := by
  unfold timeoutAct at e
  split at e
  · rename_i s i p
    split at e
    · rename_i f t hf ht
      by_cases hreq : i.typ.isRequest = true
      · have hresp : i.typ.isResponse = false := by
          cases hh : i.typ <;> simp_all [IType.isRequest, IType.isResponse]
        simp only [hreq, hresp, if_true, Bool.not_false, Bool.and_true] at e
        split at e
        · cases e
        · split at e
          · rename_i hfi
            cases e
            exact ⟨s, i, p, rfl, hf, ht, rfl, Or.inl ⟨hreq, hfi⟩⟩
          · split at e
            · cases e
            · split at e
              · cases e
              · cases e
      · simp only [hreq, Bool.false_eq_true, if_false] at e
        split at e
        · cases e
        · simp only [Option.isSome_none, Bool.false_eq_true, if_false] at e
          split at e
          · cases e
          · split at e
            · rename_i hresp
              split at e
              · rename_i r hr
                split at e
                · cases e
                · rename_i hc
                  cases e
                  refine ⟨s, i, p, rfl, hf, ht, rfl, Or.inr ⟨hresp, r, hr, rfl, ?_⟩⟩
                  intro ⟨h1, h2⟩
                  apply hc
                  simp [h1, h2]
              · cases e
              · split at e
                · cases e
                · split at e <;> cases e
            · cases e
    · cases e
  · cases e

/-- what the bookkeeping decides for an accepted plain request with a deadline: list it under `h + T` -/
theorem timeoutAct_request_add (cfg : Cfg) (l : Led) (h : Nat) (s : String) (i : Ibtp) (p : ProofKind) (rc : Rcpt) (t : TxId)
    (hreq : i.typ.isRequest = true) (hfr : i.frm = some t.frm) (hto : i.to = some t.to) (hix : i.index = t.index)
    (hdst : (t.to.chain == cfg.bxh) = false) (hg : i.group = none) (hfi : finalInterRecord l t = none)
    (hok : rc.ok = true) (hnb : (rc.ret == "batch_ibtp") = false) (hts : (rc.txStatus == 1) = false)
    (hT : 0 < i.timeout) (hT2 : i.timeout.toNat < maxU64 - h) :
    timeoutAct cfg l h (.ibtp s i p) rc = .add (h + i.timeout.toNat) t := by
  have hresp : i.typ.isResponse = false := by
    cases hh : i.typ <;> simp_all [IType.isRequest, IType.isResponse]
  have hid : ({ frm := t.frm, to := t.to, index := i.index } : TxId) = t := by rw [hix]
  unfold timeoutAct
  simp only [hfr, hto, hid, hreq, hresp, hdst, hts, hg, hfi, hok, hnb]
  simp
  omega

theorem tmReport_rec_self {l : Led} {id : TxId} {typ : Nat} {r : Led × StatusChange} {rec : Rec}
    (e : tmReport l id typ = .ok r) (hrec : l.getS (.txRec id) = some (.trec rec)) :
    ∃ st', txFsmStep rec.status (receiptEvent typ) = some st' ∧ r.1.getS (.txRec id) = some (.trec { rec with status := st' }) := by
  unfold tmReport at e
  rw [hrec] at e
  simp only at e
  split at e
  · cases e
  · rename_i st' hst
    cases e
    exact ⟨st', hst, by simp⟩

/-- a handled receipt of a transaction that has a record moves that record by the receipt's event — to a final status -/
theorem handleIBTP_response_finalises {env : Env} {l : Led} {i : Ibtp} {r : Led × String} {t : TxId} {rec : Rec}
    (h : handleIBTP env l i = .ok r) (hresp : i.typ.isResponse = true)
    (hfr : i.frm = some t.frm) (hto : i.to = some t.to) (hix : i.index = t.index)
    (hrec : l.getS (.txRec t) = some (.trec rec)) :
    ∃ st', st'.isFinal = true ∧ r.1.getS (.txRec t) = some (.trec { rec with status := st' }) := by
  obtain ⟨ck, hck⟩ := handleIBTP_ok_checked h
  obtain ⟨e1, e2⟩ := checkIBTP_ends hck
  have hreq := C04.isRequest_of_isResponse hresp
  have hid : ({ frm := ck.src, to := ck.dst, index := i.index } : TxId) = t := by
    rw [hfr] at e1; rw [hto] at e2
    have a1 : t.frm = ck.src := Option.some.inj e1
    have a2 : t.to = ck.dst := Option.some.inj e2
    rw [← a1, ← a2, hix]
  unfold handleIBTP at h
  simp only [hck, hreq, hresp, if_true, if_false, Bool.false_eq_true, hid] at h
  split at h
  · cases h
  · rename_i l1 c hr
    have hafter : r.1.getS (.txRec t) = l1.getS (.txRec t) := by
      have hn : (notifySrcDst env l1 ck.src ck.dst c ck.isBatch).getS (.txRec t) = l1.getS (.txRec t) :=
        notifySrcDst_frameA _ _ _ _ _ _ _ (rec_not_aux t)
      have hp := processIBTP_rec (notifySrcDst env l1 ck.src ck.dst c ck.isBatch) i ck c t
      generalize hpr : processIBTP (notifySrcDst env l1 ck.src ck.dst c ck.isBatch) i ck c = pr at h hp
      obtain ⟨l3, ret⟩ := pr
      simp only at h hp
      split at h
      · split at h
        · cases h
        · cases h
          show ((l3.post .audit).post .audit).getS _ = _
          simp only [Led.getS_post]
          rw [hp, hn]
      · cases h; rw [hp, hn]
    split at hr
    · cases hr
    · rename_i y hy
      cases hr
      obtain ⟨st', h3, h4⟩ := tmReport_rec_self hy hrec
      exact ⟨st', receipt_step_final _ _ _ hresp h3, by rw [hafter]; exact h4⟩

/-- … and so does the transaction that carries it, when its receipt is a success -/
theorem applyTx_valid_response_finalises (env : Env) (l : Led) (s : String) (i : Ibtp) (p : ProofKind) (inv : Option String)
    (t : TxId) (rec : Rec)
    (hok : (applyTx env l (.ibtp s i p) inv).2.rcpt.ok = true) (hresp : i.typ.isResponse = true)
    (hfr : i.frm = some t.frm) (hto : i.to = some t.to) (hix : i.index = t.index)
    (hrec : l.getS (.txRec t) = some (.trec rec)) :
    ∃ st', st'.isFinal = true ∧ (applyTx env l (.ibtp s i p) inv).1.getS (.txRec t) = some (.trec { rec with status := st' }) := by
  obtain ⟨r, h1, h2⟩ := applyTx_ok_effect env l s i p inv hok
  obtain ⟨st', hf, h3⟩ := handleIBTP_response_finalises (t := t) (rec := rec) h1 hresp hfr hto hix hrec
  exact ⟨st', hf, by rw [h2]; exact h3⟩

/-- a receipt transaction for `t` -/
def RespFor (t : TxId) (tx : Tx) : Prop :=
  ∃ s i pk, tx = .ibtp s i pk ∧ i.typ.isResponse = true ∧ i.frm = some t.frm ∧ i.to = some t.to ∧ i.index = t.index

/-- **a block that leaves an open record as it was accepted no receipt for it**: every receipt transaction for `t` in such a block has
a failed receipt (an accepted one would have moved the record to a final status, and a final status is never left) -/
theorem block_unanswered_no_valid_response (cfg : Cfg) (n : Node) (txs : List (Tx × Bool)) (t : TxId) (rec0 : Rec)
    (hP : PairInv { cfg := cfg, cache := n.cache, height := 0, txIndex := 0 } n.led t)
    (hr0 : n.led.getS (.txRec t) = some (.trec rec0)) (hopen : rec0.status.isFinal = false)
    (hnd : ∀ p ∈ txs, ∀ sg args, p.1 ≠ .bvm sg "interchain" "DeleteInterchain" args)
    (hsame : (applyTxs cfg n.cache (n.height + 1) n.led txs).led.getS (.txRec t) = some (.trec rec0)) :
    ∀ p ∈ (txs.map (·.1)).zip (applyTxs cfg n.cache (n.height + 1) n.led txs).rcpts, RespFor t p.1 → p.2.ok = false := by
  let e0 : Env := { cfg := cfg, cache := n.cache, height := 0, txIndex := 0 }
  have hΦ := applyTxs_zip_fold cfg n.cache (n.height + 1)
    (fun tx => ∀ sg args, tx ≠ .bvm sg "interchain" "DeleteInterchain" args)
    (fun l zs => PairInv e0 l t ∧
      ((l.getS (.txRec t) = some (.trec rec0) ∧ ∀ p ∈ zs, RespFor t p.1 → p.2.ok = false) ∨
       (∃ st', st'.isFinal = true ∧ l.getS (.txRec t) = some (.trec { rec0 with status := st' }))))
    (by
      intro idx l zs tx inv hg ⟨hp, hcase⟩
      let eb : Env := { cfg := cfg, cache := n.cache, height := n.height + 1, txIndex := idx }
      have pc : PairInv eb l t := PairInv.conv (e1 := e0) (e2 := eb) rfl rfl hp
      obtain ⟨hP', hch⟩ := applyTx_known_rec eb l tx inv t pc hg
      refine ⟨PairInv.conv (e1 := eb) (e2 := e0) rfl rfl hP', ?_⟩
      rcases hcase with ⟨hr, hall⟩ | ⟨st', hf, hr⟩
      · rcases hch with e | ⟨s, i, p, htx, hrsp, hfr, hto, hix, rec', st', g1, g2, g3⟩
        · left
          refine ⟨by rw [e]; exact hr, ?_⟩
          intro q hq hresp
          rcases List.mem_append.mp hq with h | h
          · exact hall q h hresp
          · simp at h; subst h
            simp only at hresp ⊢
            obtain ⟨s, i, pk, htx, hrsp, hfr, hto, hix⟩ := hresp
            cases hok : (applyTx eb l tx inv).2.rcpt.ok with
            | false => rfl
            | true =>
              exfalso
              subst htx
              obtain ⟨st', hf, h3⟩ := applyTx_valid_response_finalises eb l s i pk inv t rec0 hok hrsp hfr hto hix hr
              rw [e, hr] at h3
              have : rec0.status = st' := congrArg Rec.status (Val.trec.inj (Option.some.inj h3))
              rw [this] at hopen; rw [hopen] at hf; cases hf
        · right
          rw [hr] at g1; cases g1
          exact ⟨st', receipt_step_final _ _ _ hrsp g2, g3⟩
      · right
        rcases hch with e | ⟨s, i, p, htx, hrsp, hfr, hto, hix, rec', st'', g1, g2, g3⟩
        · exact ⟨st', hf, by rw [e]; exact hr⟩
        · exfalso
          rw [hr] at g1; cases g1
          rw [C04_final_absorbing_step _ _ hf] at g2
          cases g2)
    n.led ⟨hP, Or.inl ⟨hr0, by intro p hp; cases hp⟩⟩ txs hnd
  obtain ⟨_, hcase⟩ := hΦ
  rcases hcase with ⟨_, hall⟩ | ⟨st', hf, hr⟩
  · exact hall
  · exfalso
    rw [hsame] at hr
    have : rec0.status = st' := congrArg Rec.status (Val.trec.inj (Option.some.inj hr))
    rw [this] at hopen; rw [hopen] at hf; cases hf

theorem mem_remsAt {d : Nat} {acts : List TOAct} {t : TxId} (h : t ∈ remsAt d acts) : TOAct.remove d t ∈ acts := by
  unfold remsAt at h
  obtain ⟨a, ha, e⟩ := List.mem_filterMap.mp h
  split at e
  · split at e
    · rename_i hd; cases e; subst hd; exact ha
    · cases e
  · cases e

/-- with an open record and no accepted receipt among the block's pairs, the bookkeeping takes `t` off no list -/
theorem no_remove_of_unanswered (cfg : Cfg) (l : Led) (h : Nat) (t : TxId) (rec0 : Rec) (zs : List (Tx × Rcpt))
    (hrec : l.getS (.txRec t) = some (.trec rec0)) (hopen : rec0.status.isFinal = false)
    (hall : ∀ p ∈ zs, RespFor t p.1 → p.2.ok = false) (d : Nat) :
    t ∉ remsAt d (zs.map (fun p => timeoutAct cfg l h p.1 p.2)) := by
  intro hm
  obtain ⟨pr, hpr, hact⟩ := List.mem_map.mp (mem_remsAt hm)
  obtain ⟨s, i, p, htx, hfr, hto, hix, hc⟩ := timeoutAct_remove hact
  rcases hc with ⟨_, hfi⟩ | ⟨hresp, r, hr, _, hnot⟩
  · rw [finalInterRecord_none_of_open l t rec0 hrec hopen] at hfi; cases hfi
  · rw [hrec] at hr
    have hrr : rec0 = r := Val.trec.inj (Option.some.inj hr)
    subst hrr
    have := hall pr hpr ⟨s, i, p, htx, hresp, hfr, hto, hix⟩
    apply hnot
    exact ⟨by simp [this], hopen⟩

/-- the list a block's bookkeeping leaves under `d`: an id it does not take off is on it as often as before plus the block's
additions, provided it was there or is added (so that the value is a list at all) -/
theorem setTimeoutList_count_eq (cfg : Cfg) (l : Led) (h : Nat) (txs : List Tx) (rcpts : List Rcpt) (d : Nat) (t : TxId)
    (hna : ((txs.zip rcpts).map (fun p => timeoutAct cfg l h p.1 p.2)).contains .abort = false)
    (hR : t ∉ remsAt d ((txs.zip rcpts).map (fun p => timeoutAct cfg l h p.1 p.2)))
    (hpos : 0 < listCount l d t + (addsAt d ((txs.zip rcpts).map (fun p => timeoutAct cfg l h p.1 p.2))).count t) :
    listCount (setTimeoutList cfg l h txs rcpts) d t =
      listCount l d t + (addsAt d ((txs.zip rcpts).map (fun p => timeoutAct cfg l h p.1 p.2))).count t := by
  unfold listCount
  rw [setTimeoutList_at cfg l h txs rcpts d hna]
  generalize (addsAt d ((txs.zip rcpts).map (fun p => timeoutAct cfg l h p.1 p.2))) = A at hpos ⊢
  generalize (remsAt d ((txs.zip rcpts).map (fun p => timeoutAct cfg l h p.1 p.2))) = R at hR ⊢
  have hlist : ∃ lst, listAfter (l.getS (.timeout d)) A R = some (.tlist lst) := by
    unfold listAfter
    simp only
    by_cases hRe : R = []
    · rw [if_pos hRe]
      by_cases hA : A = []
      · rw [if_pos hA]
        rw [hA] at hpos
        simp at hpos
        unfold listCount at hpos
        split at hpos
        · rename_i lst e; exact ⟨lst, e⟩
        · omega
      · rw [if_neg hA]; exact ⟨_, rfl⟩
    · rw [if_neg hRe]; exact ⟨_, rfl⟩
  obtain ⟨lst, e⟩ := hlist
  rw [e]
  simp only
  have := listAfter_count_eq _ _ _ lst t hR e
  rw [curList_count] at this
  unfold listCount at this
  exact this

/-- the count of `t` on the list of `d` after a block that leaves the open record of `t` as it was: what it was before -/
theorem block_unanswered_count (cfg : Cfg) (n : Node) (txs : List (Tx × Bool)) (t : TxId) (rec0 : Rec)
    (hO : OpenInv { cfg := cfg, cache := n.cache, height := 0, txIndex := 0 } n.led n.height t rec0)
    (hopen : rec0.status.isFinal = false)
    (hnd : ∀ p ∈ txs, ∀ sg args, p.1 ≠ .bvm sg "interchain" "DeleteInterchain" args)
    (hna : NoAbort cfg n txs)
    (hsame : (applyTxs cfg n.cache (n.height + 1) n.led txs).led.getS (.txRec t) = some (.trec rec0))
    (d : Nat) (hpos : 0 < listCount n.led d t) :
    listCount (setTimeoutList cfg (applyTxs cfg n.cache (n.height + 1) n.led txs).led (n.height + 1) (txs.map (·.1))
      (applyTxs cfg n.cache (n.height + 1) n.led txs).rcpts) d t = listCount n.led d t := by
  let e0 : Env := { cfg := cfg, cache := n.cache, height := 0, txIndex := 0 }
  have conv : ∀ {l' : Led} (idx : Nat), PairInv e0 l' t → PairInv { cfg := cfg, cache := n.cache, height := n.height + 1, txIndex := idx } l' t :=
    fun idx h => PairInv.conv (e1 := e0) (e2 := { cfg := cfg, cache := n.cache, height := n.height + 1, txIndex := idx }) rfl rfl h
  have conv' : ∀ {l' : Led} (idx : Nat), PairInv { cfg := cfg, cache := n.cache, height := n.height + 1, txIndex := idx } l' t → PairInv e0 l' t :=
    fun idx h => PairInv.conv (e1 := { cfg := cfg, cache := n.cache, height := n.height + 1, txIndex := idx }) (e2 := e0) rfl rfl h
  have loopQ := applyTxs_zip_inv cfg n.cache (n.height + 1)
    (fun tx => ∀ sg args, tx ≠ .bvm sg "interchain" "DeleteInterchain" args)
    (fun l => PairInv e0 l t)
    (fun tx rc => ∀ s i p, tx = .ibtp s i p → i.frm = some t.frm → i.to = some t.to → i.index = t.index → i.typ.isRequest = true → rc.ok = false)
    (fun idx l tx inv hg hp => conv' idx (applyTx_known_rec _ l tx inv t (conv idx hp) hg).1)
    (fun idx l tx inv _ hp s i p htx hfr hto hix hreq => C04_known_request_refused _ l tx inv t (conv idx hp) s i p htx hfr hto hix hreq)
    n.led hO.pair txs hnd
  obtain ⟨hPend, hQ⟩ := loopQ
  have hall := block_unanswered_no_valid_response cfg n txs t rec0 hO.pair hO.recd hopen hnd hsame
  have hcntA : listCount (applyTxs cfg n.cache (n.height + 1) n.led txs).led d t = listCount n.led d t :=
    applyTxs_count_eq cfg n.cache (n.height + 1) n.led txs d t
  unfold NoAbort at hna
  generalize hAA : applyTxs cfg n.cache (n.height + 1) n.led txs = A at hsame hPend hQ hcntA hall hna ⊢
  have hnoadd : (addsAt d (((txs.map (·.1)).zip A.rcpts).map (fun p => timeoutAct cfg A.led (n.height + 1) p.1 p.2))).count t = 0 := by
    rw [List.count_eq_zero]
    intro h1
    have hm := mem_addsAt h1
    obtain ⟨pr', hpr', hact⟩ := List.mem_map.mp hm
    obtain ⟨s', i', p', htx', hfr', hto', hix', hreq', hok'⟩ := timeoutAct_add hact
    have := hQ pr' hpr' s' i' p' htx' hfr' hto' hix' hreq'
    rw [this] at hok'
    cases hok'
  have hnorem := no_remove_of_unanswered cfg A.led (n.height + 1) t rec0 _ hsame hopen hall d
  have := setTimeoutList_count_eq cfg A.led (n.height + 1) (txs.map (·.1)) A.rcpts d t hna hnorem (by rw [hcntA]; omega)
  rw [this, hnoadd, hcntA]
  rfl

theorem curList_wf (v : Option Val) (h : WFV v) : WFL (curList v) := by
  unfold curList
  split
  · exact h _ rfl
  · exact Or.inl rfl

theorem listAfter_wf (v : Option Val) (A R : List TxId) (h : WFV v) : WFV (listAfter v A R) := by
  have hc := curList_wf v h
  -- after the additions
  have h1 : WFV (if A = [] then v
      else some (.tlist (if curList v == [none] then A.map (fun t => some (TId.single t)) else curList v ++ A.map (fun t => some (TId.single t))))) := by
    by_cases hA : A = []
    · rw [if_pos hA]; exact h
    · rw [if_neg hA]
      intro lst e
      cases e
      right
      by_cases hn : (curList v == [none]) = true
      · rw [if_pos hn]
        intro x hx
        obtain ⟨a, _, rfl⟩ := List.mem_map.mp hx
        simp
      · rw [if_neg hn]
        intro x hx
        rcases List.mem_append.mp hx with hx | hx
        · rcases hc with hc | hc
          · rw [hc] at hn; simp at hn
          · exact hc x hx
        · obtain ⟨a, _, rfl⟩ := List.mem_map.mp hx
          simp
  unfold listAfter
  simp only
  by_cases hR : R = []
  · rw [if_pos hR]; exact h1
  · rw [if_neg hR]
    intro lst e
    cases e
    have hs := foldl_goRemove_sublist R (curList (if A = [] then v
      else some (.tlist (if curList v == [none] then A.map (fun t => some (TId.single t)) else curList v ++ A.map (fun t => some (TId.single t))))))
    have hc1 := curList_wf _ h1
    generalize (curList (if A = [] then v
      else some (.tlist (if curList v == [none] then A.map (fun t => some (TId.single t)) else curList v ++ A.map (fun t => some (TId.single t)))))) = start at hs hc1
    generalize (R.foldl (fun acc id => (goRemove acc (.single id)).getD acc) start) = res at hs
    rcases hc1 with hc1 | hc1
    · subst hc1
      unfold normList
      split
      · exact Or.inl rfl
      · rename_i hne
        left
        cases res with
        | nil => simp at hne
        | cons a rest =>
          have := hs.length_le
          simp at this
          subst this
          have := hs.subset (List.mem_cons_self)
          simp at this
          rw [this]
    · exact normList_wf _ (fun x hx => hc1 x (hs.subset hx))

/-- a block whose bookkeeping is not abandoned keeps every timeout list well-formed -/
theorem execBlock_wf (cfg : Cfg) (n : Node) (txs : List (Tx × Bool)) (hna : NoAbort cfg n txs)
    (h : ∀ d, WFV (n.led.getS (.timeout d))) : ∀ d, WFV ((execBlock cfg n txs).1.led.getS (.timeout d)) := by
  intro d
  have hA := applyTxs_wf cfg n.cache (n.height + 1) n.led txs h
  unfold NoAbort at hna
  have hend : (execBlock cfg n txs).1.led.getS (.timeout d) =
      (setTimeoutRollback (setTimeoutList cfg (applyTxs cfg n.cache (n.height + 1) n.led txs).led (n.height + 1) (txs.map (·.1))
        (applyTxs cfg n.cache (n.height + 1) n.led txs).rcpts) (n.height + 1)).getS (.timeout d) := by
    unfold execBlock
    simp only
    exact getS_of_store (finalise_store _) _
  rw [hend, setTimeoutRollback_frame _ _ _ (by intro x e; cases e) (by intro x e; cases e),
    setTimeoutList_at _ _ _ _ _ d hna]
  exact listAfter_wf _ _ _ (hA d)

theorem mem_getTimeoutList_of_count {l : Led} {d : Nat} {t : TxId} (hwf : WFV (l.getS (.timeout d)))
    (hc : 0 < listCount l d t) : TId.single t ∈ getTimeoutList l d := by
  unfold listCount at hc
  unfold getTimeoutList
  split at hc
  · rename_i lst e
    rw [e]
    simp only
    have hm : some (TId.single t) ∈ lst := List.count_pos_iff.mp hc
    rcases hwf lst e with h | h
    · subst h; simp at hm
    · have : ¬ (lst.head? == some none) = true := by
        intro hh
        cases lst with
        | nil => simp at hm
        | cons a rest =>
          simp at hh
          exact h a List.mem_cons_self hh
      rw [if_neg this]
      exact List.mem_filterMap.mpr ⟨_, hm, rfl⟩
  · omega

/-- **due**: an open one-to-one transaction (not final) whose deadline is still to come and which is on the list of that deadline,
exactly once; every timeout list is well-formed -/
structure Due (cfg : Cfg) (n : Node) (t : TxId) (rec0 : Rec) : Prop where
  opn : OpenInv { cfg := cfg, cache := n.cache, height := 0, txIndex := 0 } n.led n.height t rec0
  begun : rec0.status.isFinal = false
  ahead : n.height < rec0.height
  listed : listCount n.led rec0.height t = 1
  wf : ∀ d, WFV (n.led.getS (.timeout d))

/-- **an unanswered request stays listed under its deadline**: a block before the deadline block that accepts no receipt for `t`
(its record after the block's transactions is what it was) leaves `t` due -/
theorem C06_block_keeps_due (cfg : Cfg) (n : Node) (txs : List (Tx × Bool)) (t : TxId) (rec0 : Rec)
    (hD : Due cfg n t rec0)
    (hnd : ∀ p ∈ txs, ∀ sg args, p.1 ≠ .bvm sg "interchain" "DeleteInterchain" args)
    (hna : NoAbort cfg n txs)
    (hsame : (applyTxs cfg n.cache (n.height + 1) n.led txs).led.getS (.txRec t) = some (.trec rec0))
    (hlt : n.height + 1 < rec0.height) :
    Due cfg (execBlock cfg n txs).1 t rec0 := by
  have hopen : rec0.status.isFinal = false := hD.begun
  obtain ⟨rec', hO', hc⟩ := C04_block_open_stays cfg n txs t rec0 hD.opn hnd hsame
  have hrr : rec' = rec0 := by
    rcases hc with h | ⟨h, _⟩
    · exact h
    · omega
  subst hrr
  refine ⟨hO', hD.begun, by rw [execBlock_height]; exact hlt, ?_, execBlock_wf cfg n txs hna hD.wf⟩
  have hcnt := block_unanswered_count cfg n txs t rec' hD.opn hopen hnd hna hsame rec'.height (by rw [hD.listed]; omega)
  have hend : (execBlock cfg n txs).1.led.getS (.timeout rec'.height) =
      (setTimeoutRollback (setTimeoutList cfg (applyTxs cfg n.cache (n.height + 1) n.led txs).led (n.height + 1) (txs.map (·.1))
        (applyTxs cfg n.cache (n.height + 1) n.led txs).rcpts) (n.height + 1)).getS (.timeout rec'.height) := by
    unfold execBlock
    simp only
    exact getS_of_store (finalise_store _) _
  rw [listCount_congr hend, listCount_congr (setTimeoutRollback_frame _ _ _ (by intro x e; cases e) (by intro x e; cases e)), hcnt]
  exact hD.listed

/-- **… and times out in the block of its deadline**: if the deadline block accepts no receipt for `t` either, its timeout step finds
`t` on the list and moves it to BEGIN_ROLLBACK (`hg`: the groups on that list have their records, so the step is not abandoned) -/
theorem C06_block_fires_due (cfg : Cfg) (n : Node) (txs : List (Tx × Bool)) (t : TxId) (rec0 : Rec)
    (hD : Due cfg n t rec0)
    (hnd : ∀ p ∈ txs, ∀ sg args, p.1 ≠ .bvm sg "interchain" "DeleteInterchain" args)
    (hna : NoAbort cfg n txs)
    (hsame : (applyTxs cfg n.cache (n.height + 1) n.led txs).led.getS (.txRec t) = some (.trec rec0))
    (hdl : n.height + 1 = rec0.height)
    (hg : GlobalsPresent (setTimeoutList cfg (applyTxs cfg n.cache (n.height + 1) n.led txs).led (n.height + 1) (txs.map (·.1))
        (applyTxs cfg n.cache (n.height + 1) n.led txs).rcpts)
      (getTimeoutList (setTimeoutList cfg (applyTxs cfg n.cache (n.height + 1) n.led txs).led (n.height + 1) (txs.map (·.1))
        (applyTxs cfg n.cache (n.height + 1) n.led txs).rcpts) (n.height + 1))) :
    tmGetStatus (execBlock cfg n txs).1.led t = some .beginRollback := by
  have hopen : rec0.status.isFinal = false := hD.begun
  have hcnt := block_unanswered_count cfg n txs t rec0 hD.opn hopen hnd hna hsame rec0.height (by rw [hD.listed]; omega)
  rw [hD.listed, ← hdl] at hcnt
  have hwfA := applyTxs_wf cfg n.cache (n.height + 1) n.led txs hD.wf
  have hna' := hna
  unfold NoAbort at hna'
  have hwfS : WFV ((setTimeoutList cfg (applyTxs cfg n.cache (n.height + 1) n.led txs).led (n.height + 1) (txs.map (·.1))
        (applyTxs cfg n.cache (n.height + 1) n.led txs).rcpts).getS (.timeout (n.height + 1))) := by
    rw [setTimeoutList_at _ _ _ _ _ _ hna']
    exact listAfter_wf _ _ _ (hwfA _)
  have hmem := mem_getTimeoutList_of_count hwfS (by rw [hcnt]; omega)
  have hfire := C06_fires_at_deadline _ (n.height + 1) t hmem hg
  have hend : ∀ k, (execBlock cfg n txs).1.led.getS k =
      (setTimeoutRollback (setTimeoutList cfg (applyTxs cfg n.cache (n.height + 1) n.led txs).led (n.height + 1) (txs.map (·.1))
        (applyTxs cfg n.cache (n.height + 1) n.led txs).rcpts) (n.height + 1)).getS k := by
    intro k
    unfold execBlock
    simp only
    exact getS_of_store (finalise_store _) _
  unfold tmGetStatus at hfire ⊢
  simp only [hend]
  exact hfire

/-- **an accepted request with a deadline is due from the block that accepts it**: `t` is new when block `h = n.height + 1` starts; the
block carries a request for `t` with `0 < T < maxU64 - h` whose receipt is a success (not a batch answer, not the begin-failure
mark) and no receipt transaction for `t`.  After the block `t` has an open record with deadline `h + T` and is on the list of `h + T`
exactly once -/
theorem C06_block_opens_due (cfg : Cfg) (n : Node) (txs : List (Tx × Bool)) (t : TxId)
    (hN : NewInv { cfg := cfg, cache := n.cache, height := 0, txIndex := 0 } n.led t)
    (hul : ∀ d, n.height < d → listCount n.led d t = 0)
    (hwf : ∀ d, WFV (n.led.getS (.timeout d)))
    (hdst : (t.to.chain == cfg.bxh) = false)
    (hnd : ∀ p ∈ txs, ∀ sg args, p.1 ≠ .bvm sg "interchain" "DeleteInterchain" args)
    (hng : ∀ p ∈ txs, ∀ s i pk, p.1 = .ibtp s i pk → reqFor t p.1 = true → i.group = none)
    (hna : NoAbort cfg n txs)
    (hnoresp : ∀ p ∈ txs, ¬ RespFor t p.1)
    (s : String) (i : Ibtp) (pk : ProofKind) (rc : Rcpt)
    (hacc : (Tx.ibtp s i pk, rc) ∈ (txs.map (·.1)).zip (applyTxs cfg n.cache (n.height + 1) n.led txs).rcpts)
    (hrf : reqFor t (.ibtp s i pk) = true) (hok : rc.ok = true) (hnb : (rc.ret == "batch_ibtp") = false)
    (hts : (rc.txStatus == 1) = false) (hT : 0 < i.timeout) (hT2 : i.timeout.toNat < maxU64 - (n.height + 1)) :
    ∃ rec, rec.height = n.height + 1 + i.timeout.toNat ∧ Due cfg (execBlock cfg n txs).1 t rec := by
  have hΦ := applyTxs_zip_fold cfg n.cache (n.height + 1)
    (fun tx => (∀ sg args, tx ≠ .bvm sg "interchain" "DeleteInterchain" args) ∧ (∀ s i p, tx = .ibtp s i p → reqFor t tx = true → i.group = none))
    (FreshPhase cfg n t)
    (fun idx l zs tx inv hg h => freshPhase_step cfg n t idx l zs tx inv hg.1 hg.2 h)
    n.led (Or.inl ⟨hN, rfl⟩) txs (fun p hp => ⟨hnd p hp, hng p hp⟩)
  have hcA : ∀ d, n.height < d → listCount (applyTxs cfg n.cache (n.height + 1) n.led txs).led d t = 0 := by
    intro d hd
    rw [applyTxs_count_eq cfg n.cache (n.height + 1) n.led txs d t]; exact hul d hd
  have hwfA := applyTxs_wf cfg n.cache (n.height + 1) n.led txs hwf
  have hwfE := execBlock_wf cfg n txs hna hwf
  have hnoresp' : ∀ p ∈ (txs.map (·.1)).zip (applyTxs cfg n.cache (n.height + 1) n.led txs).rcpts, ¬ RespFor t p.1 := by
    intro p hp
    have := (List.of_mem_zip hp).1
    obtain ⟨q, hq, e⟩ := List.mem_map.mp this
    rw [← e]; exact hnoresp q hq
  unfold NoAbort at hna
  have hend : ∀ k, (execBlock cfg n txs).1.led.getS k =
      (setTimeoutRollback (setTimeoutList cfg (applyTxs cfg n.cache (n.height + 1) n.led txs).led (n.height + 1) (txs.map (·.1))
        (applyTxs cfg n.cache (n.height + 1) n.led txs).rcpts) (n.height + 1)).getS k := by
    intro k
    unfold execBlock
    simp only
    exact getS_of_store (finalise_store _) k
  generalize hAA : applyTxs cfg n.cache (n.height + 1) n.led txs = A at hΦ hcA hna hacc hwfA hnoresp' hend
  generalize hzs : (txs.map (·.1)).zip A.rcpts = zs at hΦ hna hacc hnoresp'
  have hcnt2 : ∀ d, n.height < d → listCount (setTimeoutList cfg A.led (n.height + 1) (txs.map (·.1)) A.rcpts) d t ≤
      (addsAt d (zs.map (fun p => timeoutAct cfg A.led (n.height + 1) p.1 p.2))).count t := by
    intro d hd
    have := setTimeoutList_count_le cfg A.led (n.height + 1) (txs.map (·.1)) A.rcpts d t
    rw [hcA d hd, hzs] at this
    omega
  have hcntE : ∀ d, listCount (execBlock cfg n txs).1.led d t = listCount (setTimeoutList cfg A.led (n.height + 1) (txs.map (·.1)) A.rcpts) d t := by
    intro d
    rw [listCount_congr (hend _), listCount_congr (setTimeoutRollback_frame _ _ _ (by intro x e; cases e) (by intro x e; cases e))]
  have hsvcE : ∀ c sid, (execBlock cfg n txs).1.led.getS (.svc c sid) = A.led.getS (.svc c sid) := by
    intro c sid
    rw [hend, setTimeoutRollback_frame _ _ _ (by intro x e; cases e) (by intro x e; cases e),
      setTimeoutList_getS _ _ _ _ _ _ (by intro x e; cases e)]
  have hctrE : reqCounter (execBlock cfg n txs).1.led t.frm t.to = reqCounter A.led t.frm t.to := by
    have := C02_timeout_steps_keep_counters cfg A.led (n.height + 1) (txs.map (·.1)) A.rcpts t.frm t.to
    rw [reqCounter_congr (fun x => hend _) t.frm t.to, this]
  have hadd : ∀ (rec : Rec), Acc (n.height + 1) t zs rec → ∀ d,
      0 < (addsAt d (zs.map (fun p => timeoutAct cfg A.led (n.height + 1) p.1 p.2))).count t → d = rec.height ∧ n.height + 1 < d := by
    intro rec hA d hpos
    have hm := mem_addsAt (List.count_pos_iff.mp hpos)
    obtain ⟨pr, hpr, hact⟩ := List.mem_map.mp hm
    obtain ⟨s, i, p, htx, hfr, hto, hix, hreq, hok⟩ := timeoutAct_add hact
    obtain ⟨s', i', p', htx', h1, h2, h3⟩ := timeoutAct_add_deadline hact
    rw [htx] at htx'
    cases htx'
    have hro : reqOk t pr = true := by unfold reqOk; rw [htx, reqFor_of hreq hfr hto hix, hok]; rfl
    have := hA.2 pr hpr hro s i p htx
    rw [recordHeight_of_add _ _ h1 h2] at this
    have hpos' : 0 < i.timeout.toNat := by omega
    exact ⟨by omega, by omega⟩
  have hroacc : reqOk t (Tx.ibtp s i pk, rc) = true := by unfold reqOk; rw [hrf, hok]; rfl
  rcases hΦ with ⟨hNA, hc⟩ | ⟨rec, hP, hr, hnf, hA⟩ | ⟨rec, st, hP, hr, hf, hA, q, hq, hR⟩
  · exfalso
    exact List.countP_eq_zero.mp hc _ hacc hroacc
  · -- open
    have hle1 : ∀ d, n.height < d → listCount (setTimeoutList cfg A.led (n.height + 1) (txs.map (·.1)) A.rcpts) d t ≤ 1 := by
      intro d hd
      have h1 := hcnt2 d hd
      have h2 := count_adds_le_countP cfg A.led (n.height + 1) d t zs
      have := hA.1
      omega
    have honly : ∀ d, n.height < d → listedAt (setTimeoutList cfg A.led (n.height + 1) (txs.map (·.1)) A.rcpts) d t → d = rec.height ∧ n.height + 1 < d := by
      intro d hd hl
      have h1 := hcnt2 d hd
      have := listedAt_iff_count.mp hl
      exact hadd rec hA d (by omega)
    have hrh : rec.height = n.height + 1 + i.timeout.toNat := by
      rw [hA.2 _ hacc hroacc s i pk rfl, recordHeight_of_add _ _ hT hT2]
    obtain ⟨_, hreq, hfr, hto, hix⟩ : True ∧ i.typ.isRequest = true ∧ i.frm = some t.frm ∧ i.to = some t.to ∧ i.index = t.index := by
      obtain ⟨s', i', p', htx, hreq, hfr, hto, hix⟩ := reqFor_elim hrf
      cases htx
      exact ⟨trivial, hreq, hfr, hto, hix⟩
    have hgi : i.group = none := by
      have hm := (List.of_mem_zip (by rw [hzs]; exact hacc)).1
      obtain ⟨q, hq, e⟩ := List.mem_map.mp hm
      exact hng q hq s i pk e (by rw [e]; exact hrf)
    have hact := timeoutAct_request_add cfg A.led (n.height + 1) s i pk rc t hreq hfr hto hix hdst hgi
      (finalInterRecord_none_of_open A.led t rec hr hnf) hok hnb hts hT hT2
    have hinA : 0 < (addsAt rec.height (zs.map (fun p => timeoutAct cfg A.led (n.height + 1) p.1 p.2))).count t := by
      apply List.count_pos_iff.mpr
      unfold addsAt
      refine List.mem_filterMap.mpr ⟨_, List.mem_map.mpr ⟨_, hacc, hact⟩, ?_⟩
      simp [hrh]
    have hnorem := no_remove_of_unanswered cfg A.led (n.height + 1) t rec zs hr hnf
      (fun p hp hresp => absurd hresp (hnoresp' p hp)) rec.height
    have hceq := setTimeoutList_count_eq cfg A.led (n.height + 1) (txs.map (·.1)) A.rcpts rec.height t
      (by rw [hzs]; exact hna) (by rw [hzs]; exact hnorem) (by rw [hzs]; omega)
    rw [hzs, hcA rec.height (by omega)] at hceq
    have h2 := count_adds_le_countP cfg A.led (n.height + 1) rec.height t zs
    have h3 := hA.1
    refine ⟨rec, hrh, ⟨⟨hP.ordered.mono hsvcE, by rw [hctrE]; exact hP.bound, hP.loc⟩, ?_, ?_, ?_⟩, hnf, ?_, ?_, hwfE⟩
    · rw [hend, Bxh.Props.C06.C06_not_listed_untouched _ _ t (fun hm => by
        have := (honly _ (Nat.lt_succ_self _) (listedAt_of_mem_getTimeoutList hm)).2
        omega),
        setTimeoutList_getS _ _ _ _ _ _ (by intro x e; cases e)]
      exact hr
    · intro d hd
      rw [execBlock_height] at hd
      rw [hcntE]; exact hle1 d (by omega)
    · intro d hd hl
      rw [execBlock_height] at hd
      rw [listedAt_iff_count, hcntE, ← listedAt_iff_count] at hl
      exact (honly d (by omega) hl).1
    · rw [execBlock_height]; omega
    · rw [hcntE, hceq]; omega
  · exfalso
    obtain ⟨s', i', pk', hq1, hrsp, hfr, hto, hix, _⟩ := hR
    exact hnoresp' q hq ⟨s', i', pk', hq1, hrsp, hfr, hto, hix⟩

/-- a block that does not answer `t`: nobody calls the unguarded `DeleteInterchain`, the bookkeeping is not abandoned, and the record
of `t` after the block's transactions is what it was (no receipt for it was accepted) -/
structure Unanswered (cfg : Cfg) (n : Node) (txs : List (Tx × Bool)) (t : TxId) (rec0 : Rec) : Prop where
  nodelete : ∀ p ∈ txs, ∀ sg args, p.1 ≠ .bvm sg "interchain" "DeleteInterchain" args
  noabort : NoAbort cfg n txs
  same : (applyTxs cfg n.cache (n.height + 1) n.led txs).led.getS (.txRec t) = some (.trec rec0)

/-- **listed under H+T at every block boundary before the deadline**: over any history of blocks that ends before the deadline block
and answers `t` in none of them, `t` stays due — open, on the list of its deadline exactly once -/
theorem C06_history_keeps_due (cfg : Cfg) (blocks : List (List (Tx × Bool))) (n : Node) (t : TxId) (rec0 : Rec)
    (hD : Due cfg n t rec0) (hlen : n.height + blocks.length < rec0.height)
    (hB : ∀ j (hj : j < blocks.length), Unanswered cfg (runBlocks cfg n (blocks.take j)) blocks[j] t rec0) :
    Due cfg (runBlocks cfg n blocks) t rec0 := by
  induction blocks generalizing n with
  | nil => exact hD
  | cons b rest ih =>
    have h0 := hB 0 (by simp)
    simp only [List.take_zero, List.getElem_cons_zero] at h0
    have h0' : Unanswered cfg n b t rec0 := h0
    simp only [List.length_cons] at hlen
    have hstep := C06_block_keeps_due cfg n b t rec0 hD h0'.nodelete h0'.noabort h0'.same (by omega)
    have := ih (execBlock cfg n b).1 hstep (by rw [execBlock_height]; omega)
      (fun k hk => by
        have := hB (k + 1) (by simp; omega)
        simpa [runBlocks] using this)
    simpa [runBlocks] using this

/-- **an unanswered request times out in the block of its deadline, H+T**: `t` is due (accepted at height H with 0 < T: open, on the
list of H+T once); the blocks up to and including the block of height H+T answer it in none of them.  Then after the deadline block
its status is BEGIN_ROLLBACK — the timeout step of that block found it on its list (`hg`: the groups on that list have their records,
so the step is not abandoned) -/
theorem C06_unanswered_request_times_out (cfg : Cfg) (blocks : List (List (Tx × Bool))) (last : List (Tx × Bool)) (n : Node) (t : TxId)
    (rec0 : Rec) (hD : Due cfg n t rec0) (hlen : n.height + blocks.length + 1 = rec0.height)
    (hB : ∀ j (hj : j < blocks.length), Unanswered cfg (runBlocks cfg n (blocks.take j)) blocks[j] t rec0)
    (hL : Unanswered cfg (runBlocks cfg n blocks) last t rec0)
    (hg : let m := runBlocks cfg n blocks
      let l2 := setTimeoutList cfg (applyTxs cfg m.cache (m.height + 1) m.led last).led (m.height + 1) (last.map (·.1))
        (applyTxs cfg m.cache (m.height + 1) m.led last).rcpts
      GlobalsPresent l2 (getTimeoutList l2 (m.height + 1))) :
    tmGetStatus (runBlocks cfg n (blocks ++ [last])).led t = some .beginRollback := by
  have hD' := C06_history_keeps_due cfg blocks n t rec0 hD (by omega) hB
  have hh : (runBlocks cfg n blocks).height = n.height + blocks.length := by
    clear hD hD' hlen hB hL hg
    induction blocks generalizing n with
    | nil => rfl
    | cons b rest ih =>
      have := ih (execBlock cfg n b).1
      rw [execBlock_height] at this
      simp only [runBlocks, List.foldl_cons, List.length_cons] at this ⊢
      omega
  rw [runBlocks_append]
  show tmGetStatus (execBlock cfg (runBlocks cfg n blocks) last).1.led t = some .beginRollback
  exact C06_block_fires_due cfg _ last t rec0 hD' hL.nodelete hL.noabort hL.same (by rw [hh]; omega) hg


/-- **from the block that accepts it to the block of H+T**: `t` is new when block H = `n.height + 1` starts; that block accepts a
request for `t` with `0 < T < maxU64 - H` (receipt a success, neither a batch answer nor the begin-failure mark) and carries no receipt
for it; the `T - 1` blocks after it and the block of height H+T (`last`) accept no receipt for `t`.  Then the record of `t` names the
deadline H+T, and after the block of height H+T its status is BEGIN_ROLLBACK: it timed out in exactly that block (before it the
status is the one the request left: `C06_history_keeps_due`) -/
theorem C06_request_unanswered_until_H_plus_T_times_out (cfg : Cfg) (n : Node) (first : List (Tx × Bool)) (t : TxId)
    (hN : NewInv { cfg := cfg, cache := n.cache, height := 0, txIndex := 0 } n.led t)
    (hul : ∀ d, n.height < d → listCount n.led d t = 0)
    (hwf : ∀ d, WFV (n.led.getS (.timeout d)))
    (hdst : (t.to.chain == cfg.bxh) = false)
    (hnd : ∀ p ∈ first, ∀ sg args, p.1 ≠ .bvm sg "interchain" "DeleteInterchain" args)
    (hng : ∀ p ∈ first, ∀ s i pk, p.1 = .ibtp s i pk → reqFor t p.1 = true → i.group = none)
    (hna : NoAbort cfg n first)
    (hnoresp : ∀ p ∈ first, ¬ RespFor t p.1)
    (s : String) (i : Ibtp) (pk : ProofKind) (rc : Rcpt)
    (hacc : (Tx.ibtp s i pk, rc) ∈ (first.map (·.1)).zip (applyTxs cfg n.cache (n.height + 1) n.led first).rcpts)
    (hrf : reqFor t (.ibtp s i pk) = true) (hok : rc.ok = true) (hnb : (rc.ret == "batch_ibtp") = false)
    (hts : (rc.txStatus == 1) = false) (hT : 0 < i.timeout) (hT2 : i.timeout.toNat < maxU64 - (n.height + 1))
    (rec0 : Rec) (hrec0 : (execBlock cfg n first).1.led.getS (.txRec t) = some (.trec rec0))
    (blocks : List (List (Tx × Bool))) (last : List (Tx × Bool)) (hlen : blocks.length + 1 = i.timeout.toNat)
    (hB : ∀ j (hj : j < blocks.length), Unanswered cfg (runBlocks cfg (execBlock cfg n first).1 (blocks.take j)) blocks[j] t rec0)
    (hL : Unanswered cfg (runBlocks cfg (execBlock cfg n first).1 blocks) last t rec0)
    (hg : let m := runBlocks cfg (execBlock cfg n first).1 blocks
      let l2 := setTimeoutList cfg (applyTxs cfg m.cache (m.height + 1) m.led last).led (m.height + 1) (last.map (·.1))
        (applyTxs cfg m.cache (m.height + 1) m.led last).rcpts
      GlobalsPresent l2 (getTimeoutList l2 (m.height + 1))) :
    rec0.height = n.height + 1 + i.timeout.toNat ∧
    tmGetStatus (runBlocks cfg n (first :: (blocks ++ [last]))).led t = some .beginRollback := by
  obtain ⟨rec, hrh, hD⟩ := C06_block_opens_due cfg n first t hN hul hwf hdst hnd hng hna hnoresp s i pk rc hacc hrf hok hnb hts hT hT2
  have hrr : rec = rec0 := by
    have := hD.opn.recd
    rw [hrec0] at this
    exact (Val.trec.inj (Option.some.inj this)).symm
  subst hrr
  refine ⟨hrh, ?_⟩
  have := C06_unanswered_request_times_out cfg blocks last (execBlock cfg n first).1 t rec hD
    (by rw [execBlock_height]; omega) hB hL hg
  simpa [runBlocks] using this

/-- non-vacuity of `Due`: request 1 of the pair c1:s1 → c2:s1, accepted at height 7 with T = 4 (BEGIN, deadline 11, on the list of 11
once), is due at height 8 -/
example :
    let svc : Svc := { ordered := true, blacklist := [], available := true }
    let s11 : SvcId := { bxh := "1356", chain := "c1", sid := "s1" }
    let s21 : SvcId := { bxh := "1356", chain := "c2", sid := "s1" }
    let t : TxId := { frm := s11, to := s21, index := 1 }
    let n : Node := { height := 8, led := { store := [(.svc "c1" "s1", .svc svc), (.svc "c2" "s1", .svc svc),
      (.txRec t, .trec { height := 11, status := .begin }), (.ic s11, .ic { ic := [(s21, 1)] }), (.timeout 11, .tlist [some (.single t)])] } }
    Due {} n t { height := 11, status := .begin } := by
  intro svc s11 s21 t n
  have hnone : ∀ d, d ≠ 11 → n.led.getS (.timeout d) = none := by
    intro d hd
    simp [n, Led.getS, KV.get]
    intro e; exact hd e.symm
  refine ⟨⟨⟨Or.inr ⟨by decide, by decide, rfl, ?_⟩, by decide, rfl⟩, by decide, ?_, ?_⟩, rfl, by decide, by decide, ?_⟩
  · intro sv h
    have : n.led.getS (.svc s21.chain s21.sid) = some (.svc svc) := by decide
    rw [this] at h
    cases h; rfl
  · intro d _
    unfold listCount
    by_cases hd : d = 11
    · subst hd; decide
    · rw [hnone d hd]; exact Nat.zero_le _
  · rintro d _ ⟨lst, e, _⟩
    by_cases hd : d = 11
    · exact hd
    · exfalso; rw [hnone d hd] at e; cases e
  · intro d lst e
    by_cases hd : d = 11
    · subst hd
      have : n.led.getS (.timeout 11) = some (.tlist [some (.single t)]) := by decide
      rw [this] at e
      cases e
      right; intro x hx; simp at hx; rw [hx]; simp
    · rw [hnone d hd] at e; cases e

end Bxh.Props.C06
