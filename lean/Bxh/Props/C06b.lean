import Bxh.Props.C04
import Bxh.Proofs.ExecListedE
/-!
# C06 — over whole histories of blocks (uses the `Tracked` invariant of `Props/C04.lean`)

"A request whose receipt was accepted in a block up to and including H+T is never listed as timed out and its status is never
altered by the timeout mechanism; requests with T=0 never time out."  The block-level theorems of `Props/C06.lean` say what one
bookkeeping step and one timeout step do; here the statements are about every history of blocks that starts on a fresh chain.
-/
namespace Bxh.Props.C06
open Bxh Bxh.Exec Bxh.Props.C02 Bxh.Props.C04

/-- **an answered request never times out**: once the record of `t` is final at a block boundary (its receipt was accepted in some
block — in the deadline block at the latest, or it would be BEGIN_ROLLBACK), `t` is on the list of no later height when that
height's timeout step runs, in every continuation of the history, and its status is what it was -/
theorem C06_answered_request_never_times_out (cfg : Cfg) (blocks : List (List (Tx × Bool))) (n : Node) (t : TxId) (st : Status)
    (hF : FinalInvL { cfg := cfg, cache := n.cache, height := 0, txIndex := 0 } n.led n.height t st) (hf : st.isFinal = true)
    (hnd : ∀ b ∈ blocks, ∀ p ∈ b, ∀ sg args, p.1 ≠ .bvm sg "interchain" "DeleteInterchain" args) :
    recStatus (runBlocks cfg n blocks).led t = some st ∧
    ∀ d, (runBlocks cfg n blocks).height < d → TId.single t ∉ getTimeoutList (runBlocks cfg n blocks).led d := by
  obtain ⟨h1, h2⟩ := C04_block_history_final_stays_unlisted cfg blocks n t st hF hf hnd
  exact ⟨h1, fun d hd hm => h2 d hd (listedAt_of_mem_getTimeoutList hm)⟩

/-- **… from the first block on**: on a history that starts on a fresh chain, if the status of `t` is final after the first `k`
blocks then no later block's timeout step finds `t` on its list: the lists still to come after all blocks do not hold it -/
theorem C06_final_is_unlisted_forever (cfg : Cfg) (blocks : List (List (Tx × Bool))) (n : Node) (t : TxId)
    (hT : Tracked cfg n t) (hdst : (t.to.chain == cfg.bxh) = false)
    (hB : ∀ j (hj : j < blocks.length), BlockOk cfg (runBlocks cfg n (blocks.take j)) blocks[j] t)
    (st : Status) (hst : recStatus (runBlocks cfg n blocks).led t = some st) (hf : st.isFinal = true) :
    ∀ d, (runBlocks cfg n blocks).height < d → TId.single t ∉ getTimeoutList (runBlocks cfg n blocks).led d := by
  have hTe := C04_history_tracked cfg blocks n t hT hdst hB
  intro d hd hm
  cases hTe with
  | fresh hN _ => unfold recStatus at hst; rw [hN.norec] at hst; cases hst
  | opened rec0 hO hopen => unfold recStatus at hst; rw [hO.recd] at hst; cases hst; rw [hopen] at hf; cases hf
  | final st' hF _ => exact hF.unlisted d hd (listedAt_of_mem_getTimeoutList hm)

/-- **an open transaction is on the lists still to come at most once, and only under the deadline its record names**, at every
block boundary of every history that starts on a fresh chain — so it can be listed as timed out in one block only, the block of its
recorded deadline, and a transaction recorded without a deadline (T = 0: `maxU64`) is on no list a block will ever read -/
theorem C06_open_listed_only_under_its_deadline (cfg : Cfg) (blocks : List (List (Tx × Bool))) (n : Node) (t : TxId)
    (hT : Tracked cfg n t) (hdst : (t.to.chain == cfg.bxh) = false)
    (hB : ∀ j (hj : j < blocks.length), BlockOk cfg (runBlocks cfg n (blocks.take j)) blocks[j] t)
    (r : Rec) (hr : (runBlocks cfg n blocks).led.getS (.txRec t) = some (.trec r)) (d : Nat)
    (hd : (runBlocks cfg n blocks).height < d) (hm : TId.single t ∈ getTimeoutList (runBlocks cfg n blocks).led d) :
    d = r.height ∧ r.status.isFinal = false ∧ listCount (runBlocks cfg n blocks).led d t = 1 := by
  have hTe := C04_history_tracked cfg blocks n t hT hdst hB
  have hl := listedAt_of_mem_getTimeoutList hm
  cases hTe with
  | fresh hN hul =>
    exfalso
    have := listedAt_iff_count.mp hl
    rw [hul d hd] at this; omega
  | opened rec0 hO hopen =>
    rw [hO.recd] at hr
    cases hr
    have h1 := hO.cnt d hd
    have h2 := listedAt_iff_count.mp hl
    exact ⟨hO.only d hd hl, hopen, by omega⟩
  | final st' hF _ => exact absurd hl (hF.unlisted d hd)

/-- **the transactions of a block neither add a one-to-one id to a timeout list nor take one off**: after any block's transactions
every one-to-one id is on every list exactly as often as before (only the bookkeeping at the end of the block edits them), and the
lists stay well-formed -/
theorem C06_transactions_leave_the_lists_alone (cfg : Cfg) (n : Node) (txs : List (Tx × Bool)) (d : Nat) (t : TxId) :
    listCount (applyTxs cfg n.cache (n.height + 1) n.led txs).led d t = listCount n.led d t :=
  applyTxs_count_eq cfg n.cache (n.height + 1) n.led txs d t

end Bxh.Props.C06
