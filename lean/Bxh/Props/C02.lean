import Bxh.Props.C07
/-!
# C02 — IBTPs are accepted in index order, exactly once per ordered service pair
Theorems about `Bxh.Exec` (model of `InterchainManager.HandleIBTP`, `checkIBTP`, `ProcessIBTP` and
of `applyTransaction` around it).
-/
namespace Bxh.Props.C02
open Bxh Bxh.Exec

/-- the index gate accepts exactly the next index -/
theorem C02_index_check_exact (exp cur : Nat) : checkIndex exp cur = .ok () ↔ cur = exp :=
  checkIndex_ok_iff exp cur

/-- Full-strength clause: a rejected IBTP transaction (receipt FAILED) leaves counters, records and
delivery metadata unchanged: the contract store is untouched and no event is left behind. -/
def C02_rejected_no_effect : Prop :=
  ∀ (env : Env) (l : Led) (s : String) (i : Ibtp) (p : ProofKind) (inv : Option String),
    (applyTx env l (.ibtp s i p) inv).2.rcpt.ok = false →
    ¬ auditHole env (C07.start l) (.ibtp s i p) →
      (∀ k, (applyTx env l (.ibtp s i p) inv).1.getS k = l.getS k) ∧ (applyTx env l (.ibtp s i p) inv).2.events = []

/-- the fee step of `applyTransaction` never touches contract storage or events when the
transaction body left the ledger with an empty journal -/
theorem fee_step_frame (env : Env) (l : Led) (tx : Tx) (inv : Option String)
    (hst : (applyBxh env { l with journal := [], events := [] } tx inv).1 = { l with journal := [], events := [] }) :
    (applyTx env l tx inv).1.store = l.store ∧ (applyTx env l tx inv).2.events = [] := by
  unfold applyTx
  simp only [hst]
  split
  · rename_i l2 hf
    exact ⟨by simp [payGasFee_store _ _ _ _ _ hf], by simp [payGasFee_events _ _ _ _ _ hf]⟩
  · exact ⟨by simp [payLeft_store, revert_nil], by simp [payLeft_events, revert_nil]⟩

/-- rejected by the proof / signature check ⇒ FAILED receipt and no effect -/
theorem C02_rejected_by_check_no_effect
    (env : Env) (l : Led) (s : String) (i : Ibtp) (p : ProofKind) (r : String) :
    (applyTx env l (.ibtp s i p) (some r)).2.rcpt.ok = false ∧
    (applyTx env l (.ibtp s i p) (some r)).1.store = l.store ∧
    (applyTx env l (.ibtp s i p) (some r)).2.events = [] := by
  refine ⟨?_, fee_step_frame env l _ _ rfl⟩
  unfold applyTx
  simp only [applyBxh, mkRcpt]
  split <;> rfl

/-- rejected by the interchain contract (wrong / duplicate / future index, unknown receipt,
unavailable source, illegal type, transaction-manager refusal …) ⇒ FAILED receipt and no effect -/
theorem C02_rejected_by_contract_no_effect
    (env : Env) (l : Led) (s : String) (i : Ibtp) (p : ProofKind) (e : String)
    (he : handleIBTP env { l with journal := [], events := [] } i = .error e) (hne : e ≠ "2080000!") :
    (applyTx env l (.ibtp s i p) none).2.rcpt.ok = false ∧
    (applyTx env l (.ibtp s i p) none).1.store = l.store ∧
    (applyTx env l (.ibtp s i p) none).2.events = [] := by
  have hne' : (e == "2080000!") = false := by simpa using hne
  have hb : applyBxh env { l with journal := [], events := [] } (.ibtp s i p) none
      = ({ l with journal := [], events := [] }, .error e, gasBVM) := by
    simp only [applyBxh, he, hne']
    rfl
  refine ⟨?_, fee_step_frame env l _ _ (by rw [hb])⟩
  unfold applyTx
  simp only [hb, mkRcpt]
  split <;> rfl

/-- an accepted request on an index-checked (non-batch) pair carries exactly the next index -/
theorem C02_accept_needs_next_index (env : Env) (l : Led) (i : Ibtp) (ck : Checked)
    (h : checkIBTP env l i = .ok ck) (hreq : i.typ.isRequest = true) (hb : ck.isBatch = false) :
    i.index = KV.getD (getIC l ck.src).ic ck.dst 0 + 1 := by
  unfold checkIBTP at h
  split at h
  · cases h
  · rename_i src hsrc
    split at h
    · cases h
    · rename_i dst hdst
      simp only [hreq, if_true] at h
      split at h
      · split at h
        · cases h
        · rename_i sv hsv
          split at h
          · cases h
          · generalize hct : checkTarget env l src dst = ct at h
            obtain ⟨b, t⟩ := ct
            simp only at h
            split at h
            · split at h
              · cases h
              · rename_i hok
                cases h
                exact (checkIndex_ok_iff _ _).mp hok
            · cases h
              simp_all
      · split at h <;> cases h

end Bxh.Props.C02

namespace Bxh.Props.C02
open Bxh Bxh.Exec

/-! ### counter-example: an IBTP that was processed and then cannot pay its fee -/

def s11 : SvcId := { bxh := "1356", chain := "c1", sid := "s1" }
def s21 : SvcId := { bxh := "1356", chain := "c2", sid := "s1" }
def okSvc : Svc := { ordered := true, blacklist := [], available := true }

/-- two available ordered services, a sender without funds -/
def cexLed : Led :=
  { store := [(.svc "c1" "s1", .svc okSvc), (.svc "c2" "s1", .svc okSvc)], bal := [("poor", 0)] }

def cexEnv : Env := { cfg := {}, cache := [], height := 7, txIndex := 0 }

def cexReq : Ibtp := { frm := some s11, to := some s21, index := 1, typ := .interchain, timeout := 3, group := none }

/-- The receipt is FAILED ("fee"), the contract store is restored by the revert (the record and
the counters are gone) and nothing is announced.  Before the `fix:` commit "do not process the events of a
failed transaction" the interchain event survived the revert and the request was listed for `c2`
(corpus/exec/c02-fee-failed-listed.ops replays it on the real code). -/
theorem C02_fee_failed_not_listed :
    (applyTx cexEnv cexLed (.ibtp "poor" cexReq .ok) none).2.rcpt = { ok := false, ret := "fee" } ∧
    (applyTx cexEnv cexLed (.ibtp "poor" cexReq .ok) none).2.events = [] ∧
    (applyTx cexEnv cexLed (.ibtp "poor" cexReq .ok) none).1.getS (.txRec { frm := s11, to := s21, index := 1 }) = none ∧
    (applyTx cexEnv cexLed (.ibtp "poor" cexReq .ok) none).1.getS (.ic s11) = none := by
  decide

/-- the full-strength clause holds for every rejected IBTP transaction, whatever rejected it -/
theorem C02_rejected_no_effect_holds : C02_rejected_no_effect := by
  intro env l s i p inv hfail hh
  exact ⟨C07.C07_failed_tx_storage_unchanged env l _ inv hfail hh, C07.C07_failed_tx_not_listed env l _ inv hfail⟩

end Bxh.Props.C02
