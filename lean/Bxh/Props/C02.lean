import Bxh.Props.C07
import Bxh.Proofs.ExecFrame
import Bxh.Proofs.ExecBlock
import Bxh.Proofs.RouterLemmas
/-!
# C02 — IBTPs are accepted in index order, exactly once per ordered service pair
Theorems about `Bxh.Exec` (model of `InterchainManager.HandleIBTP`, `checkIBTP`, `ProcessIBTP` and
of `applyTransaction` around it).
-/
namespace Bxh.Props.C02
open Bxh Bxh.Exec

/-- the index gate accepts exactly the next index -/
theorem C02_index_check_exact (exp cur : Nat) : checkIndex exp cur = .ok () ↔ cur = exp :=
  checkIndex_ok_iff exp cur

/-- Full-strength clause: a rejected IBTP transaction (receipt FAILED) leaves counters, records and
delivery metadata unchanged: the contract store is untouched and no event is left behind. -/
def C02_rejected_no_effect : Prop :=
  ∀ (env : Env) (l : Led) (s : String) (i : Ibtp) (p : ProofKind) (inv : Option String),
    (applyTx env l (.ibtp s i p) inv).2.rcpt.ok = false →
    ¬ auditHole env (C07.start l) (.ibtp s i p) →
      (∀ k, (applyTx env l (.ibtp s i p) inv).1.getS k = l.getS k) ∧ (applyTx env l (.ibtp s i p) inv).2.events = []

/-- the fee step of `applyTransaction` never touches contract storage or events when the
transaction body left the ledger with an empty journal -/
theorem fee_step_frame (env : Env) (l : Led) (tx : Tx) (inv : Option String)
    (hst : (applyBxh env { l with journal := [], events := [] } tx inv).1 = { l with journal := [], events := [] }) :
    (applyTx env l tx inv).1.store = l.store ∧ (applyTx env l tx inv).2.events = [] := by
  unfold applyTx
  simp only [hst]
  split
  · rename_i l2 hf
    exact ⟨by simp [payGasFee_store _ _ _ _ _ hf], by simp [payGasFee_events _ _ _ _ _ hf]⟩
  · exact ⟨by simp [payLeft_store, revert_nil], by simp [payLeft_events, revert_nil]⟩

/-- rejected by the proof / signature check ⇒ FAILED receipt and no effect -/
theorem C02_rejected_by_check_no_effect
    (env : Env) (l : Led) (s : String) (i : Ibtp) (p : ProofKind) (r : String) :
    (applyTx env l (.ibtp s i p) (some r)).2.rcpt.ok = false ∧
    (applyTx env l (.ibtp s i p) (some r)).1.store = l.store ∧
    (applyTx env l (.ibtp s i p) (some r)).2.events = [] := by
  refine ⟨?_, fee_step_frame env l _ _ rfl⟩
  unfold applyTx
  simp only [applyBxh, mkRcpt]
  split <;> rfl

/-- rejected by the interchain contract (wrong / duplicate / future index, unknown receipt,
unavailable source, illegal type, transaction-manager refusal …) ⇒ FAILED receipt and no effect -/
theorem C02_rejected_by_contract_no_effect
    (env : Env) (l : Led) (s : String) (i : Ibtp) (p : ProofKind) (e : String)
    (he : handleIBTP env { l with journal := [], events := [] } i = .error e) (hne : e ≠ "2080000!") :
    (applyTx env l (.ibtp s i p) none).2.rcpt.ok = false ∧
    (applyTx env l (.ibtp s i p) none).1.store = l.store ∧
    (applyTx env l (.ibtp s i p) none).2.events = [] := by
  have hne' : (e == "2080000!") = false := by simpa using hne
  have hb : applyBxh env { l with journal := [], events := [] } (.ibtp s i p) none
      = ({ l with journal := [], events := [] }, .error e, gasBVM) := by
    simp only [applyBxh, he, hne']
    rfl
  refine ⟨?_, fee_step_frame env l _ _ (by rw [hb])⟩
  unfold applyTx
  simp only [hb, mkRcpt]
  split <;> rfl

theorem isResponse_of_isRequest {ty : IType} (h : ty.isRequest = true) : ty.isResponse = false := by
  cases ty <;> simp_all [IType.isRequest, IType.isResponse]

/-- an accepted request (not the destination hub's notice, which begins nothing) on an index-checked (non-batch) pair carries
exactly the next index -/
theorem C02_accept_needs_next_index (env : Env) (l : Led) (i : Ibtp) (ck : Checked)
    (h : checkIBTP env l i = .ok ck) (hreq : i.typ.isRequest = true) (hn : ck.notice = false) (hb : ck.isBatch = false) :
    i.index = KV.getD (getIC l ck.src).ic ck.dst 0 + 1 := by
  have hresp := isResponse_of_isRequest hreq
  unfold checkIBTP at h
  repeat' (first
    | (cases h <;> first | (exact (checkIndex_ok_iff _ _).mp ‹_›) | simp_all)
    | split at h
    | simp only at h)

/-! ### the delivery set reaches the destination's pier -/

/-- **every destination's pier is handed exactly the delivery set of the block**: for every block the model executes, what the
interchain router (`classify`, behind both `PutBlockAndMeta` and `GetInterchainTxWrappers`) gives pier `d` as transactions is the
list `InterchainMeta.Counter[d]` — the same positions in the block, in the same order, each once, with its flags; a pier the
counter does not name gets none.  (The one-to-many notification map is read back from state; that it has one entry per chain is
the hypothesis `hm`.) -/
theorem C02_router_hands_each_pier_its_delivery_set (cfg : Cfg) (n : Node) (txs : List (Tx × Bool)) (d : String)
    (hm : Router.Keyed (execBlock cfg n txs).2.multiCounter) :
    (Router.deliver (execBlock cfg n txs).2 d).txs = KV.getD (execBlock cfg n txs).2.counter d [] := by
  rw [Router.deliver_spec _ (Router.applyTxs_counter_keyed ..) (Router.getTimeoutMap_keyed ..) hm]

-- non-vacuity: two destinations, one of them also told about a timeout
example :
    let o : BlockOut := { height := 9, rcpts := [], counter := [("c2", [⟨0, true, false⟩, ⟨2, true, false⟩]), ("c3", [⟨1, true, false⟩])],
                          timeoutCounter := [("c1", [.single ⟨⟨"1356", "c1", "s1"⟩, ⟨"1356", "c2", "s1"⟩, 4⟩])], multiCounter := [] }
    (Router.deliver o "c2").txs = [⟨0, true, false⟩, ⟨2, true, false⟩] ∧ (Router.deliver o "c3").txs = [⟨1, true, false⟩] ∧
    (Router.deliver o "c1").txs = [] ∧ (Router.deliver o "c1").timeouts.length = 1 ∧ Router.deliver o "c9" = {} := by decide

end Bxh.Props.C02

namespace Bxh.Props.C02
open Bxh Bxh.Exec

/-! ### counter-example: an IBTP that was processed and then cannot pay its fee -/

def s11 : SvcId := { bxh := "1356", chain := "c1", sid := "s1" }
def s21 : SvcId := { bxh := "1356", chain := "c2", sid := "s1" }
def okSvc : Svc := { ordered := true, blacklist := [], available := true }

/-- two available ordered services, a sender without funds -/
def cexLed : Led :=
  { store := [(.svc "c1" "s1", .svc okSvc), (.svc "c2" "s1", .svc okSvc)], bal := [("poor", 0)] }

def cexEnv : Env := { cfg := {}, cache := [], height := 7, txIndex := 0 }

def cexReq : Ibtp := { frm := some s11, to := some s21, index := 1, typ := .interchain, timeout := 3, group := none }

/-- The receipt is FAILED ("fee"), the contract store is restored by the revert (the record and
the counters are gone) and nothing is announced.  Before the `fix:` commit "do not process the events of a
failed transaction" the interchain event survived the revert and the request was listed for `c2`
(corpus/exec/c02-fee-failed-listed.ops replays it on the real code). -/
theorem C02_fee_failed_not_listed :
    (applyTx cexEnv cexLed (.ibtp "poor" cexReq .ok) none).2.rcpt = { ok := false, ret := "fee" } ∧
    (applyTx cexEnv cexLed (.ibtp "poor" cexReq .ok) none).2.events = [] ∧
    (applyTx cexEnv cexLed (.ibtp "poor" cexReq .ok) none).1.getS (.txRec { frm := s11, to := s21, index := 1 }) = none ∧
    (applyTx cexEnv cexLed (.ibtp "poor" cexReq .ok) none).1.getS (.ic s11) = none := by
  decide

/-- the full-strength clause holds for every rejected IBTP transaction, whatever rejected it -/
theorem C02_rejected_no_effect_holds : C02_rejected_no_effect := by
  intro env l s i p inv hfail hh
  exact ⟨C07.C07_failed_tx_storage_unchanged env l _ inv hfail hh, C07.C07_failed_tx_not_listed env l _ inv hfail⟩

end Bxh.Props.C02

namespace Bxh.Props.C02
open Bxh Bxh.Exec

/-! ### whole histories: requests of an ordered pair are accepted in the order 1, 2, 3, … exactly once -/

/-- run IBTPs through the interchain contract one after the other; a rejected one leaves the ledger as it was -/
def runIbtps (env : Env) (l : Led) (is : List Ibtp) : Led :=
  is.foldl (fun l i => match handleIBTP env l i with | .ok r => r.1 | .error _ => l) l

/-- indices of the accepted requests of the ordered pair (s, d), in acceptance order (between two hubs the request handed back
with the destination hub's notice is no request of the pair: it begins nothing) -/
def acceptedReqs (env : Env) (s d : SvcId) : Led → List Ibtp → List Nat
  | _, [] => []
  | l, i :: rest =>
    match handleIBTP env l i with
    | .ok r => (if i.typ.isRequest = true ∧ i.frm = some s ∧ i.to = some d ∧ isNotification l s d i = some false then [i.index] else [])
        ++ acceptedReqs env s d r.1 rest
    | .error _ => acceptedReqs env s d l rest

theorem handleIBTP_ok_checked {env : Env} {l : Led} {i : Ibtp} {r : Led × String} (h : handleIBTP env l i = .ok r) :
    ∃ ck, checkIBTP env l i = .ok ck := by
  unfold handleIBTP at h
  split at h
  · cases h
  · rename_i ck hck; exact ⟨ck, hck⟩

theorem checkIBTP_ends {env : Env} {l : Led} {i : Ibtp} {ck : Checked} (h : checkIBTP env l i = .ok ck) :
    i.frm = some ck.src ∧ i.to = some ck.dst := by
  unfold checkIBTP at h
  repeat' (first | (cases h <;> exact ⟨‹_›, ‹_›⟩) | split at h | simp only at h)

/-- for a request (no notice) the batch flag is the one `checkTargetAvailability` answers -/
theorem checkIBTP_request_batch {env : Env} {l : Led} {i : Ibtp} {ck : Checked} (h : checkIBTP env l i = .ok ck)
    (hreq : i.typ.isRequest = true) (hn : ck.notice = false) : ck.isBatch = (checkTarget env l ck.src ck.dst).1 := by
  have hresp := isResponse_of_isRequest hreq
  unfold checkIBTP at h
  repeat' (first | (cases h <;> simp_all) | split at h | simp only at h)

/-- the destination is index-checked: a service of another BitXHub, or a local, non-hub destination whose service record (if
any) is an ordered one -/
def OrderedDst (env : Env) (l : Led) (d : SvcId) : Prop :=
  isLocal env d = false ∨
  (isLocal env d = true ∧ (d.chain == d.bxh) = false ∧ env.cache = [] ∧
    ∀ sv, l.getS (.svc d.chain d.sid) = some (.svc sv) → sv.ordered = true)

/-- it depends on the service records only -/
theorem OrderedDst.mono {env : Env} {l l' : Led} {d : SvcId} (h : OrderedDst env l d)
    (hsvc : ∀ c sid, l'.getS (.svc c sid) = l.getS (.svc c sid)) : OrderedDst env l' d := by
  rcases h with h | ⟨h1, h2, h3, h4⟩
  · exact Or.inl h
  · exact Or.inr ⟨h1, h2, h3, fun sv hs => h4 sv (by rw [← hsvc]; exact hs)⟩

theorem orderedDst_not_batch {env : Env} {l : Led} {i : Ibtp} {ck : Checked} (hd : OrderedDst env l ck.dst)
    (h : checkIBTP env l i = .ok ck) (hreq : i.typ.isRequest = true) (hn : ck.notice = false) : ck.isBatch = false := by
  rw [checkIBTP_request_batch h hreq hn]
  rcases hd with hrem | ⟨hloc, hhub, hcache, hord⟩
  · unfold checkTarget; simp [hrem]
  have hct : ∀ src, (checkTarget env l src ck.dst).1 = false := by
    intro src
    unfold checkTarget
    simp only [hloc, hhub, if_true, Bool.false_eq_true, if_false]
    unfold getSvc
    rw [hcache]
    simp only [KV.get]
    cases hs : l.getS (.svc ck.dst.chain ck.dst.sid) with
    | none => rfl
    | some v =>
      cases v with
      | svc sv =>
        simp only
        split
        · rfl
        · split
          · rfl
          · simp [hord sv hs]
      | _ => rfl
  exact hct ck.src

/-- **requests of an index-checked ordered pair are accepted as 1, 2, 3, … with no gap and no repeat,
over any history of IBTPs** (requests and receipts of this and of every other pair, valid or not,
in any interleaving): the accepted indices of the pair are exactly the consecutive numbers after
the counter the history started with, and the counter ends at the start value plus their number -/
theorem C02_history_requests_consecutive (env : Env) (s d : SvcId) (is : List Ibtp) (l : Led)
    (hd : OrderedDst env l d) :
    acceptedReqs env s d l is = List.range' (reqCounter l s d + 1) (acceptedReqs env s d l is).length ∧
    reqCounter (runIbtps env l is) s d = reqCounter l s d + (acceptedReqs env s d l is).length := by
  induction is generalizing l with
  | nil => simp [acceptedReqs, runIbtps]
  | cons i rest ih =>
    unfold acceptedReqs
    simp only [runIbtps, List.foldl_cons]
    cases hh : handleIBTP env l i with
    | error e =>
      simp only
      exact ih l hd
    | ok r =>
      simp only
      obtain ⟨ck, hck⟩ := handleIBTP_ok_checked hh
      obtain ⟨hfrm, hto⟩ := checkIBTP_ends hck
      have hcnt := fun s' d' => handleIBTP_reqCounter hck hh s' d'
      have hd' : OrderedDst env r.1 d := hd.mono (fun c sid => handleIBTP_svc_frame hh c sid)
      obtain ⟨ih1, ih2⟩ := ih r.1 hd'
      have hrun : runIbtps env r.1 rest = List.foldl (fun l i => match handleIBTP env l i with | .ok r => r.1 | .error _ => l) r.1 rest := rfl
      rw [← hrun]
      by_cases hmine : i.typ.isRequest = true ∧ i.frm = some s ∧ i.to = some d ∧ isNotification l s d i = some false
      · obtain ⟨hreq, hfs, htd, hnot⟩ := hmine
        have hs : ck.src = s := by rw [hfrm] at hfs; exact Option.some.inj hfs
        have hdd : ck.dst = d := by rw [hto] at htd; exact Option.some.inj htd
        have hn : ck.notice = false := by
          have := checkIBTP_notice hck
          rw [hs, hdd, hnot] at this
          exact (Option.some.inj this).symm
        have hnb : ck.isBatch = false := orderedDst_not_batch (by rw [hdd]; exact hd) hck hreq hn
        have hidx := C02_accept_needs_next_index env l i ck hck hreq hn hnb
        have hidx' : i.index = reqCounter l s d + 1 := by rw [← hs, ← hdd]; exact hidx
        have hc1 : reqCounter r.1 s d = reqCounter l s d + 1 := by
          rw [hcnt s d]; simp [hreq, hs, hdd, hn]
        simp only [hreq, hfs, htd, hnot, and_self, if_true, List.singleton_append, List.length_cons]
        rw [ih2, hc1]
        refine ⟨?_, by omega⟩
        rw [List.range'_succ, ← hidx']
        congr 1
        rw [hc1] at ih1
        rw [hidx']
        exact ih1
      · have hc0 : reqCounter r.1 s d = reqCounter l s d := by
          rw [hcnt s d]
          have : ¬ ((i.typ.isRequest && !ck.notice) = true ∧ s = ck.src ∧ d = ck.dst) := by
            intro ⟨h1, h2, h3⟩
            simp only [Bool.and_eq_true, Bool.not_eq_eq_eq_not, Bool.not_true] at h1
            refine hmine ⟨h1.1, by rw [hfrm, h2], by rw [hto, h3], ?_⟩
            have := checkIBTP_notice hck
            rw [← h2, ← h3, h1.2] at this
            exact this
          simp only [this, if_false]
        simp only [hmine, if_false, List.nil_append]
        rw [ih2, hc0]
        rw [hc0] at ih1
        exact ⟨ih1, rfl⟩

/-- non-vacuity: request 1, a replay of 1, request 3 (a gap), request 2 — accepted: 1 and 2 -/
example :
    let svc : Svc := { ordered := true, blacklist := [], available := true }
    let l : Led := { store := [(.svc "c1" "s1", .svc svc), (.svc "c2" "s1", .svc svc)] }
    let env : Env := { cfg := {}, cache := [], height := 7, txIndex := 0 }
    let rq (n : Nat) : Ibtp := { frm := some s11, to := some s21, index := n, typ := .interchain, timeout := 0, group := none }
    acceptedReqs env s11 s21 l [rq 1, rq 1, rq 3, rq 2] = [1, 2] := by decide

-- ------------------------------------------------------------------------------------ block level
theorem orderedDst_env {env env' : Env} {l : Led} {d : SvcId} (hc : env'.cache = env.cache) (hb : env'.cfg.bxh = env.cfg.bxh)
    (h : OrderedDst env l d) : OrderedDst env' l d := by
  rcases h with h | ⟨h1, h2, h3, h4⟩
  · exact Or.inl (by unfold isLocal at *; rw [hb]; exact h)
  · exact Or.inr ⟨by unfold isLocal at *; rw [hb]; exact h1, h2, by rw [hc]; exact h3, h4⟩

theorem applyBvm_ic_frame {env : Env} {l : Led} {c m : String} {args : List Arg} {r : Led × String}
    (e : applyBvm env l c m args = .ok r) (hnd : ¬ (c = "interchain" ∧ m = "DeleteInterchain")) (x : SvcId) :
    r.1.getS (.ic x) = l.getS (.ic x) := by
  unfold applyBvm at e
  split at e
  · rename_i hc
    exfalso; apply hnd
    simp only [Bool.and_eq_true, beq_iff_eq] at hc
    exact hc
  · split at e
    · split at e
      · split at e
        · cases e; rfl
        · cases e
      · cases e
    · split at e
      · split at e
        · split at e
          · cases e; rfl
          · cases e
        · cases e
      · split at e
        · split at e <;> cases e
        · cases e

/-- **one transaction of a block and the request counter of an index-checked pair**: whatever the transaction is (IBTP of this or
another pair, transfer, contract call; valid or not; fee paid or not, in which case everything is reverted), the counter of
the pair (s, d) either stays or grows by exactly one — and it grows only by a request of that very pair that carries exactly
the next index.  Excluded: a direct `DeleteInterchain` call, which resets the counters (the recorded C17 finding). -/
theorem C02_tx_counter_step (env : Env) (l : Led) (tx : Tx) (inv : Option String) (s d : SvcId)
    (hd : OrderedDst env l d) (hnd : ∀ sg args, tx ≠ .bvm sg "interchain" "DeleteInterchain" args) :
    reqCounter (applyTx env l tx inv).1 s d = reqCounter l s d ∨
    (reqCounter (applyTx env l tx inv).1 s d = reqCounter l s d + 1 ∧
      ∃ sg i p, tx = .ibtp sg i p ∧ i.typ.isRequest = true ∧ i.frm = some s ∧ i.to = some d ∧ i.index = reqCounter l s d + 1) := by
  have hd0 : OrderedDst env (txStart l) d := hd.mono (fun _ _ => rfl)
  have hc0 : reqCounter (txStart l) s d = reqCounter l s d := reqCounter_congr (fun x => txStart_getS l _) s d
  cases applyTx_effect env l tx inv with
  | nothing h => left; rw [reqCounter_congr (fun x => h _) s d, hc0]
  | bvm sg c m args r h1 h2 h3 =>
    left
    have hn : ¬ (c = "interchain" ∧ m = "DeleteInterchain") := by
      rintro ⟨rfl, rfl⟩; exact hnd sg args h1
    rw [reqCounter_congr (fun x => h3 _) s d, reqCounter_congr (fun x => applyBvm_ic_frame h2 hn x) s d, hc0]
  | ibtp sg i p env' r h1 h2 h3 _ h5 h6 =>
    obtain ⟨ck, hck⟩ := handleIBTP_ok_checked h5
    obtain ⟨hfrm, hto⟩ := checkIBTP_ends hck
    have hcnt := handleIBTP_reqCounter hck h5 s d
    rw [reqCounter_congr (fun x => h6 _) s d, hcnt, hc0]
    by_cases hmine : (i.typ.isRequest && !ck.notice) = true ∧ s = ck.src ∧ d = ck.dst
    · right
      rw [if_pos hmine]
      obtain ⟨hrn, hs, hdd⟩ := hmine
      simp only [Bool.and_eq_true, Bool.not_eq_eq_eq_not, Bool.not_true] at hrn
      obtain ⟨hreq, hn⟩ := hrn
      have hnb : ck.isBatch = false := orderedDst_not_batch (by rw [← hdd]; exact orderedDst_env h2 h3 hd0) hck hreq hn
      have hidx := C02_accept_needs_next_index env' (txStart l) i ck hck hreq hn hnb
      refine ⟨rfl, sg, i, p, h1, hreq, by rw [hfrm, hs], by rw [hto, hdd], ?_⟩
      rw [hidx, ← hc0]
      unfold reqCounter
      rw [hs, hdd]
    · left; rw [if_neg hmine]

/-- the timeout bookkeeping and the timeout step of a block leave every interchain counter alone -/
theorem C02_timeout_steps_keep_counters (cfg : Cfg) (l : Led) (h : Nat) (txs : List Tx) (rcpts : List Rcpt) (s d : SvcId) :
    reqCounter (setTimeoutRollback (setTimeoutList cfg l h txs rcpts) h) s d = reqCounter l s d := by
  have h1 : ∀ x, (setTimeoutRollback (setTimeoutList cfg l h txs rcpts) h).getS (.ic x) = l.getS (.ic x) := by
    intro x
    have hr : ∀ (l0 : Led), (setTimeoutRollback l0 h).getS (.ic x) = l0.getS (.ic x) := by
      intro l0
      unfold setTimeoutRollback
      have key : ∀ (ids : List TId) (acc : Led × Bool), (ids.foldl (rollbackStep h) acc).1.getS (.ic x) = acc.1.getS (.ic x) := by
        intro ids
        induction ids with
        | nil => intro acc; rfl
        | cons id rest ih =>
          intro acc
          simp only [List.foldl_cons]
          rw [ih]
          unfold rollbackStep
          split
          · rfl
          · split
            · split
              · simp
              · rfl
            · simp
      exact key _ _
    rw [hr, setTimeoutList_getS _ _ _ _ _ _ (by intro y e; cases e)]
  exact reqCounter_congr h1 s d

end Bxh.Props.C02

namespace Bxh.Props.C02
open Bxh Bxh.Exec

/-! ### an accepted request reaches its destination's pier -/

/-- the pier that serves a service: its chain's pier, or the union pier for a service of another BitXHub -/
def destPier (env : Env) (d : SvcId) : String := if isLocal env d then d.chain else unionPier

@[simp] theorem events_setS (l : Led) (k : Key) (v : Option Val) : (l.setS k v).events = l.events := rfl
@[simp] theorem events_addS (l : Led) (k : Key) (v : Val) : (l.addS k v).events = l.events := rfl
@[simp] theorem events_post (l : Led) (e : Ev) : (l.post e).events = l.events ++ [e] := rfl

theorem events_setIC (l : Led) (s : SvcId) (i : IC) : (setIC l s i).events = l.events := rfl

theorem events_setDestIC (l : Led) (f t : SvcId) (n : Nat) (ic : IC) : (setDestIC l f t n ic).events = l.events := rfl

theorem events_foldl_setDestIC (cids : List TxId) (l : Led) :
    (cids.foldl (fun l cid => setDestIC l cid.frm cid.to cid.index (getIC l cid.frm)) l).events = l.events := by
  induction cids generalizing l with
  | nil => rfl
  | cons c rest ih => simp only [List.foldl_cons]; rw [ih]; rfl

theorem events_processIBTP (l : Led) (i : Ibtp) (ck : Checked) (c : StatusChange) : (processIBTP l i ck c).1.events = l.events := by
  unfold processIBTP
  simp only
  split
  · rfl
  · simp only [events_setS]
    split
    · split
      · exact events_foldl_setDestIC _ _
      · rfl
    · rfl

theorem events_addToMultiNotify (env : Env) (l : Led) (ids : List TxId) (b : Bool) : (addToMultiNotify env l ids b).events = l.events := by
  unfold addToMultiNotify
  split <;> rfl

/-- `notifySrcDst` posts exactly one event; when the change notifies the destination side (and the IBTP is no failing child of a
group), the event names the destination's pier with the batch flag -/
theorem notifySrcDst_names_destination (env : Env) (l : Led) (src dst : SvcId) (c : StatusChange) (b : Bool)
    (hd : (notifyFlags c).2 = true) (hf : c.isFailChild = false) :
    ∃ m, (notifySrcDst env l src dst c b).events = l.events ++ [.interchain m] ∧ KV.get m (destPier env dst) = some b := by
  unfold notifySrcDst destPier
  cases hnf : notifyFlags c with
  | mk ns nd =>
    rw [hnf] at hd
    simp only at hd
    subst hd
    simp only [hf, Bool.not_false, if_true]
    cases ns <;> cases hl : isLocal env dst <;> cases isLocal env src <;>
      simp only [if_true, if_false, Bool.false_eq_true, events_post, events_addToMultiNotify] <;>
      exact ⟨_, rfl, KV.get_set_eq _ _ _⟩

/-- the status change of a one-to-one begin that writes a fresh record -/
theorem beginTransaction_fresh_change {env : Env} {l : Led} {i : Ibtp} {ck : Checked} {r : Led × StatusChange}
    (e : beginTransaction env l i ck = .ok r) (hg : i.group = none ∨ ck.src.bxh ≠ ck.dst.bxh)
    (hfresh : ck.src.bxh = ck.dst.bxh ∨ l.getS (.txRec { frm := ck.src, to := ck.dst, index := i.index }) = none) :
    r.2.prev = none ∧ (r.2.cur = .begin ∨ r.2.cur = .beginFailure) ∧ r.2.isFailChild = false := by
  unfold beginTransaction at e
  simp only at e
  split at e
  · rename_i hb
    have hnone : l.getS (.txRec { frm := ck.src, to := ck.dst, index := i.index }) = none := by
      rcases hfresh with h | h
      · exact absurd h hb
      · exact h
    split at e
    · cases e
    · rename_i r0 h0
      cases e
      unfold tmBeginInter at h0
      rw [hnone] at h0
      simp only at h0
      cases h0
      refine ⟨rfl, ?_, rfl⟩
      by_cases ht : ck.targetErr = true <;> simp [ht]
  · rename_i hb
    have hgn : i.group = none := by
      rcases hg with h | h
      · exact h
      · exact absurd (by simpa using hb) h
    rw [hgn] at e
    simp only at e
    cases e
    unfold tmBegin
    refine ⟨rfl, ?_, rfl⟩
    by_cases ht : ck.targetErr = true <;> simp [ht]

/-- **an accepted one-to-one request is handed to its destination in the block that accepted it**: the interchain event of the
transaction names the destination's pier — the destination appchain, or the union pier for a service of another BitXHub — with the
batch flag (the executor turns the event into the block's delivery counter at the transaction's position, `counterOf`, and the
router hands each pier its entries: `C02_router_hands_each_pier_its_delivery_set`) -/
theorem C02_accepted_request_is_handed_to_its_destination (env : Env) (l : Led) (i : Ibtp) (ck : Checked) (r : Led × String)
    (hck : checkIBTP env l i = .ok ck) (h : handleIBTP env l i = .ok r) (hreq : i.typ.isRequest = true)
    (hg : i.group = none ∨ ck.src.bxh ≠ ck.dst.bxh)
    (hfresh : ck.src.bxh = ck.dst.bxh ∨ l.getS (.txRec { frm := ck.src, to := ck.dst, index := i.index }) = none) :
    ∃ m, Ev.interchain m ∈ r.1.events ∧ KV.get m (destPier env ck.dst) = some ck.isBatch := by
  unfold handleIBTP at h
  simp only [hck, hreq, if_true] at h
  split at h
  · cases h
  · rename_i l1 c hr
    obtain ⟨hp, hc, hfc⟩ := beginTransaction_fresh_change hr hg hfresh
    have hd : (notifyFlags c).2 = true := by
      unfold notifyFlags
      simp only at hp hc
      rw [hp]
      rcases hc with hc | hc <;> simp [hc]
    obtain ⟨m, hm1, hm2⟩ := notifySrcDst_names_destination env l1 ck.src ck.dst c ck.isBatch hd hfc
    refine ⟨m, ?_, hm2⟩
    have hpe := events_processIBTP (notifySrcDst env l1 ck.src ck.dst c ck.isBatch) i ck c
    generalize hpr : processIBTP (notifySrcDst env l1 ck.src ck.dst c ck.isBatch) i ck c = pr at h hpe
    obtain ⟨l3, ret⟩ := pr
    simp only at h hpe
    have hin : Ev.interchain m ∈ l3.events := by rw [hpe, hm1]; simp
    split at h
    · split at h
      · cases h
      · cases h
        show Ev.interchain m ∈ ((l3.post .audit).post .audit).events
        simp only [events_post, List.mem_append, List.mem_singleton]
        exact Or.inl (Or.inl hin)
    · cases h; exact hin


-- non-vacuity: with hub 9999 registered, a request to a service over there is accepted and its event names the union pier;
-- a request to a local service names that service's chain
example :
    let svc : Svc := { ordered := true, blacklist := [], available := true }
    let l : Led := { store := [(.svc "c1" "s1", .svc svc), (.svc "c2" "s1", .svc svc)] }
    let env : Env := { cfg := { hubs := ["9999"] }, cache := [], height := 12, txIndex := 0 }
    let s11 : SvcId := { bxh := "1356", chain := "c1", sid := "s1" }
    let rq (d : SvcId) : Ibtp := { frm := some s11, to := some d, index := 1, typ := .interchain, timeout := 3, group := none }
    let named (x : Except String (Led × String)) : List (List (String × Bool)) := match x with
      | .ok r => r.1.events.map (fun e => match e with | .interchain m => m | .audit => [])
      | .error _ => []
    named (handleIBTP env l (rq { bxh := "9999", chain := "c5", sid := "s1" })) = [[("default_union_pier_id", false)]] ∧
    named (handleIBTP env l (rq { bxh := "1356", chain := "c2", sid := "s1" })) = [[("c2", false)]] := by decide

end Bxh.Props.C02

namespace Bxh.Props.C02
open Bxh Bxh.Exec

/-! ### receipts: in index order, and only for transactions that were begun -/

theorem isRequest_of_isResponse {ty : IType} (h : ty.isResponse = true) : ty.isRequest = false := by
  cases ty <;> simp_all [IType.isRequest, IType.isResponse]

/-- **an accepted receipt carries exactly the next receipt index of its pair** — always: there is no batch exemption on the
receipt side -/
theorem C02_receipt_needs_next_index (env : Env) (l : Led) (i : Ibtp) (ck : Checked)
    (h : checkIBTP env l i = .ok ck) (hresp : i.typ.isResponse = true) :
    i.index = KV.getD (getIC l ck.src).rc ck.dst 0 + 1 := by
  have hreq := isRequest_of_isResponse hresp
  unfold checkIBTP at h
  repeat' (first
    | (cases h <;> first | (exact (checkIndex_ok_iff _ _).mp ‹_›) | simp_all)
    | split at h
    | simp only at h)

/-- **a receipt is accepted only for a transaction that was begun**: there is a one-to-one record or a group entry for its id -/
theorem C02_receipt_needs_begun_transaction (env : Env) (l : Led) (i : Ibtp) (ck : Checked) (r : Led × String)
    (hck : checkIBTP env l i = .ok ck) (h : handleIBTP env l i = .ok r) (hresp : i.typ.isResponse = true) :
    (l.getS (.txRec { frm := ck.src, to := ck.dst, index := i.index })).isSome = true ∨
    (l.getS (.child { frm := ck.src, to := ck.dst, index := i.index })).isSome = true := by
  have hreq := isRequest_of_isResponse hresp
  unfold handleIBTP at h
  simp only [hck, hreq, hresp, Bool.false_eq_true, if_false, if_true] at h
  split at h
  · cases h
  · rename_i l1 c hr
    split at hr
    · cases hr
    · rename_i x hx
      unfold tmReport at hx
      split at hx
      · rename_i rec hrec; left; rw [hrec]; rfl
      · cases hx
      · split at hx
        · rename_i gid hc; right; rw [hc]; rfl
        · cases hx

end Bxh.Props.C02
