import Bxh.Proofs.ProofGroups
import Bxh.Gen.ProofFanout
/-!
# C03 — the proof check reaches every transaction of a block, wherever it stands

`verifyProofs` cuts the block into up to `configGroup` groups that are checked concurrently, by one loop for the last group and
another for the others, and writes the verdicts into a map keyed by block position.  On the model of that fan-out
(`Bxh.ProofGroups`): for every group count `c ≥ 1` (5 = proof type "parallel", 1 = "serial"), every block length and every position,
the map holds `(k, r)` exactly when the transaction at position `k` is rejected with reason `r`.  The exec model decides each
transaction by its own verdict; this theorem is why that is what the fan-out computes, and the correspondence run (rejected and
plain-false proofs at every position of blocks of 2–11 transactions, tags `proof-in-a-full-block:*`) is what ties the model of the
fan-out to the code.
-/
namespace Bxh.Props.C03
open Bxh.ProofGroups

/-- no transaction of a block escapes the proof check and none is blamed for another one's proof -/
theorem C03_every_position_is_checked {α : Type} (c : Nat) (hc : 0 < c) (check : α → Option String) (txs : List α) (k : Nat) (r : String) :
    (k, r) ∈ verifyProofs c check txs ↔ ∃ tx, txs[k]? = some tx ∧ check tx = some r :=
  mem_verifyProofs c hc check txs k r

/-- in particular a rejected transaction is recorded, whatever its position and the block's length -/
theorem C03_rejected_is_recorded {α : Type} (c : Nat) (hc : 0 < c) (check : α → Option String) (txs : List α) (k : Nat) (tx : α) (r : String)
    (hk : txs[k]? = some tx) (hr : check tx = some r) : (k, r) ∈ verifyProofs c check txs :=
  (mem_verifyProofs c hc check txs k r).mpr ⟨tx, hk, hr⟩

/-- non-vacuity: seven transactions in five groups (group length 1, the last group takes three), the rejected ones at positions 0, 4
and 6 — one in the first group, two in the last -/
example : verifyProofs 5 (fun (t : Nat) => if t % 2 = 0 then none else some "bad") [1, 2, 4, 6, 3, 8, 5] = [(0, "bad"), (4, "bad"), (6, "bad")] := by
  decide

/-- the model of the fan-out was written from these expressions of `verifyProofs` — group count and length, the test for the last
group, the two slices, the position `i*groupLen + j` a rejection is recorded under, and the test `!ok` that decides it, the same in
both loops; extracted from the source on every run -/
theorem C03_fanout_arithmetic_as_modelled : Bxh.Gen.proofFanout =
    ["groupNum := configGroup", "if len(txs) < configGroup", "groupNum = len(txs)", "groupLen := len(txs) / groupNum",
     "if i == groupNum-1", "range txs[i*groupLen:]", "if !ok", "append groupInvalidTx i*groupLen + j",
     "range txs[i*groupLen : (i+1)*groupLen]", "if !ok", "append groupInvalidTx i*groupLen + j", "range groupInvalidTx"] := by decide

/-- the group count of proof type "parallel" (the constant `maxGroup`, extracted on every run; the model driver fans out over it) is
positive: the theorems above apply to it -/
theorem C03_parallel_group_count_positive : 0 < Bxh.Gen.proofMaxGroup := by decide

end Bxh.Props.C03
