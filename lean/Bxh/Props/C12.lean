import Bxh.Model.Ledger
namespace Bxh.Props.C12
open Bxh Bxh.Ledger
theorem placeholder_true : True := trivial
end Bxh.Props.C12
