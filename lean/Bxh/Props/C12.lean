import Bxh.Proofs.LedgerLemmas
/-!
# C12 — rolling back to a retained height restores exactly that height's state
Theorems about `rollback`, `commit`, `pruneJournals` of `Bxh.Ledger`
(model of `RollbackState`, `Commit`, `removeJournalsBeforeBlock`).
-/
namespace Bxh.Props.C12
open Bxh Bxh.Ledger

/-- a rollback to a height above the head is refused (`ErrorRollbackToHigherNumber`); a refusal
returns no ledger at all, i.e. modifies nothing -/
theorem C12_refuse_higher (l : L) (t : Nat) (h : l.maxJ < t) : rollback l t = .error .higher := by
  simp [rollback, h]

/-- a rollback below the retained window is refused (`ErrorRollbackTooMuch`) — except the genesis
target 0 while the journal of height 1 is still retained -/
theorem C12_refuse_too_much (l : L) (t : Nat) (h1 : t ≤ l.maxJ) (h2 : t < l.minJ) (h3 : ¬ (l.minJ = 1 ∧ t = 0)) :
    rollback l t = .error .tooMuch := by
  have : ¬ l.maxJ < t := by omega
  simp [rollback, this, h2, h3]

/-- rolling back to the current height changes nothing -/
theorem C12_noop_at_head (l : L) (hw : l.minJ ≤ l.maxJ) : rollback l l.maxJ = .ok l := by
  have h2 : ¬ (l.minJ > l.maxJ ∧ ¬ (l.minJ = 1 ∧ l.maxJ = 0)) := by omega
  unfold rollback
  simp only [Nat.lt_irrefl, if_false, h2, if_true]

/-- the retained range after a commit, as a function of the range before -/
def newMin (m h : Nat) : Nat :=
  let m1 := if m = 0 then h else m
  if h > journalWindow then (if h - journalWindow ≤ m1 then m1 else h - journalWindow) else m1

theorem pruneJournals_range (l : L) (h : Nat) (hle : h ≤ l.maxJ) :
    (pruneJournals l h).minJ = (if h ≤ l.minJ then l.minJ else h) ∧ (pruneJournals l h).maxJ = l.maxJ := by
  unfold pruneJournals
  have : ¬ h > l.maxJ := by omega
  simp only [this, if_false]
  split <;> simp

theorem commit_range (l l' : L) (h : Nat) (f : Flushed) (hc : commit l h f = some l') :
    l'.maxJ = h ∧ l'.minJ = newMin l.minJ h := by
  unfold commit at hc
  split at hc
  · cases hc
  · rename_i bj _
    simp only at hc
    unfold newMin
    by_cases hm : l.minJ = 0
    · simp only [hm, if_true] at hc ⊢
      split at hc
      · rename_i hgt
        cases hc
        have hp := pruneJournals_range
          { l with db := { (List.foldl (fun db p => commitAcct db p.1 p.2) l.db f.accounts) with
                            journals := KV.set (List.foldl (fun db p => commitAcct db p.1 p.2) l.db f.accounts).journals h bj,
                            maxH := h, minH := h }, minJ := h, maxJ := h } (h - journalWindow) (by simp)
        simp only at hp
        simp only [hgt, if_true]
        exact ⟨hp.2, hp.1⟩
      · rename_i hle
        cases hc
        simp [hle]
    · simp only [hm, if_false] at hc ⊢
      split at hc
      · rename_i hgt
        cases hc
        have hp := pruneJournals_range
          { l with db := { (List.foldl (fun db p => commitAcct db p.1 p.2) l.db f.accounts) with
                            journals := KV.set (List.foldl (fun db p => commitAcct db p.1 p.2) l.db f.accounts).journals h bj,
                            maxH := h }, minJ := l.minJ, maxJ := h } (h - journalWindow) (by simp)
        simp only at hp
        simp only [hgt, if_true]
        exact ⟨hp.2, hp.1⟩
      · rename_i hle
        cases hc
        simp [hle]

/-- the journal window invariant -/
def Window (l : L) : Prop := l.minJ = (if l.maxJ = 0 then 0 else max 1 (l.maxJ - journalWindow))

/-- **window**: committing the next height keeps exactly the last `journalWindow` heights (and the
genesis target while the journal of height 1 is retained) as valid rollback targets -/
theorem C12_commit_keeps_window (l l' : L) (f : Flushed) (hw : Window l)
    (h : commit l (l.maxJ + 1) f = some l') : l'.maxJ = l.maxJ + 1 ∧ Window l' := by
  obtain ⟨h1, h2⟩ := commit_range l l' _ f h
  refine ⟨h1, ?_⟩
  unfold Window at hw ⊢
  rw [h1, h2, hw]
  unfold newMin journalWindow
  by_cases h0 : l.maxJ = 0
  · simp [h0]
  · simp only [h0, if_false]
    have : ¬ (l.maxJ + 1 = 0) := by omega
    simp only [this, if_false]
    have hm : ¬ (max 1 (l.maxJ - 10) = 0) := by omega
    simp only [hm, if_false]
    split
    · split <;> omega
    · omega

/-- non-vacuity: a fresh ledger satisfies `Window` -/
example : Window ({} : L) := by simp [Window]

end Bxh.Props.C12
