import Bxh.Proofs.LedgerLemmas
import Bxh.Proofs.LedgerRollback
import Bxh.Gen.JournalWindow
/-!
# C12 — rolling back to a retained height restores exactly that height's state
Theorems about `rollback`, `commit`, `pruneJournals` of `Bxh.Ledger`
(model of `RollbackState`, `Commit`, `removeJournalsBeforeBlock`).
-/
namespace Bxh.Props.C12
open Bxh Bxh.Ledger

/-- a rollback to a height above the head is refused (`ErrorRollbackToHigherNumber`); a refusal
returns no ledger at all, i.e. modifies nothing -/
theorem C12_refuse_higher (l : L) (t : Nat) (h : l.maxJ < t) : rollback l t = .error .higher := by
  simp [rollback, h]

/-- a rollback below the retained window is refused (`ErrorRollbackTooMuch`) — except the genesis
target 0 while the journal of height 1 is still retained -/
theorem C12_refuse_too_much (l : L) (t : Nat) (h1 : t ≤ l.maxJ) (h2 : t < l.minJ) (h3 : ¬ (l.minJ = 1 ∧ t = 0)) :
    rollback l t = .error .tooMuch := by
  have : ¬ l.maxJ < t := by omega
  simp [rollback, this, h2, h3]

/-- rolling back to the current height changes nothing -/
theorem C12_noop_at_head (l : L) (hw : l.minJ ≤ l.maxJ) : rollback l l.maxJ = .ok l := by
  have h2 : ¬ (l.minJ > l.maxJ ∧ ¬ (l.minJ = 1 ∧ l.maxJ = 0)) := by omega
  unfold rollback
  simp only [Nat.lt_irrefl, if_false, h2, if_true]

/-- the retained range after a commit, as a function of the range before -/
def newMin (m h : Nat) : Nat :=
  let m1 := if m = 0 then h else m
  if h > journalWindow then (if h - journalWindow ≤ m1 then m1 else h - journalWindow) else m1

theorem pruneJournals_range (l : L) (h : Nat) (hle : h ≤ l.maxJ) :
    (pruneJournals l h).minJ = (if h ≤ l.minJ then l.minJ else h) ∧ (pruneJournals l h).maxJ = l.maxJ := by
  unfold pruneJournals
  have : ¬ h > l.maxJ := by omega
  simp only [this, if_false]
  split <;> simp

theorem commit_range (l l' : L) (h : Nat) (f : Flushed) (hc : commit l h f = some l') :
    l'.maxJ = h ∧ l'.minJ = newMin l.minJ h := by
  unfold commit at hc
  split at hc
  · cases hc
  · rename_i bj _
    simp only at hc
    unfold newMin
    by_cases hm : l.minJ = 0
    · simp only [hm, if_true] at hc ⊢
      split at hc
      · rename_i hgt
        cases hc
        have hp := pruneJournals_range
          { l with db := { (List.foldl (fun db p => commitAcct db p.1 p.2) l.db f.accounts) with
                            journals := KV.set (List.foldl (fun db p => commitAcct db p.1 p.2) l.db f.accounts).journals h bj,
                            maxH := h, minH := h }, minJ := h, maxJ := h } (h - journalWindow) (by simp)
        simp only at hp
        simp only [hgt, if_true]
        exact ⟨hp.2, hp.1⟩
      · rename_i hle
        cases hc
        simp [hle]
    · simp only [hm, if_false] at hc ⊢
      split at hc
      · rename_i hgt
        cases hc
        have hp := pruneJournals_range
          { l with db := { (List.foldl (fun db p => commitAcct db p.1 p.2) l.db f.accounts) with
                            journals := KV.set (List.foldl (fun db p => commitAcct db p.1 p.2) l.db f.accounts).journals h bj,
                            maxH := h }, minJ := l.minJ, maxJ := h } (h - journalWindow) (by simp)
        simp only at hp
        simp only [hgt, if_true]
        exact ⟨hp.2, hp.1⟩
      · rename_i hle
        cases hc
        simp [hle]

/-- the journal window invariant -/
def Window (l : L) : Prop := l.minJ = (if l.maxJ = 0 then 0 else max 1 (l.maxJ - journalWindow))

/-- **window**: committing the next height keeps exactly the last `journalWindow` heights (and the
genesis target while the journal of height 1 is retained) as valid rollback targets -/
theorem C12_commit_keeps_window (l l' : L) (f : Flushed) (hw : Window l)
    (h : commit l (l.maxJ + 1) f = some l') : l'.maxJ = l.maxJ + 1 ∧ Window l' := by
  obtain ⟨h1, h2⟩ := commit_range l l' _ f h
  refine ⟨h1, ?_⟩
  unfold Window at hw ⊢
  rw [h1, h2, hw]
  unfold newMin journalWindow
  by_cases h0 : l.maxJ = 0
  · simp [h0]
  · simp only [h0, if_false]
    have : ¬ (l.maxJ + 1 = 0) := by omega
    simp only [this, if_false]
    have hm : ¬ (max 1 (l.maxJ - 10) = 0) := by omega
    simp only [hm, if_false]
    split
    · split <;> omega
    · omega

/-- non-vacuity: a fresh ledger satisfies `Window` -/
example : Window ({} : L) := by simp [Window]

/-! ## Rolling back restores exactly the previous state

`SameAt b x y`: the databases `x` and `y` hold the same account record, the same code and the same bytes under every
storage key of address `b` (a missing key and an empty value are the same bytes, as on every read path of the ledger).  `Coh db a acc`: the origin fields of the account object are what the database holds
(which is how `GetAccount`, `GetState` and `Code` fill them). -/

/-- **one block**: a block's dirty accounts are flushed (`FlushDirtyData`) and committed (`Commit`) as height `maxJ + 1`;
rolling the ledger back to the previous height (`RollbackState`) then restores, for every address, every account
record, every code entry and every storage key of the state store — whatever the block wrote, deleted or created -/
theorem C12_rollback_restores_previous_block (H : RootPre → String) (l l1 l2 : L)
    (hnd : (l.accounts.map (·.1)).Nodup)
    (hcoh : ∀ p ∈ l.accounts, Coh l.db p.1 (loadOrigin l p.1 p.2))
    (hc : commit (flush H l).1 (l.maxJ + 1) (flush H l).2 = some l1)
    (hr : rollback l1 l.maxJ = .ok l2) (b : Addr) : SameAt b l2.db l.db := by
  obtain ⟨bj, hbj, ha, hs, hcd, hj, hm⟩ := commit_db _ _ _ _ hc
  obtain ⟨bj', hbj', hent⟩ := flush_journal H l
  rw [hbj] at hbj'
  injection hbj' with hbj'
  subst hbj'
  obtain ⟨r1, r2, r3⟩ := rollback_one l1 l2 l.maxJ bj hm hj hr
  have hsame : ∀ b, SameAt b l1.db (commits (flushItems l) l.db) := by
    intro b
    rw [flush_accounts] at ha hs hcd
    exact ⟨by rw [ha]; rfl, by rw [hcd]; rfl, fun k => by rw [hs]; rfl⟩
  have hnd' : ((flushItems l).map (·.1)).Nodup := (flushItems_sublist l l.accounts).nodup hnd
  have hcoh' : ∀ p ∈ flushItems l, Coh l.db p.1 p.2 := by
    intro p hp
    obtain ⟨acc, hmem, he⟩ := flushItems_mem l p hp
    rw [he]
    exact hcoh (p.1, acc) hmem
  have := reverts_commits (flushItems l) l.db l1.db hnd' hcoh' hsame b
  unfold reverts at this
  rw [← hent] at this
  exact ⟨by rw [r1]; exact this.1, by rw [r3]; exact this.2.1, fun k => by rw [r2]; exact this.2.2 k⟩

/-- **any number of blocks** (state store level): applying the journals of the blocks, newest first, to a database that
holds what their commits left gives back everything the database held before the first of them -/
theorem C12_reverting_journals_restores_any_height (bs : List (List Item)) (db D2 : DB) (hcoh : CohBlocks db bs)
    (hsame : ∀ b, SameAt b D2 (commitBlocks bs db)) (b : Addr) : SameAt b (revertBlocks bs D2) db :=
  revertBlocks_commitBlocks bs db D2 hcoh hsame b

/-- **any retained height, through `RollbackState`**: the ledger is `n ≥ 1` blocks above height `t`; the journals kept
for the heights `t+1 … t+n` are the entries of those blocks; each block's accounts mirrored the state store it was
committed on (`CohBlocks`), and the state store holds what those commits left.  Then a successful `RollbackState(t)`
leaves, for every address, exactly the account record, code and storage the state store held at height `t`. -/
theorem C12_rollback_restores_any_retained_height (J : Nat → List Item) (dbt : DB) (l l2 : L) (t n : Nat) (hn : 0 < n)
    (hm : l.maxJ = t + n)
    (hj : ∀ j, t < j → j ≤ t + n → ∃ bj, KV.get l.db.journals j = some bj ∧ bj.entries = (J j).map (fun p => entryOf p.1 p.2))
    (hcoh : CohBlocks dbt (blocksOf J t n))
    (hsame : ∀ b, SameAt b l.db (commitBlocks (blocksOf J t n) dbt))
    (hr : rollback l t = .ok l2) (b : Addr) : SameAt b l2.db dbt :=
  (rollback_spec J l l2 t n hn hm hj hr b).trans
    (revertBlocks_commitBlocks (blocksOf J t n) dbt l.db hcoh hsame b)

/-- **the state-root chain continues from the target's root**: after a successful `RollbackState(t)` over `n ≥ 1` retained heights
the ledger is at height `t`, the root the next block is chained to is the root recorded in the journal of height `t` (the root that
block's `FlushDirtyData` computed; the zero root for `t = 0`), that journal is still there and the journals of the heights above
are gone — so the next flush hashes `prev = root(t)` (`C10_prev_root_in_preimage`) and a block executed again on the restored
state (`C12_rollback_restores_any_retained_height`) gets the root it got the first time -/
theorem C12_rollback_continues_root_chain (J : Nat → List Item) (l l2 : L) (t n : Nat) (hn : 0 < n) (hm : l.maxJ = t + n)
    (hj : ∀ j, t < j → j ≤ t + n → ∃ bj, KV.get l.db.journals j = some bj ∧ bj.entries = (J j).map (fun p => entryOf p.1 p.2))
    (hr : rollback l t = .ok l2) :
    l2.maxJ = t ∧ l2.accounts = [] ∧
    (t = 0 → l2.prevRoot = zeroRoot) ∧
    (t ≠ 0 → ∃ bj, KV.get l.db.journals t = some bj ∧ KV.get l2.db.journals t = some bj ∧ l2.prevRoot = bj.root) ∧
    ∀ (H : RootPre → String), (flush H l2).2.pre.prev = l2.prevRoot := by
  obtain ⟨db', hl, _, hjs⟩ := rollbackLoop_spec J t n l.db hj
  unfold rollback at hr
  have h1 : ¬ l.maxJ < t := by omega
  have h3 : ¬ l.maxJ = t := by omega
  simp only [h1, if_false, h3] at hr
  split at hr
  · cases hr
  · simp only [hm, Nat.add_sub_cancel_left, hl] at hr
    simp only [Bool.not_true, Bool.false_eq_true, if_false] at hr
    split at hr
    · rename_i ht0
      split at hr
      · rename_i bj hbj
        injection hr with hr
        subst hr
        refine ⟨rfl, rfl, fun e => absurd e ht0, fun _ => ⟨bj, ?_, hbj, rfl⟩, fun H => rfl⟩
        rw [← hjs t (Nat.le_refl _)]; exact hbj
      · cases hr
    · rename_i ht0
      injection hr with hr
      subst hr
      have : t = 0 := by
        by_cases e : t = 0
        · exact e
        · exact absurd e ht0
      exact ⟨this.symm ▸ rfl, rfl, fun _ => rfl, fun e => absurd this e, fun H => rfl⟩

/-! non-vacuity: a ledger at height 3 whose block changes the balance and nonce of account 1, deletes its key `k`, creates
its key `k2` and creates account 2 meets the hypotheses; the commit as height 4 and the rollback to 3 both succeed -/
section Example
def exI15 : Inner := { nonce := 1, balance := 5 }
def exI27 : Inner := { nonce := 2, balance := 7 }
def exI09 : Inner := { nonce := 0, balance := 9 }
def exBj3 : BlockJournal := { entries := [], root := "r3" }
def exDb : DB := { acct := [(1, exI15)], state := [((1, "k"), "v")], journals := [(3, exBj3)], minH := 3, maxH := 3 }
def exAcc1 : Acct := { originAcc := some exI15, dirtyAcc := some exI27, originState := [("k", some "v"), ("k2", none)], dirtyState := [("k", none), ("k2", some "w")] }
def exAcc2 : Acct := { dirtyAcc := some exI09 }
def exL : L := { accounts := [(1, exAcc1), (2, exAcc2)], db := exDb, minJ := 3, maxJ := 3, prevRoot := "r3" }
def exH : RootPre → String := fun _ => "r4"

example : (exL.accounts.map (·.1)).Nodup ∧ (∀ p ∈ exL.accounts, Coh exL.db p.1 (loadOrigin exL p.1 p.2)) := by
  refine ⟨by decide, ?_⟩
  intro p hp
  simp only [exL, List.mem_cons, List.mem_nil_iff, or_false] at hp
  rcases hp with rfl | rfl
  · refine ⟨by decide, ?_, by decide⟩
    intro q hq _
    have hd : (loadOrigin exL 1 exAcc1).dirtyState = [("k", none), ("k2", some "w")] := by decide
    rw [hd] at hq
    simp only [List.mem_cons, List.mem_nil_iff, or_false] at hq
    rcases hq with rfl | rfl <;> decide
  · refine ⟨by decide, ?_, by decide⟩
    intro q hq _
    have hd : (loadOrigin exL 2 exAcc2).dirtyState = [] := by decide
    rw [hd] at hq
    cases hq

example : ∃ l1 l2, commit (flush exH exL).1 (exL.maxJ + 1) (flush exH exL).2 = some l1 ∧ rollback l1 exL.maxJ = .ok l2 ∧
    l1.db.state = [((1, "k2"), "w")] ∧ l2.db.state = [((1, "k"), "v")] ∧ l2.db.acct = [(1, exI15)] := by
  refine ⟨_, _, rfl, rfl, ?_, ?_, ?_⟩ <;> decide
end Example

/-- the journal window the model prunes with is the one `Commit` is written with (the literal of `if height > N` and of
`removeJournalsBeforeBlock(height - N)`, extracted on every run) -/
theorem C12_journal_window_as_in_the_source : Bxh.Ledger.journalWindow = Bxh.Gen.journalWindow := by decide

end Bxh.Props.C12
