import Bxh.Gen.MapRanges
import Bxh.Model.Exec
/-!
# C01 — block execution is deterministic across replicas, runs and restarts

The Lean model of block execution is a function of (configuration, ledger, block): whatever the
correspondence run shows to agree with it is thereby deterministic.  What the model abstracts
away — Go's randomised map iteration, goroutine scheduling of proof / signature verification,
in-memory caches surviving or not surviving a restart — is covered in two ways.

1. `Bxh.Gen.mapRanges` is regenerated from /repo on every run: every `for … range <map>` of the
   block-execution packages with what its body does with the iteration order.  The table
   theorems below are re-checked against it: every loop whose body appends / builds a string is
   followed by a sort, and every loop that writes state or posts events is one of the reviewed
   ones (each writes under a key derived from the map key, so the order cannot matter).  A new
   order-dependent loop breaks one of them.  (Three such loops were genuine defects and were
   repaired: the notify lists of a failed group, the children of a timed-out group.)
2. The correspondence run executes every history on three replicas with different local tuning,
   one of which is stopped and reopened at random places, and compares every block line.
-/
namespace Bxh.Props.C01
open Bxh.Gen

/-- loops that append in map order without a later sort, reviewed one by one:
* `registerBoltContracts` collects the registered contracts into a slice that is immediately turned into a map;
* `BeginMultiTXs` loop 1 fills `StatusChange.ChildIBTPIDs`, which the interchain contract reads only for receipts (where
  `Report` builds it sorted); for a request it is unused;
* `SimpleLedger.Logs` serves the log query API, not block execution. -/
def reviewedUnsortedAppends : List (String × String × Nat) := [
  ("internal/executor", "BlockExecutor.registerBoltContracts", 0),
  ("internal/executor/contracts", "TransactionManager.BeginMultiTXs", 1),
  ("internal/ledger", "SimpleLedger.Logs", 0)]

/-- loops that write state / call other contracts per map entry, each under a key derived from the map key -/
def reviewedWriters : List (String × String × Nat) := [
  ("internal/executor", "BlockExecutor.setTimeoutList", 0), ("internal/executor", "BlockExecutor.setTimeoutList", 1),
  ("internal/executor/contracts", "AppchainManager.checkInfo", 0),
  ("internal/executor/contracts", "DappManager.freeContractAddr", 0), ("internal/executor/contracts", "DappManager.occupyContractAddr", 0),
  ("internal/executor/contracts", "GovStrategy.Manage", 0), ("internal/executor/contracts", "NodeManager.checkNodeInfo", 0),
  ("internal/ledger", "AccountCache.add", 0), ("internal/ledger", "SimpleLedger.Commit", 0), ("internal/ledger", "revertJournal", 0)]

def key (m : MapRange) : String × String × Nat := (m.pkg, m.func, m.n)

/-- **every order-carrying map loop is sorted afterwards** (or is one of the three reviewed ones) -/
theorem C01_appending_map_loops_are_sorted :
    mapRanges.all (fun m => !m.appends || m.sorted || reviewedUnsortedAppends.contains (key m)) = true := by decide +kernel

/-- **every state-writing map loop is a reviewed one** -/
theorem C01_writing_map_loops_are_reviewed :
    mapRanges.all (fun m => m.calls.isEmpty || reviewedWriters.contains (key m)) = true := by decide +kernel

/-- the reviewed lists contain nothing stale: each entry still names a loop of the current source -/
theorem C01_reviewed_entries_exist :
    (reviewedUnsortedAppends ++ reviewedWriters).all (fun k => mapRanges.any (fun m => key m == k)) = true := by decide +kernel

/-- the three loops repaired by `fix:` commits are in the table and sorted now -/
theorem C01_repaired_loops_sorted :
    (mapRanges.filter (fun m => (m.func == "TransactionManager.Report" || m.func == "BlockExecutor.getTimeoutIBTPsMap" ||
        (m.func == "TransactionManager.BeginMultiTXs" && m.n == 0)) && m.appends)).all (·.sorted) = true ∧
    (mapRanges.filter (fun m => m.func == "BlockExecutor.getTimeoutIBTPsMap" && m.appends)).length = 1 := by decide +kernel

open Bxh Bxh.Exec in
/-- the model of block execution is a function: two replicas that start from the same ledger and
execute the same block compute the same node state and the same block results (trivial for a
Lean function; stated so that the claim "agreement with the model ⇒ determinism" is explicit) -/
theorem C01_model_is_a_function (cfg : Cfg) (n₁ n₂ : Node) (txs₁ txs₂ : List (Tx × Bool))
    (hn : n₁ = n₂) (ht : txs₁ = txs₂) : execBlock cfg n₁ txs₁ = execBlock cfg n₂ txs₂ := by
  subst hn; subst ht; rfl

/-! ### the executor's service cache -/
open Bxh Bxh.Exec

/-- the service record as the ledger has it -/
def svcOfLedger (l : Led) (chain sid : String) : Option Svc :=
  match l.getS (.svc chain sid) with
  | some (.svc s) => some s
  | _ => none

/-- a cache is coherent with a ledger when every cached service record is the ledger's record -/
def Coherent (l : Led) (cache : KV (String × String) Svc) : Prop :=
  ∀ ch sid s, KV.get cache (ch, sid) = some s → l.getS (.svc ch sid) = some (.svc s)

theorem getSvc_coherent (l : Led) (cache : KV (String × String) Svc) (h : Coherent l cache) (ch sid : String) :
    getSvc l cache ch sid = svcOfLedger l ch sid := by
  unfold getSvc svcOfLedger
  cases hc : KV.get cache (ch, sid) with
  | none => rfl
  | some s => simp [h ch sid s hc]

theorem checkTarget_coherent (env : Env) (l : Led) (src dst : SvcId) (h : Coherent l env.cache) :
    checkTarget env l src dst = checkTarget { env with cache := [] } l src dst := by
  unfold checkTarget isLocal
  simp only [getSvc_coherent l env.cache h, getSvc_coherent l [] (fun _ _ _ hc => by simp [KV.get] at hc)]

/-- **a coherent service cache is invisible**: whatever the executor has cached about services —
everything after a long run, nothing after a restart — `checkIBTP` (the only reader of the cache)
decides the same, as long as what is cached equals the ledger's records.  (That the real cache
stays coherent is what the replica-with-restart run checks.) -/
theorem C01_coherent_cache_invisible (env : Env) (l : Led) (i : Ibtp) (h : Coherent l env.cache) :
    checkIBTP env l i = checkIBTP { env with cache := [] } l i := by
  unfold checkIBTP
  have hnil : Coherent l ([] : KV (String × String) Svc) := fun _ _ _ hc => by simp [KV.get] at hc
  simp only [getSvc_coherent l env.cache h, getSvc_coherent l [] hnil, checkTarget_coherent env l _ _ h, isLocal]
  rfl

end Bxh.Props.C01
