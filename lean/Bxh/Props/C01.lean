import Bxh.Model.Exec
namespace Bxh.Props.C01
theorem C01_placeholder : True := trivial
end Bxh.Props.C01
