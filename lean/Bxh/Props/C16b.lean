import Bxh.Model.Lifecycle
import Bxh.Gen.Cascade
import Bxh.Gen.SubmissionCascade
import Bxh.Gen.ServiceRepause
/-!
# C16 — "an approved freeze or logout of an appchain makes all its services unusable for interchain": the cascade, at the dispatch level

`AppchainManager.Manage` runs when a proposal about an appchain concludes.  Which contract-to-contract calls it makes, per proposal
result and event, is extracted from the source on every run (`Gen.appchainCascade`), next to the life-cycle table of appchains
(`Gen.lifecycle_appchain`) and their available statuses.  What the called methods do to each service is decided on the real node
(cascade monitor of the C16 check).
-/
namespace Bxh.Props.C16
open Bxh Bxh.Lifecycle

def cascadeOf (result ev : String) : List String :=
  ((Bxh.Gen.appchainCascade.find? (fun r => r.1 == result && r.2.1 == ev)).map (·.2.2)).getD []

/-- an approved freeze takes the chain from `freezing` to a status that is not available and pauses the chain's services; an
approved logout takes it from `logouting` to a status that is not available, clears its services and its rules -/
theorem C16_approved_freeze_and_logout_cascade :
    (∃ st, step (tableOf "appchain") "freezing" "approve" "available" = some st ∧ isAvailable "appchain" st = false) ∧
    "PauseChainService" ∈ cascadeOf "approve" "freeze" ∧
    (∃ st, step (tableOf "appchain") "logouting" "approve" "available" = some st ∧ isAvailable "appchain" st = false) ∧
    "ClearChainService" ∈ cascadeOf "approve" "logout" ∧ "ClearRule" ∈ cascadeOf "approve" "logout" := by decide

/-- the services of a chain are released again only by an approved activation or a rejected logout — no other conclusion of a
proposal about an appchain un-pauses them -/
theorem C16_services_released_only_by_activation_or_rejected_logout :
    ∀ r ∈ Bxh.Gen.appchainCascade, "UnPauseChainService" ∈ r.2.2 →
      (r.1 = "approve" ∧ r.2.1 = "activate") ∨ (r.1 = "reject" ∧ r.2.1 = "logout") := by decide

/-- … and an approved freeze or logout never releases them -/
theorem C16_freeze_and_logout_never_release :
    "UnPauseChainService" ∉ cascadeOf "approve" "freeze" ∧ "UnPauseChainService" ∉ cascadeOf "approve" "logout" := by decide

/-- **while the operation is pending**: a logout request takes an appchain to `logouting`, an update request to `updating` — neither
is an available status — and both entries pause the chain's services themselves, on every successful path (nesting depth 0 in the
extracted call list: no `if` decides whether the cascade runs); a freeze request leaves the chain usable (`freezing` is an available
status) and pauses nothing -/
theorem C16_pending_logout_and_update_pause_unconditionally :
    (∃ st, step (tableOf "appchain") "available" "logout" "available" = some st ∧ isAvailable "appchain" st = false) ∧
    ("LogoutAppchain", "PauseChainService", 0) ∈ Bxh.Gen.appchainSubmissionCascade ∧
    (∃ st, step (tableOf "appchain") "available" "update" "available" = some st ∧ isAvailable "appchain" st = false) ∧
    ("UpdateAppchain", "PauseChainService", 0) ∈ Bxh.Gen.appchainSubmissionCascade ∧
    (∃ st, step (tableOf "appchain") "available" "freeze" "available" = some st ∧ isAvailable "appchain" st = true) ∧
    (∀ r ∈ Bxh.Gen.appchainSubmissionCascade, r.1 = "FreezeAppchain" → r.2.1 ≠ "PauseChainService") := by decide

/-- a rejected logout, freeze or activation of a service re-pauses the service when its appchain is not available (fix: 5ad5e72f);
extracted from the rejected branch of `ServiceManager.Manage` on every run -/
theorem C16_rejected_service_operations_repause :
    ("logout", true) ∈ Bxh.Gen.serviceRejectRepause ∧ ("freeze", true) ∈ Bxh.Gen.serviceRejectRepause ∧
    ("activate", true) ∈ Bxh.Gen.serviceRejectRepause := by decide

/-- **the recorded finding as a kernel-checked fact about the source as it is**: a rejected UPDATE of a service that is `logouting` by then
(a later logout request paused the update proposal) restores the status the update proposal remembers (`reject` from `logouting`
leads to `<last>` in the life-cycle table: `available`) and does NOT re-pause the service under an
unavailable appchain (`known_findings.json`: C16/service-usable-on-unusable-appchain/after-rejected-update; witness
`corpus/exec/c16-withdrawn-update-revives-service-under-frozen-chain.ops`).  When the code is repaired this theorem stops checking, and
the finding has to be taken off the list. -/
theorem C16_rejected_update_does_not_repause_finding :
    ("update", false) ∈ Bxh.Gen.serviceRejectRepause ∧
    step (tableOf "service") "logouting" "reject" "available" = some "available" := by decide

end Bxh.Props.C16
