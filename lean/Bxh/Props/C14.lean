import Bxh.Proofs.ExecLemmas
import Bxh.Proofs.ExecSupply
import Bxh.Proofs.ExecFees
/-!
# C14 — transfers and fees never create value
Theorems about `transfer`, `payGasFee`, `payLeftAsGasFee`, `payAdmins` of `Bxh.Exec`
(model of the functions of the same names in `internal/executor/handle.go`).
Balances are `Int`; the sum is taken over any finite list of distinct accounts that contains the
accounts involved.
-/
namespace Bxh.Props.C14
open Bxh Bxh.Exec

/-- total balance over a list of accounts -/
def total (l : Led) (accts : List String) : Int := (accts.map l.getBal).foldl (· + ·) 0

theorem getBal_setBal (l : Led) (a b : String) (v : Int) :
    (l.setBal a v).getBal b = if a = b then v else l.getBal b := by
  simp only [Led.getBal, Led.setBal, KV.getD, KV.get_set]
  split <;> simp

/-- **exact transfer**: a successful transfer between two different accounts debits the sender by
exactly `v`, credits the receiver by exactly `v` and touches no other balance; it needs `0 < v ≤ balance` -/
theorem C14_transfer_exact (l l' : Led) (a b : String) (v : Int) (hab : a ≠ b) (hv : v ≠ 0)
    (h : transfer l a b v = .ok l') :
    0 < v ∧ v ≤ l.getBal a ∧ l'.getBal a = l.getBal a - v ∧ l'.getBal b = l.getBal b + v ∧
    ∀ c, c ≠ a → c ≠ b → l'.getBal c = l.getBal c := by
  unfold transfer at h
  simp only [hv, if_false] at h
  split at h
  · cases h
  · split at h
    · cases h
    · cases h
      have hab' : ¬ b = a := fun e => hab e.symm
      refine ⟨by omega, by omega, ?_, ?_, ?_⟩
      · simp [getBal_setBal, hab']
      · simp [getBal_setBal, hab]
      · intro c hca hcb
        have h1 : ¬ a = c := fun e => hca e.symm
        have h2 : ¬ b = c := fun e => hcb e.symm
        simp [getBal_setBal, h1, h2]

/-- a self-transfer changes no balance (it used to credit `v`; repaired by a `fix:` commit) -/
theorem C14_self_transfer_neutral (l l' : Led) (a : String) (v : Int) (h : transfer l a a v = .ok l') :
    ∀ c, l'.getBal c = l.getBal c := by
  unfold transfer at h
  split at h
  · cases h; intro c; rfl
  · split at h
    · cases h
    · split at h
      · cases h
      · cases h
        intro c
        by_cases hc : a = c
        · subst hc; simp [getBal_setBal]
        · simp [getBal_setBal, hc]

/-- a failed transfer has no ledger at all (no effect); it fails exactly when the amount is
negative or exceeds the sender's balance -/
theorem C14_transfer_fails_iff (l : Led) (a b : String) (v : Int) :
    (∃ e, transfer l a b v = .error e) ↔ (v < 0 ∨ (0 < v ∧ l.getBal a < v)) := by
  unfold transfer
  constructor
  · rintro ⟨e, h⟩
    split at h
    · cases h
    · split at h
      · left; assumption
      · split at h
        · right; constructor <;> omega
        · cases h
  · rintro (h | ⟨h1, h2⟩)
    · have : ¬ v = 0 := by omega
      simp [this, h]
    · have : ¬ v = 0 := by omega
      have h3 : ¬ v < 0 := by omega
      simp [this, h3, h2]

/-- **no negative balance**: transfer keeps every balance non-negative -/
theorem C14_transfer_nonneg (l l' : Led) (a b : String) (v : Int) (h : transfer l a b v = .ok l')
    (hnn : ∀ c, 0 ≤ l.getBal c) : ∀ c, 0 ≤ l'.getBal c := by
  unfold transfer at h
  split at h
  · cases h; exact hnn
  · split at h
    · cases h
    · split at h
      · cases h
      · cases h
        intro c
        have ha := hnn a
        have hb := hnn b
        have hc := hnn c
        by_cases h1 : b = c
        · by_cases h2 : a = b
          · subst h2; subst h1; simp [getBal_setBal]; omega
          · subst h1; simp [getBal_setBal, h2]; omega
        · by_cases h2 : a = c
          · subst h2; simp [getBal_setBal, h1]; omega
          · simp [getBal_setBal, h1, h2]; omega

/-- **fee rounding**: what `payAdmins` distributes is `n · ⌊fees / n⌋`: at most `fees`, and short
of it by at most `n − 1` units -/
theorem C14_fee_rounding (n : Nat) (fees : Int) (hn : 0 < n) (hf : 0 ≤ fees) :
    0 ≤ fees - (n : Int) * (fees / (n : Int)) ∧ fees - (n : Int) * (fees / (n : Int)) ≤ (n : Int) - 1 := by
  have hpos : (0 : Int) < n := by exact_mod_cast hn
  have h1 := Int.emod_nonneg fees (Int.ne_of_gt hpos)
  have h2 := Int.emod_lt_of_pos fees hpos
  have h3 := Int.mul_ediv_add_emod fees n
  constructor <;> omega

/-- the fee step never makes the sender's balance negative: it either debits `fees ≤ balance`
or (fallback) sets the balance to zero -/
theorem C14_payGasFee_sender_nonneg (cfg : Cfg) (l l' : Led) (s : String) (g : Nat)
    (h : payGasFee cfg l s g = some l') (hs : s ∉ cfg.admins) :
    l'.getBal s = l.getBal s - ((g * cfg.price : Nat) : Int) ∧ 0 ≤ l'.getBal s := by
  unfold payGasFee at h
  simp only at h
  split at h
  · cases h
  · cases h
    have key : ∀ (as : List String) (l0 : Led), s ∉ as →
        (as.foldl (fun l a => l.setBal a (l.getBal a + ((g * cfg.price : Nat) : Int) / (cfg.admins.length : Int))) l0).getBal s = l0.getBal s := by
      intro as
      induction as with
      | nil => intro l0 _; rfl
      | cons a rest ih =>
        intro l0 hmem
        simp only [List.foldl_cons]
        rw [ih _ (fun hm => hmem (List.mem_cons_of_mem _ hm))]
        have : ¬ a = s := fun e => hmem (by rw [e]; exact List.mem_cons_self)
        simp [getBal_setBal, this]
    unfold payAdmins
    rw [key cfg.admins _ hs]
    simp [getBal_setBal]
    omega

-- ------------------------------------------------------------------------------------ block and history level
/-- **over any block the sum of the balances does not grow** (and no balance becomes negative): for every block — transfers of
any amount, IBTPs and contract calls that succeed or fail at any stage, fee payments that succeed or fall back to the
sender's whole balance, the timeout bookkeeping — and every list of distinct accounts that contains the senders of the
block's transactions (value may leave the list towards other receivers or admins, it never enters it from nowhere) -/
theorem C14_block_no_value_created (cfg : Cfg) (n : Node) (txs : List (Tx × Bool)) (accts : List String)
    (hnd : accts.Nodup) (hs : ∀ p ∈ txs, p.1.sender ∈ accts) (hn : NonNeg n.led) :
    Exec.total (execBlock cfg n txs).1.led accts ≤ Exec.total n.led accts ∧ NonNeg (execBlock cfg n txs).1.led :=
  execBlock_total cfg n txs accts hnd hs hn

/-- a chain of blocks -/
def runBlocks (cfg : Cfg) (n : Node) (blocks : List (List (Tx × Bool))) : Node :=
  blocks.foldl (fun n b => (execBlock cfg n b).1) n

/-- **and over any history of blocks** -/
theorem C14_history_no_value_created (cfg : Cfg) (blocks : List (List (Tx × Bool))) (n : Node) (accts : List String)
    (hnd : accts.Nodup) (hs : ∀ b ∈ blocks, ∀ p ∈ b, p.1.sender ∈ accts) (hn : NonNeg n.led) :
    Exec.total (runBlocks cfg n blocks).led accts ≤ Exec.total n.led accts ∧ NonNeg (runBlocks cfg n blocks).led := by
  unfold runBlocks
  induction blocks generalizing n with
  | nil => exact ⟨Int.le_refl _, hn⟩
  | cons b rest ih =>
    simp only [List.foldl_cons]
    obtain ⟨h1, h2⟩ := execBlock_total cfg n b accts hnd (hs b (List.mem_cons_self ..)) hn
    obtain ⟨h3, h4⟩ := ih (execBlock cfg n b).1 (fun b' hb' => hs b' (List.mem_cons_of_mem _ hb')) h2
    exact ⟨Int.le_trans h3 h1, h4⟩

/-- the two notions of total in this file agree -/
theorem total_eq (l : Led) (accts : List String) : Exec.total l accts = total l accts := rfl

/-- non-vacuity: a block with a transfer, a self-transfer, a negative amount, a transfer that cannot pay its fee and
a failing contract call, over all accounts involved -/
example :
    let l : Led := { bal := [("u0", 1000000), ("u1", 30000), ("adm0", 5), ("adm1", 5), ("adm2", 5), ("adm3", 5)] }
    let n : Node := { led := l, height := 6 }
    let txs : List (Tx × Bool) := [(.xfer "u0" "u1" (some 7), true), (.xfer "u0" "u0" (some 5), true), (.xfer "u0" "u1" (some (-3)), true),
                                   (.xfer "u1" "u0" (some 20000), true), (.bvm "u0" "txmgr" "GetStatus" [], false)]
    let accts := ["u0", "u1", "adm0", "adm1", "adm2", "adm3"]
    -- the fourth transaction cannot pay its fee: reverted, u1's whole balance (30007) goes to the four admins, 3 units of rounding are lost
    Exec.total l accts = 1030020 ∧ Exec.total (execBlock {} n txs).1.led accts = 1030017 ∧ (execBlock {} n txs).1.led.getBal "u1" = 0 := by
  decide

/-! ### the fee reaches the admins (the other direction: nothing but the rounding of the split is lost) -/

/-- **a fee that can be paid reaches the admins with at most `n − 1` units of rounding loss**: over any list of distinct accounts
that contains the sender and all admins — whoever the sender is, one of the admins too -/
theorem C14_paid_fee_reaches_admins (cfg : Cfg) (l l' : Led) (s : String) (g : Nat) (e : payGasFee cfg l s g = some l')
    (accts : List String) (hnd : accts.Nodup) (hs : s ∈ accts) (hadm : ∀ a ∈ cfg.admins, a ∈ accts) (hn : 0 < cfg.admins.length) :
    Exec.total l accts - ((cfg.admins.length : Int) - 1) ≤ Exec.total l' accts :=
  payGasFee_total_ge e accts hnd hs hadm hn

/-- **a sender that cannot cover the fee loses its whole remaining balance, and that too reaches the admins with at most `n − 1`
units of rounding loss — also when the sender is itself one of the admins** (it is emptied first and then receives its share;
emptying it after the split would destroy its share) -/
theorem C14_unpayable_fee_reaches_admins (cfg : Cfg) (l : Led) (s : String)
    (accts : List String) (hnd : accts.Nodup) (hs : s ∈ accts) (hadm : ∀ a ∈ cfg.admins, a ∈ accts) (hn : 0 < cfg.admins.length) :
    Exec.total l accts - ((cfg.admins.length : Int) - 1) ≤ Exec.total (payLeftAsGasFee cfg l s) accts :=
  payLeft_total_ge cfg l s accts hnd hs hadm hn

/-- **one transaction destroys at most the rounding of its fee**, whatever it is (transfer inside the account list, IBTP,
contract call), whether it succeeds, fails or cannot pay, whoever sends it -/
theorem C14_tx_loss_bound (env : Env) (l : Led) (tx : Tx) (inv : Option String)
    (accts : List String) (hnd : accts.Nodup) (hs : tx.sender ∈ accts) (hr : recvIn tx accts)
    (hadm : ∀ a ∈ env.cfg.admins, a ∈ accts) (hn : 0 < env.cfg.admins.length) :
    Exec.total l accts - ((env.cfg.admins.length : Int) - 1) ≤ Exec.total (applyTx env l tx inv).1 accts :=
  applyTx_total_ge env l tx inv accts hnd hs hr hadm hn

/-- **over any block at most `n − 1` units per transaction leave the accounts** (senders, receivers and admins inside the list):
together with `C14_block_no_value_created` the sum of all balances moves within `[−(n−1)·|txs|, 0]` per block -/
theorem C14_block_loss_bound (cfg : Cfg) (n : Node) (txs : List (Tx × Bool)) (accts : List String) (hnd : accts.Nodup)
    (hs : ∀ p ∈ txs, p.1.sender ∈ accts) (hr : ∀ p ∈ txs, recvIn p.1 accts)
    (hadm : ∀ a ∈ cfg.admins, a ∈ accts) (hn : 0 < cfg.admins.length) :
    Exec.total n.led accts - (txs.length : Int) * ((cfg.admins.length : Int) - 1) ≤ Exec.total (execBlock cfg n txs).1.led accts :=
  execBlock_total_ge cfg n txs accts hnd hs hr hadm hn

/-- non-vacuity: the admin `adm1` holds 1002 and cannot pay the fee of its transfer (21000): the 1002 are split 250 each, `adm1`
keeps its own share of 250, two units of rounding are lost — the bound `n − 1 = 3` is met -/
example :
    let l : Led := { bal := [("u0", 10), ("adm0", 5), ("adm1", 1002), ("adm2", 5), ("adm3", 5)] }
    let n : Node := { led := l, height := 6 }
    let accts := ["u0", "adm0", "adm1", "adm2", "adm3"]
    let r := (execBlock {} n [(.xfer "adm1" "u0" (some 1), true)]).1.led
    Exec.total l accts = 1027 ∧ Exec.total r accts = 1025 ∧ r.getBal "adm1" = 250 ∧ r.getBal "adm0" = 255 := by
  decide

end Bxh.Props.C14
