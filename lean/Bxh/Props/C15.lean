import Bxh.Model.Gov
import Bxh.Proofs.GovTable
/-!
# C15 — proposals conclude only by their voting rule, once, with one vote per admin

Theorems about `Bxh.Gov` (the decision function of `MakeStrategyDecision` and the ballot state
machine of `Governance.Vote` / `setVote` / `countVote` / `endProposal`), for every proposal state,
voter, ballot and strategy expression of the modelled fragment.
-/
namespace Bxh.Props.C15
open Bxh.Gov

/-- bookkeeping invariant of a proposal: one ballot per voter, every voter is in the electorate
frozen at submission, and the tallies are exactly the numbers of approve / reject ballots -/
structure WF (p : Proposal) : Prop where
  nodup : (p.ballots.map (·.1)).Nodup
  eligible : ∀ b ∈ p.ballots, (p.electorate.find? (·.1 == b.1)).isSome
  approves : p.approveNum = (p.ballots.filter (fun b => b.2 = .approve)).length
  againsts : p.againstNum = (p.ballots.filter (fun b => b.2 = .reject)).length

theorem wf_new (el : List (String × Nat)) (n a : Nat) (e : Expr) (sp : Bool) :
    WF { electorate := el, initial := n, available := a, expr := e, special := sp } :=
  ⟨by simp, by simp, by simp, by simp⟩

/-- what an accepted ballot does, and when it is accepted -/
theorem setVote_ok {p p' : Proposal} {voter : String} {b : Option Ballot} (h : setVote p voter b = .ok p') :
    p.status = .proposed ∧ (p.electorate.find? (·.1 == voter)).isSome ∧
    (p.ballots.find? (·.1 == voter)).isNone ∧
    ∃ bb, b = some bb ∧ p'.ballots = p.ballots ++ [(voter, bb)] ∧
      p'.approveNum = (if bb = .approve then p.approveNum + 1 else p.approveNum) ∧
      p'.againstNum = (if bb = .reject then p.againstNum + 1 else p.againstNum) ∧
      p'.status = p.status ∧ p'.electorate = p.electorate ∧ p'.expr = p.expr ∧ p'.initial = p.initial ∧
      p'.available = p.available ∧ p'.special = p.special := by
  unfold setVote at h
  split at h
  · cases h
  · rename_i hst
    split at h
    · cases h
    · rename_i e he
      split at h
      · cases h
      · rename_i hrep
        split at h
        · cases h
        · rename_i bb
          cases h
          have hnone : (p.ballots.find? (·.1 == voter)).isNone = true := by
            cases hf : p.ballots.find? (·.1 == voter) with
            | none => rfl
            | some x => simp [hf] at hrep
          refine ⟨by simpa using hst, by simp [he], hnone, bb, rfl, rfl, rfl, rfl, rfl, rfl, rfl, rfl, rfl, rfl⟩

theorem countVote_fields (p : Proposal) :
    (countVote p).ballots = p.ballots ∧ (countVote p).approveNum = p.approveNum ∧ (countVote p).againstNum = p.againstNum ∧
    (countVote p).electorate = p.electorate ∧ (countVote p).expr = p.expr ∧ (countVote p).initial = p.initial ∧
    (countVote p).available = p.available ∧ (countVote p).superVoted = p.superVoted ∧ (countVote p).special = p.special := by
  unfold countVote
  split
  · simp
  · split <;> simp

theorem decide_approved_iff (e : Expr) (a r t av : Nat) : Gov.decide e a r t av = .approved ↔ e.eval a r t = true := by
  unfold Gov.decide
  by_cases h : e.eval a r t = true
  · simp [h]
  · simp only [h, if_false, false_iff, Bool.false_eq_true]
    split <;> simp

theorem decide_rejected_iff (e : Expr) (a r t av : Nat) :
    Gov.decide e a r t av = .rejected ↔ (e.eval a r t = false ∧ e.eval (maxApprove av r) r t = false) := by
  unfold Gov.decide
  by_cases h : e.eval a r t = true
  · simp [h]
  · by_cases h2 : e.eval (maxApprove av r) r t = true
    · simp [h, h2]
    · simp [h, h2]

theorem countVote_status (p : Proposal) :
    (countVote p).status =
      if (p.special && !p.superVoted) = true then p.status
      else match Gov.decide p.expr p.approveNum p.againstNum p.initial p.available with
        | .approved => .approved
        | .rejected => .rejected
        | .open => p.status := by
  unfold countVote
  split
  · rfl
  · split <;> simp_all

/-- **one vote per administrator, by eligible administrators only**: an accepted vote comes from an
available governance admin of the electorate frozen at submission who has no ballot yet; it adds
exactly that ballot, and the bookkeeping invariant is kept (so each admin counts at most once and
the tallies are the ballot counts) -/
theorem C15_one_vote_per_admin (p p' : Proposal) (voter : String) (adm : Bool) (b : Option Ballot)
    (hwf : WF p) (h : vote p voter adm b = .ok p') :
    adm = true ∧ (p.electorate.find? (·.1 == voter)).isSome ∧ voter ∉ p.ballots.map (·.1) ∧
    (∃ bb, b = some bb ∧ p'.ballots = p.ballots ++ [(voter, bb)]) ∧ WF p' := by
  unfold vote at h
  split at h
  · cases h
  · rename_i hadm
    split at h
    · cases h
    · rename_i p1 hsv
      cases h
      obtain ⟨_, hel, hnew, bb, hb, hbal, happ, hag, _, hele, _, _, _, _⟩ := setVote_ok hsv
      obtain ⟨cb, ca, cg, ce, _⟩ := countVote_fields p1
      have hnotin : voter ∉ p.ballots.map (·.1) := by
        intro hm
        rw [List.mem_map] at hm
        obtain ⟨x, hx, hxe⟩ := hm
        have : (p.ballots.find? (·.1 == voter)).isSome := by
          rw [List.find?_isSome]
          exact ⟨x, hx, by simp [hxe]⟩
        simp [Option.isNone_iff_eq_none.mp hnew] at this
      refine ⟨by simpa using hadm, hel, hnotin, ⟨bb, hb, by rw [cb, hbal]⟩, ?_⟩
      constructor
      · rw [cb, hbal, List.map_append, List.nodup_append]
        refine ⟨hwf.nodup, by simp, ?_⟩
        intro a ha c hc
        simp only [List.map_cons, List.map_nil, List.mem_singleton] at hc
        subst hc
        intro hac; subst hac; exact hnotin ha
      · intro x hx
        rw [cb, hbal, List.mem_append] at hx
        rw [ce, hele]
        rcases hx with hx | hx
        · exact hwf.eligible x hx
        · simp only [List.mem_singleton] at hx
          subst hx; exact hel
      · rw [ca, cb, happ, hbal, List.filter_append, List.length_append, ← hwf.approves]
        cases bb <;> simp
      · rw [cg, cb, hag, hbal, List.filter_append, List.length_append, ← hwf.againsts]
        cases bb <;> simp

/-- **refusals**: a vote is refused for a caller the role contract does not confirm as an available
governance admin, for an admin outside the frozen electorate, for a second ballot of the same
admin, on a proposal that is not open, and for a ballot that is neither approve nor reject; a
refused vote returns no proposal at all (nothing is changed) -/
theorem C15_refusals (p : Proposal) (voter : String) (b : Option Ballot) :
    vote p voter false b = .error .notAvailableAdmin ∧
    (p.status ≠ .proposed → vote p voter true b = .error .ended) ∧
    (p.status = .proposed → p.electorate.find? (·.1 == voter) = none → vote p voter true b = .error .noPermission) ∧
    (p.status = .proposed → (p.electorate.find? (·.1 == voter)).isSome → (p.ballots.find? (·.1 == voter)).isSome →
      vote p voter true b = .error .repeatVote) := by
  refine ⟨rfl, ?_, ?_, ?_⟩
  · intro h; simp [vote, setVote, h]
  · intro h1 h2; simp [vote, setVote, h1, h2]
  · intro h1 h2 h3
    obtain ⟨e, he⟩ := Option.isSome_iff_exists.mp h2
    simp [vote, setVote, h1, he, h3]

/-- **approved only by the rule**: a vote concludes a proposal as approved only when the recorded
strategy expression holds on the tallies of distinct eligible approvals / rejections and the
electorate size at creation -/
theorem C15_approved_only_if_rule (p p' : Proposal) (voter : String) (adm : Bool) (b : Option Ballot)
    (h : vote p voter adm b = .ok p') (ha : p'.status = .approved) :
    p.status = .proposed ∧ p'.expr.eval p'.approveNum p'.againstNum p'.initial = true := by
  unfold vote at h
  split at h
  · cases h
  · split at h
    · cases h
    · rename_i p1 hsv
      cases h
      obtain ⟨hst, _, _, _, _, _, _, _, hst1, _⟩ := setVote_ok hsv
      refine ⟨hst, ?_⟩
      obtain ⟨_, ca, cg, _, cx, ci, _⟩ := countVote_fields p1
      rw [cx, ca, cg, ci]
      rw [countVote_status] at ha
      split at ha
      · rw [hst1, hst] at ha; cases ha
      · cases hd : Gov.decide p1.expr p1.approveNum p1.againstNum p1.initial p1.available with
        | approved => exact (decide_approved_iff _ _ _ _ _).mp hd
        | rejected => rw [hd] at ha; cases ha
        | «open» => rw [hd] at ha; simp only at ha; rw [hst1, hst] at ha; cases ha

/-- **rejected by the tally only when approval is unreachable**: a vote concludes a proposal as
rejected only when the expression fails on the tallies and would still fail if every available
elector who has not rejected approved (`maxApprove`: available − rejections, as an unsigned 64-bit
difference like in the code) -/
theorem C15_rejected_only_if_unreachable (p p' : Proposal) (voter : String) (adm : Bool) (b : Option Ballot)
    (h : vote p voter adm b = .ok p') (hr : p'.status = .rejected) :
    p'.expr.eval p'.approveNum p'.againstNum p'.initial = false ∧
    p'.expr.eval (maxApprove p'.available p'.againstNum) p'.againstNum p'.initial = false := by
  unfold vote at h
  split at h
  · cases h
  · split at h
    · cases h
    · rename_i p1 hsv
      cases h
      obtain ⟨hst, _, _, _, _, _, _, _, hst1, _⟩ := setVote_ok hsv
      obtain ⟨_, ca, cg, _, cx, ci, cav, _⟩ := countVote_fields p1
      rw [cx, ca, cg, ci, cav]
      rw [countVote_status] at hr
      split at hr
      · rw [hst1, hst] at hr; cases hr
      · cases hd : Gov.decide p1.expr p1.approveNum p1.againstNum p1.initial p1.available with
        | approved => rw [hd] at hr; cases hr
        | rejected => exact (decide_rejected_iff _ _ _ _ _).mp hd
        | «open» => rw [hd] at hr; simp only at hr; rw [hst1, hst] at hr; cases hr

/-- **a special proposal waits for a super administrator**: as long as no ballot of a
super-administrator (weight 2) is recorded, a vote leaves a special proposal open -/
theorem C15_special_needs_super_admin (p p' : Proposal) (voter : String) (adm : Bool) (b : Option Ballot)
    (h : vote p voter adm b = .ok p') (hs : p.special = true) (hnv : p'.superVoted = false) :
    p'.status = .proposed := by
  unfold vote at h
  split at h
  · cases h
  · split at h
    · cases h
    · rename_i p1 hsv
      cases h
      obtain ⟨hst, _, _, _, _, _, _, _, hst1, _, _, _, _, hsp⟩ := setVote_ok hsv
      obtain ⟨_, _, _, _, _, _, _, csv, _⟩ := countVote_fields p1
      rw [csv] at hnv
      rw [countVote_status]
      simp [hsp, hs, hnv, hst1, hst]

/-- **finality**: an approved or rejected proposal refuses every further vote and every forced end
(withdrawal, end by a manager); nothing of it can change again through these entry points -/
theorem C15_finality (p : Proposal) (voter : String) (adm : Bool) (b : Option Ballot)
    (h : p.status = .approved ∨ p.status = .rejected) :
    (vote p voter adm b = .error .ended ∨ vote p voter adm b = .error .notAvailableAdmin) ∧ endProposal p = none := by
  refine ⟨?_, by simp [endProposal, h]⟩
  cases adm
  · right; rfl
  · left
    have : p.status ≠ .proposed := by rcases h with h | h <;> simp [h]
    simp [vote, setVote, this]

/-- the decision never approves and rejects at once, and with the default strategy a proposal
of `t` electors is approved exactly when more than half of them approved -/
theorem C15_simple_majority (a r t av : Nat) :
    Gov.decide simpleMajority a r t av = .approved ↔ 2 * a > t := by
  unfold Gov.decide simpleMajority Expr.eval Op.holds Lin.eval
  simp only [Int.zero_add, Int.mul_zero, Int.add_zero, Int.zero_mul]
  constructor
  · intro h
    split at h
    · rename_i hc
      simp only [decide_eq_true_eq] at hc
      omega
    · split at h <;> cases h
  · intro h
    have : (10 : Int) * (a : Int) > 5 * (t : Int) := by omega
    simp [this]

/-- non-vacuity: four electors (one super admin), simple majority; three approvals conclude, a
fourth vote and a repeated vote are refused -/
example :
    let p0 : Proposal := { electorate := [("adm0", 2), ("adm1", 1), ("adm2", 1), ("adm3", 1)], initial := 4, available := 4, expr := simpleMajority }
    (match vote p0 "adm1" true (some .approve) with
      | .ok p1 => (match vote p1 "adm1" true (some .approve) with | .error .repeatVote => true | _ => false) &&
        (match vote p1 "adm2" true (some .approve) with
          | .ok p2 => p2.status == .proposed &&
            (match vote p2 "adm3" true (some .approve) with
              | .ok p3 => p3.status == .approved && (match vote p3 "adm0" true (some .reject) with | .error .ended => true | _ => false)
              | _ => false)
          | _ => false)
      | _ => false) = true := by decide

-- ------------------------------------------------------------------------------------ the proposal table
open Bxh.GovTable in
/-- **finality over every history**: once a proposal is approved or rejected, no sequence of submissions
(with priority locking), concluding ballots, electorate changes, withdrawals, forced ends, locks and unlocks
changes that entry again — it is found unchanged (status, lock, object, priority) at the same position -/
theorem C15_table_finality (t : Table) (ops : List GovTable.Op) (k : Nat) (e : Entry)
    (hk : t[k]? = some e) (hf : e.status.final = true) : (run t ops)[k]? = some e :=
  run_keeps t ops k e hk hf

open Bxh.GovTable in
/-- the same, stated on one history from the empty table: what is concluded after a prefix stays so after
any continuation -/
theorem C15_table_finality_history (ops1 ops2 : List GovTable.Op) (k : Nat) (e : Entry)
    (hk : (run [] ops1)[k]? = some e) (hf : e.status.final = true) : (run [] (ops1 ++ ops2))[k]? = some e := by
  rw [run_append]
  exact run_keeps _ ops2 k e hk hf

open Bxh.GovTable in
/-- a ballot on a proposal that is not `proposed` (paused, approved, rejected) concludes nothing -/
theorem C15_table_vote_needs_proposed (t : Table) (i : Nat) (a : Bool) (e : Entry)
    (hi : t[i]? = some e) (hs : e.status ≠ .proposed) : step t (.conclude i a) = t := by
  simp [step, hi, hs]

open Bxh.GovTable in
/-- priority locking pauses at most one proposal, and only one that is open (`proposed`), about the same object and of
strictly lower priority; every other entry of the table is left as it is -/
theorem C15_table_lock_only_lower_priority (t : Table) (obj : String) (prio i : Nat) (h : (lockLow t obj prio).2 = some i) :
    (∃ e, t[i]? = some e ∧ e.obj = obj ∧ e.status = .proposed ∧ e.prio < prio ∧
      (lockLow t obj prio).1[i]? = some { e with status := .paused }) ∧
    ∀ j, j ≠ i → (lockLow t obj prio).1[j]? = t[j]? := by
  unfold lockLow at h ⊢
  split at h
  · rename_i k hk
    simp only at h
    cases h
    simp only
    rcases List.findIdx?_eq_some_iff_getElem.mp hk with ⟨hlt, hp, _⟩
    simp only [Bool.and_eq_true, beq_iff_eq, decide_eq_true_eq] at hp
    refine ⟨⟨t[i], by simp [hlt], hp.1.1, hp.1.2, hp.2, ?_⟩, fun j hj => ?_⟩
    · simp [setAt, List.getElem?_modify, hlt]
    · have : ¬ i = j := fun e => hj e.symm
      simp [setAt, List.getElem?_modify, this]
  · cases h

open Bxh.GovTable in
/-- non-vacuity and the repaired defect: a freeze (priority 2) is paused by a logout (priority 3), withdrawn while
paused, then the logout is rejected.  With the repaired `unlockLowPriorityProposal` the withdrawn proposal stays
rejected; the unrepaired one re-opened it (this is the history the correspondence run found on the real contract). -/
example :
    let ops : List GovTable.Op := [.submit "c1" 2, .submit "c1" 3, .withdraw 0, .conclude 1 false]
    let t3 := run [] (ops.take 3)
    (t3.map (·.status) = [.rejected, .proposed]) ∧ ((run [] ops).map (·.status) = [.rejected, .rejected]) ∧
    ((handleResultUnrepaired (setAt t3 1 .rejected) 1).map (·.status) = [.proposed, .rejected]) := by decide

end Bxh.Props.C15
