import Bxh.Model.Mempool
namespace Bxh.Props.C19
open Bxh Bxh.Mempool
theorem placeholder_true : True := trivial
end Bxh.Props.C19
