import Bxh.Model.Mempool
import Bxh.Proofs.PoolHeld
import Bxh.Proofs.PoolReady
/-!
# C19 — the pool neither loses accepted transactions nor misreports its content
Theorems about `evict`, `commit`, `getTx` of `Bxh.Mempool`
(model of `RemoveAliveTimeoutTxs`, `processCommitTransactions`, `GetTransaction`).
-/
namespace Bxh.Props.C19
open Bxh Bxh.Mempool

/-- the victims of the age rule, as computed by `evict` -/
def victims (p : Pool) (cut : Nat) : List TxR :=
  ((p.arrival.filter (fun e => e.2 ≤ cut)).map (·.1)).filterMap (fun ptr =>
    match KV.get p.items ptr with
    | none => none
    | some tx =>
      if ptr ∈ p.batched then none
      else if (tx.ts, tx.acct, tx.nonce) ∈ p.priority then none
      else if ptr ∈ p.parking then some tx
      else none)

/-- **documented age rule**: eviction only ever removes a transaction that is held, old enough,
NOT batched, NOT ready (not in the priority index) and parked -/
theorem C19_evict_only_old_nonready_nonbatched (p : Pool) (cut : Nat) (tx : TxR) (h : tx ∈ victims p cut) :
    ∃ ptr g, KV.get p.items ptr = some tx ∧ (ptr, g) ∈ p.arrival ∧ g ≤ cut ∧
      ptr ∉ p.batched ∧ (tx.ts, tx.acct, tx.nonce) ∉ p.priority ∧ ptr ∈ p.parking := by
  unfold victims at h
  obtain ⟨ptr, hmem, hf⟩ := List.mem_filterMap.mp h
  obtain ⟨e, he, hep⟩ := List.mem_map.mp hmem
  have hold := (List.mem_filter.mp he)
  cases hi : KV.get p.items ptr with
  | none => simp [hi] at hf
  | some t =>
    simp only [hi] at hf
    split at hf
    · cases hf
    · split at hf
      · cases hf
      · split at hf
        · cases hf
          refine ⟨ptr, e.2, hi, ?_, by simpa using hold.2, by assumption, by assumption, by assumption⟩
          rw [← hep]; exact hold.1
        · cases hf

/-- the number reported by `RemoveAliveTimeoutTxs` is the number of victims -/
theorem C19_evict_count (p : Pool) (cut : Nat) : (evict p cut).2 = (victims p cut).length := by
  rfl

/-- **nothing is older than a tolerance nothing can reach**: when every held transaction arrived after the cut (in the engine: the
largest duration, "never", or a tolerance of centuries — `evict cut=0 tol=max|250y`; arrival groups count from 1), the age rule has no
victim, reports 0 and leaves the pool exactly as it was -/
theorem C19_unreachable_tolerance_evicts_nothing (p : Pool) (cut : Nat) (h : ∀ e ∈ p.arrival, cut < e.2) :
    victims p cut = [] ∧ (evict p cut).2 = 0 ∧ (evict p cut).1.hashMap = p.hashMap ∧ (evict p cut).1.items = p.items := by
  have hold : p.arrival.filter (fun e => decide (e.2 ≤ cut)) = [] := by
    rw [List.filter_eq_nil_iff]
    intro e he
    have := h e he
    simp only [decide_eq_true_eq]
    omega
  have hv : victims p cut = [] := by
    unfold victims
    rw [hold]; rfl
  refine ⟨hv, ?_, ?_, ?_⟩
  · rw [C19_evict_count, hv]; rfl
  · unfold evict
    simp only [hold, List.map_nil, List.filterMap_nil, List.foldl_nil]
  · unfold evict
    simp only [hold, List.map_nil, List.filterMap_nil, List.foldl_nil]

/-- `GetTransaction` never invents content: what it returns is the item stored under the pointer
recorded for that hash -/
theorem C19_getTx_from_items (p : Pool) (h : String) (tx : TxR) (hg : getTx p h = some tx) :
    ∃ ptr, KV.get p.hashMap h = some ptr ∧ KV.get p.items ptr = some tx := by
  unfold getTx at hg
  split at hg
  · cases hg
  · rename_i ptr hp
    exact ⟨ptr, hp, hg⟩

/-- `HasPendingRequest` is exactly "the ready-and-unbatched counter is positive" -/
theorem C19_pending_flag_is_counter (p : Pool) : hasPending p = true ↔ 0 < p.nonBatch := by
  simp [hasPending]

/-! ## No silent loss, one operation at a time

`hashMap` is what `GetTransaction` looks a hash up in.  For every operation of the pool, a hash that is held
before the operation is held under the same pointer after it, unless the operation is one of the three
documented reasons — and then exactly for the transactions that reason names. -/

/-- building batches (leader, timer or size trigger) forgets nothing and alters no held transaction -/
theorem C19_generate_forgets_nothing (p : Pool) :
    (generate p).1.hashMap = p.hashMap ∧ (generate p).1.items = p.items := generate_hashMap p

/-- `ProcessTransactions` — whatever the batch, leader or follower: a held hash is forgotten only if the batch
carries a different transaction for the very (account, nonce) the holder occupies (supersession) -/
theorem C19_process_forgets_only_superseded (p : Pool) (txs : List TxR) (isLeader : Bool) (group : Nat)
    (h : String) (ptr : Ptr) (hh : KV.get p.hashMap h = some ptr) :
    KV.get (process p txs isLeader group).1.hashMap h = some ptr ∨
      ∃ tx ∈ txs, ∃ old, KV.get p.items (tx.acct, tx.nonce) = some old ∧ old.hash = h ∧ tx.hash ≠ h :=
  process_hashMap p txs isLeader group h ptr hh

/-- a commit forgets only the hashes it names -/
theorem C19_commit_forgets_only_committed (p : Pool) (hashes : List String) (h : String) (ptr : Ptr)
    (hh : KV.get p.hashMap h = some ptr) :
    KV.get (commit p hashes).hashMap h = some ptr ∨ h ∈ hashes := commit_hashMap p hashes h ptr hh

/-- the age rule forgets only hashes of transactions held under a parked, not batched pointer -/
theorem C19_evict_forgets_only_parked (p : Pool) (cut : Nat) (h : String) (ptr : Ptr)
    (hh : KV.get p.hashMap h = some ptr) :
    KV.get (evict p cut).1.hashMap h = some ptr ∨
      ∃ pt tx, KV.get p.items pt = some tx ∧ tx.hash = h ∧ pt ∈ p.parking ∧ pt ∉ p.batched :=
  evict_hashMap p cut h ptr hh

/-- the admission loop lets through only offered transactions whose hash is not held, no two for one (account, nonce) -/
theorem C19_admission_sound (p : Pool) (txs : List TxR) :
    (∀ v ∈ (admission p txs).2, v ∈ txs ∧ KV.get p.hashMap v.hash = none) ∧
    (admission p txs).2.Pairwise (fun a b => (a.acct, a.nonce) ≠ (b.acct, b.nonce)) :=
  ⟨(admission_facts p txs).2.2.1, (admission_facts p txs).2.2.2⟩

/-! ### before the pool: the transaction cache -/

/-- **the transaction cache loses nothing and keeps the order**: whatever arrives (nil transactions aside, which are dropped with
an error), the sets `TxCache` posts are, concatenated, exactly the arrivals in arrival order; every set but the last holds exactly
`size` transactions, the last (posted by the tick) at least one and fewer than `size` -/
theorem C19_txcache_loses_nothing {α : Type} (size : Nat) (hs : 0 < size) (arrivals : List (Option α)) :
    (txCacheRun size arrivals).flatten = arrivals.filterMap id ∧
    (∀ st ∈ txCacheRun size arrivals, 1 ≤ st.length ∧ st.length ≤ size) := by
  unfold txCacheRun
  simp only
  have inv := foldl_inv (fun (acc : List (List α) × List α) => acc.2.length < size ∧ (∀ st ∈ acc.1, st.length = size))
    (fun (acc : List (List α) × List α) (a : Option α) =>
      match a with
      | none => acc
      | some tx =>
        let cur := acc.2 ++ [tx]
        if cur.length ≥ size then (acc.1 ++ [cur], []) else (acc.1, cur)) arrivals ([], [])
    ⟨by simpa using hs, by intro _ h; cases h⟩
    (by
      intro b a _ ⟨h1, h2⟩
      cases a with
      | none => exact ⟨h1, h2⟩
      | some tx =>
        simp only
        split
        · rename_i hge
          refine ⟨by simpa using hs, ?_⟩
          intro st hset
          rcases List.mem_append.mp hset with h | h
          · exact h2 st h
          · simp only [List.mem_singleton] at h
            subst h
            simp only [List.length_append, List.length_cons, List.length_nil] at hge ⊢
            omega
        · rename_i hlt
          simp only [List.length_append, List.length_cons, List.length_nil] at hlt ⊢
          exact ⟨by omega, h2⟩)
  have flat : ∀ (arr : List (Option α)) (acc : List (List α) × List α),
      let r := arr.foldl (fun (acc : List (List α) × List α) (a : Option α) =>
        match a with
        | none => acc
        | some tx =>
          let cur := acc.2 ++ [tx]
          if cur.length ≥ size then (acc.1 ++ [cur], []) else (acc.1, cur)) acc
      r.1.flatten ++ r.2 = acc.1.flatten ++ acc.2 ++ arr.filterMap id := by
    intro arr
    induction arr with
    | nil => intro acc; simp
    | cons a rest ih =>
      intro acc
      simp only [List.foldl_cons]
      cases a with
      | none => simpa using ih acc
      | some tx =>
        simp only
        split
        · have := ih (acc.1 ++ [acc.2 ++ [tx]], [])
          simp only at this
          rw [this]; simp
        · have := ih (acc.1, acc.2 ++ [tx])
          simp only at this
          rw [this]; simp
  have hf := flat arrivals ([], [])
  simp only [List.flatten_nil, List.nil_append] at hf
  generalize (arrivals.foldl _ (([] : List (List α)), ([] : List α))) = r at inv hf ⊢
  obtain ⟨i1, i2⟩ := inv
  split
  · rename_i he
    have : r.2 = [] := by simpa using he
    rw [this] at hf
    refine ⟨by simpa using hf, fun st hset => ?_⟩
    have := i2 st hset
    omega
  · rename_i hne
    refine ⟨by simpa using hf, fun st hset => ?_⟩
    rcases List.mem_append.mp hset with h | h
    · have := i2 st h; omega
    · simp only [List.mem_singleton] at h
      rw [h]
      have : r.2 ≠ [] := by simpa using hne
      have : 0 < r.2.length := List.length_pos_iff.mpr this
      omega

example : txCacheRun 3 [some 1, some 2, none, some 3, some 4] = [[1, 2, 3], [4]] := by decide

/-! ### …and over whole histories -/

inductive Op
  | process (txs : List TxR) (isLeader : Bool) (group : Nat)
  | generate
  | commit (hashes : List String)
  | evict (cut : Nat)

def step (p : Pool) : Op → Pool
  | .process txs l g => (process p txs l g).1
  | .generate => (generate p).1
  | .commit hs => commit p hs
  | .evict cut => (evict p cut).1

def run (p : Pool) (ops : List Op) : Pool := ops.foldl step p

/-- the documented reasons for which operation `op`, applied to pool `q`, may forget the hash `h` -/
def Reason (q : Pool) (h : String) : Op → Prop
  | .process txs _ _ => ∃ tx ∈ txs, ∃ old, KV.get q.items (tx.acct, tx.nonce) = some old ∧ old.hash = h ∧ tx.hash ≠ h   -- superseded
  | .generate => False
  | .commit hs => h ∈ hs                                                                                              -- committed
  | .evict _ => ∃ pt tx, KV.get q.items pt = some tx ∧ tx.hash = h ∧ pt ∈ q.parking ∧ pt ∉ q.batched                  -- age rule

theorem step_keeps_or_reason (p : Pool) (op : Op) (h : String) (ptr : Ptr) (hh : KV.get p.hashMap h = some ptr) :
    KV.get (step p op).hashMap h = some ptr ∨ Reason p h op := by
  cases op with
  | process txs l g => exact C19_process_forgets_only_superseded p txs l g h ptr hh
  | generate => left; show KV.get (generate p).1.hashMap h = some ptr; rw [(generate_hashMap p).1]; exact hh
  | commit hs => exact C19_commit_forgets_only_committed p hs h ptr hh
  | evict cut => exact C19_evict_forgets_only_parked p cut h ptr hh

/-- **no silent loss over any history** of admissions, batch generations, commits and evictions, from any pool state: a
hash that is held stays held (under the same pointer) to the end of the history, unless at some point of the history one
of the three documented reasons applied to it — it was committed, superseded, or evicted by the age rule while parked -/
theorem C19_history_no_silent_loss (ops : List Op) (p : Pool) (h : String) (ptr : Ptr)
    (hh : KV.get p.hashMap h = some ptr) :
    KV.get (run p ops).hashMap h = some ptr ∨
      ∃ pre op post, ops = pre ++ op :: post ∧ Reason (run p pre) h op := by
  induction ops generalizing p with
  | nil => exact Or.inl hh
  | cons op rest ih =>
    rcases step_keeps_or_reason p op h ptr hh with hk | hr
    · rcases ih (step p op) hk with h1 | ⟨pre, op', post, he, hr⟩
      · exact Or.inl h1
      · exact Or.inr ⟨op :: pre, op', post, by rw [he]; rfl, hr⟩
    · exact Or.inr ⟨[], op, rest, rfl, hr⟩

-- premises are satisfiable and the exception is real: inserting a second transaction for (a, 0) forgets the first hash,
-- inserting one for (a, 1) does not
example :
    let t1 : TxR := { acct := "a", nonce := 0, hash := "h1", ts := 1 }
    let p : Pool := { items := [(("a", 0), t1)], hashMap := [("h1", ("a", 0))] }
    KV.get p.hashMap "h1" = some ("a", 0) ∧
    KV.get (insertTxs p [{ acct := "a", nonce := 0, hash := "h9", ts := 2 }] 1).hashMap "h1" = none ∧
    KV.get (insertTxs p [{ acct := "a", nonce := 1, hash := "h9", ts := 2 }] 1).hashMap "h1" = some ("a", 0) := by decide

/-! ### ready = the maximal gap-free run; the pending nonce is the nonce right behind it -/

/-- **once all lower nonces of its account are present a transaction is ready, and no transaction behind a gap is**: what
`processDirtyAccount` moves to the ready (priority) index for an account is the run `pending, pending+1, …` of nonces held in the
account's index, as long as it goes — every nonce of the run is held, the first nonce behind the run is not -/
theorem C19_ready_is_maximal_gap_free_run (p : Pool) (a : String) (demand : Nat) (hnd : (noncesOf p a).Nodup) :
    (filterReady p a demand).1 = List.range' demand (filterReady p a demand).1.length ∧
    (∀ n ∈ (filterReady p a demand).1, n ∈ noncesOf p a) ∧
    (filterReady p a demand).2.2 ∉ noncesOf p a := by
  obtain ⟨h1, _, h3, h4⟩ := filterReady_spec p a demand hnd
  exact ⟨h1, h3, h4⟩

/-- **the pending nonce reported for an account is exactly the nonce after its last ready transaction**: after
`processDirtyAccount` the stored pending nonce is the old one plus the length of the ready run, and no transaction with that nonce
is held -/
theorem C19_pending_nonce_is_behind_the_ready_run (p : Pool) (a : String) (hnd : (noncesOf (getPending p a).1 a).Nodup) :
    KV.get (processDirty p a).pendingN a =
      some ((getPending p a).2 + (filterReady (getPending p a).1 a (getPending p a).2).1.length) ∧
    (getPending p a).2 + (filterReady (getPending p a).1 a (getPending p a).2).1.length ∉ noncesOf (getPending p a).1 a := by
  obtain ⟨_, h2, _, h4⟩ := filterReady_spec (getPending p a).1 a (getPending p a).2 hnd
  refine ⟨?_, by rw [← h2]; exact h4⟩
  unfold processDirty
  simp only [KV.get_set, if_true]
  rw [h2]

/-- the hypothesis of the two theorems above is met by every pool whose nonce index is a set (the index is only ever changed by
set insertion and filtering: `insertTxs_nidx_nodup`, `setDel_nodup`) -/
theorem C19_ready_run_of_set_index (p : Pool) (a : String) (h : p.nidx.Nodup) :
    (filterReady (getPending p a).1 a (getPending p a).2).1 =
      List.range' (getPending p a).2 (filterReady (getPending p a).1 a (getPending p a).2).1.length ∧
    KV.get (processDirty p a).pendingN a =
      some ((getPending p a).2 + (filterReady (getPending p a).1 a (getPending p a).2).1.length) ∧
    (getPending p a).2 + (filterReady (getPending p a).1 a (getPending p a).2).1.length ∉ noncesOf p a := by
  have hnd : (noncesOf (getPending p a).1 a).Nodup := noncesOf_nodup _ a (by rw [getPending_nidx]; exact h)
  obtain ⟨h1, _, _⟩ := C19_ready_is_maximal_gap_free_run (getPending p a).1 a (getPending p a).2 hnd
  obtain ⟨h2, h3⟩ := C19_pending_nonce_is_behind_the_ready_run p a hnd
  refine ⟨h1, h2, ?_⟩
  rw [← noncesOf_congr (getPending_nidx p a) a]
  exact h3

/-- non-vacuity (on the fold `filterReady` runs over the account's sorted nonces): the account holds the nonces 3, 4, 6 (5 is
missing) and nonce 3 is demanded: ready are 3 and 4, the next demanded nonce is 5, 6 is not ready -/
example : [3, 4, 6].foldl frStep ([], [], 3) = ([3, 4], [6], 5) := by decide

end Bxh.Props.C19
