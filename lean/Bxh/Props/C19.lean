import Bxh.Model.Mempool
/-!
# C19 — the pool neither loses accepted transactions nor misreports its content
Theorems about `evict`, `commit`, `getTx` of `Bxh.Mempool`
(model of `RemoveAliveTimeoutTxs`, `processCommitTransactions`, `GetTransaction`).
-/
namespace Bxh.Props.C19
open Bxh Bxh.Mempool

/-- the victims of the age rule, as computed by `evict` -/
def victims (p : Pool) (cut : Nat) : List TxR :=
  ((p.arrival.filter (fun e => e.2 ≤ cut)).map (·.1)).filterMap (fun ptr =>
    match KV.get p.items ptr with
    | none => none
    | some tx =>
      if ptr ∈ p.batched then none
      else if (tx.ts, tx.acct, tx.nonce) ∈ p.priority then none
      else if ptr ∈ p.parking then some tx
      else none)

/-- **documented age rule**: eviction only ever removes a transaction that is held, old enough,
NOT batched, NOT ready (not in the priority index) and parked -/
theorem C19_evict_only_old_nonready_nonbatched (p : Pool) (cut : Nat) (tx : TxR) (h : tx ∈ victims p cut) :
    ∃ ptr g, KV.get p.items ptr = some tx ∧ (ptr, g) ∈ p.arrival ∧ g ≤ cut ∧
      ptr ∉ p.batched ∧ (tx.ts, tx.acct, tx.nonce) ∉ p.priority ∧ ptr ∈ p.parking := by
  unfold victims at h
  obtain ⟨ptr, hmem, hf⟩ := List.mem_filterMap.mp h
  obtain ⟨e, he, hep⟩ := List.mem_map.mp hmem
  have hold := (List.mem_filter.mp he)
  cases hi : KV.get p.items ptr with
  | none => simp [hi] at hf
  | some t =>
    simp only [hi] at hf
    split at hf
    · cases hf
    · split at hf
      · cases hf
      · split at hf
        · cases hf
          refine ⟨ptr, e.2, hi, ?_, by simpa using hold.2, by assumption, by assumption, by assumption⟩
          rw [← hep]; exact hold.1
        · cases hf

/-- the number reported by `RemoveAliveTimeoutTxs` is the number of victims -/
theorem C19_evict_count (p : Pool) (cut : Nat) : (evict p cut).2 = (victims p cut).length := by
  rfl

/-- `GetTransaction` never invents content: what it returns is the item stored under the pointer
recorded for that hash -/
theorem C19_getTx_from_items (p : Pool) (h : String) (tx : TxR) (hg : getTx p h = some tx) :
    ∃ ptr, KV.get p.hashMap h = some ptr ∧ KV.get p.items ptr = some tx := by
  unfold getTx at hg
  split at hg
  · cases hg
  · rename_i ptr hp
    exact ⟨ptr, hp, hg⟩

/-- `HasPendingRequest` is exactly "the ready-and-unbatched counter is positive" -/
theorem C19_pending_flag_is_counter (p : Pool) : hasPending p = true ↔ 0 < p.nonBatch := by
  simp [hasPending]

end Bxh.Props.C19
