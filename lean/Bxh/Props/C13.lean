import Bxh.Proofs.LedgerLemmas
import Bxh.Proofs.LedgerReads
/-!
# C13 — reads return the latest write through dirty set, cache, database and reopen
Theorems about `Bxh.Ledger` (model of SimpleLedger / SimpleAccount / AccountCache).
-/
namespace Bxh.Props.C13
open Bxh Bxh.Ledger

/-- **read-your-write** (journaled write or delete): whatever the dirty set, origin memo, cache and
database hold, a read after `SetState a k v` returns `v` (and `none` after a delete) -/
theorem C13_read_after_set (l : L) (a : Addr) (k : String) (v : Bytes) :
    (getState (setState l a k v) a k).2 = v := by
  unfold setState
  obtain ⟨acc0, h0⟩ := getState_present l a k
  cases hg : getState l a k with
  | mk l1 prev =>
    rw [hg] at h0
    simp only at h0 ⊢
    apply getState_dirty (acc := { ((KV.get l1.accounts a).getD {}) with dirtyState := KV.set ((KV.get l1.accounts a).getD {}).dirtyState k v })
    · simp [putAcct]
    · simp

/-- the same for `AddState` -/
theorem C13_read_after_add (l : L) (a : Addr) (k : String) (v : Bytes) :
    (getState (addState l a k v) a k).2 = v := C13_read_after_set l a k v

/-- a write to one key does not change what a read of another key of the same account returns from
the dirty set -/
theorem C13_set_other_key_dirty (l : L) (a : Addr) (k k' : String) (v w : Bytes) (hne : k ≠ k') :
    (getState (setState (setState l a k' w) a k v) a k').2 = w := by
  unfold setState
  cases hg : getState l a k' with
  | mk l1 prev =>
    simp only
    generalize hl2 : ({ putAcct l1 a { ((KV.get l1.accounts a).getD {}) with dirtyState := KV.set ((KV.get l1.accounts a).getD {}).dirtyState k' w } with
        changes := (putAcct l1 a { ((KV.get l1.accounts a).getD {}) with dirtyState := KV.set ((KV.get l1.accounts a).getD {}).dirtyState k' w }).changes ++ [Change.storage a k' prev] } : L) = l2
    have hacc2 : KV.get l2.accounts a = some { ((KV.get l1.accounts a).getD {}) with dirtyState := KV.set ((KV.get l1.accounts a).getD {}).dirtyState k' w } := by
      rw [← hl2]; simp [putAcct]
    -- reading k (another key) keeps k' in the dirty set
    have hrd : ∀ acc2, KV.get l2.accounts a = some acc2 →
        ∃ acc3, KV.get (getState l2 a k).1.accounts a = some acc3 ∧ acc3.dirtyState = acc2.dirtyState := by
      intro acc2 h2
      unfold getState
      rw [getOrCreate_of_present l2 a acc2 h2]
      simp only
      split
      · exact ⟨acc2, h2, rfl⟩
      · split
        · exact ⟨acc2, h2, rfl⟩
        · exact ⟨_, putAcct_get _ _ _, rfl⟩
    obtain ⟨acc3, h3, hd3⟩ := hrd _ hacc2
    cases hg2 : getState l2 a k with
    | mk l3 prev2 =>
      rw [hg2] at h3
      simp only at h3 ⊢
      apply getState_dirty (acc := { ((KV.get l3.accounts a).getD {}) with dirtyState := KV.set ((KV.get l3.accounts a).getD {}).dirtyState k v })
      · simp [putAcct]
      · simp only [h3, Option.getD_some, hd3]
        rw [KV.get_set_ne _ _ _ _ hne]
        simp

/-- **existence flag**: after a write, the key exists iff the written value is non-empty — the same answer
`present` gives for the value read back from the database after the caches are gone, so the flag cannot depend on
where the value is served from (repaired by the `fix:` commit "a storage key with an empty value does not exist") -/
theorem C13_exists_iff_nonempty (v : Bytes) : present v = true ↔ ∃ s, v = some s ∧ s ≠ "" := by
  cases v with
  | none => simp [present]
  | some s => simp [present]

theorem C13_empty_write_is_absent : present (some "") = false ∧ present none = false := by decide

/-! ## Across the end of a block: account cache, database, reopen -/

/-- **through the account cache**: after `FlushDirtyData` dropped the block's account objects, a key the block wrote in a
modified account reads back as the value written last — before any `Commit`, whatever the database holds -/
theorem C13_read_after_flush (H : RootPre → String) (l : L) (a : Addr) (acc : Acct) (k : String) (v : Bytes)
    (hnd : (l.accounts.map (·.1)).Nodup) (hmem : (a, acc) ∈ l.accounts)
    (hd : (journalOf l a acc).1.isSome = true)
    (hk : ∃ p ∈ acc.dirtyState, p.1 = k) (hv : ∀ p ∈ acc.dirtyState, p.1 = k → p.2 = v) :
    (getState (flush H l).1 a k).2 = v :=
  read_after_flush H l a acc k v hnd hmem hd hk hv

/-- **through the database and a reopen**: after `Commit` and `NewSimpleLedger` on the same database (no caches left) the
same read returns the same bytes -/
theorem C13_read_after_commit_reopen (H : RootPre → String) (l l1 l2 : L) (h : Nat) (a : Addr) (acc : Acct) (k : String) (v : Bytes)
    (hnd : (l.accounts.map (·.1)).Nodup) (hmem : (a, acc) ∈ l.accounts)
    (hd : (journalOf l a acc).1.isSome = true)
    (hk : ∃ p ∈ acc.dirtyState, p.1 = k) (hv : ∀ p ∈ acc.dirtyState, p.1 = k → p.2 = v)
    (horigin : ((KV.get acc.originState k).getD none).getD "" = (KV.get l.db.state (a, k)).getD "")
    (hc : commit (flush H l).1 h (flush H l).2 = some l1) (hr : reopen l1 = some l2) :
    ((getState l2 a k).2).getD "" = v.getD "" :=
  read_after_commit_reopen H l l1 l2 h a acc k v hnd hmem hd hk hv horigin hc hr

-- non-vacuity: the example ledger of C12 (account 1 deletes `k` and writes `k2`) meets the hypotheses for both keys
section Example
def exI15 : Inner := { nonce := 1, balance := 5 }
def exI27 : Inner := { nonce := 2, balance := 7 }
def exBj3 : BlockJournal := { entries := [], root := "r3" }
def exDb : DB := { acct := [(1, exI15)], state := [((1, "k"), "v")], journals := [(3, exBj3)], minH := 3, maxH := 3 }
def exAcc1 : Acct := { originAcc := some exI15, dirtyAcc := some exI27, originState := [("k", some "v"), ("k2", none)], dirtyState := [("k", none), ("k2", some "w")] }
def exL : L := { accounts := [(1, exAcc1)], db := exDb, minJ := 3, maxJ := 3, prevRoot := "r3" }
def exH : RootPre → String := fun _ => "r4"

example : (exL.accounts.map (·.1)).Nodup ∧ (1, exAcc1) ∈ exL.accounts ∧ (journalOf exL 1 exAcc1).1.isSome = true ∧
    (∃ p ∈ exAcc1.dirtyState, p.1 = "k2") ∧ (∀ p ∈ exAcc1.dirtyState, p.1 = "k2" → p.2 = some "w") ∧
    (getState (flush exH exL).1 1 "k2").2 = some "w" ∧ (getState (flush exH exL).1 1 "k").2 = none := by
  refine ⟨by decide, by decide, by decide, ⟨("k2", some "w"), by decide, rfl⟩, ?_, by decide, by decide⟩
  intro p hp hk
  simp only [exAcc1, List.mem_cons, List.mem_nil_iff, or_false] at hp
  rcases hp with rfl | rfl
  · exact absurd hk (by decide)
  · rfl
end Example

end Bxh.Props.C13
