import Bxh.Model.Ledger
namespace Bxh.Props.C13
open Bxh Bxh.Ledger
theorem placeholder_true : True := trivial
end Bxh.Props.C13
