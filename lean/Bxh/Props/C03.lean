import Bxh.Model.Proof
import Bxh.Props.C07
import Bxh.Props.C08
/-!
# C03 — only IBTPs whose proof was verified for their origin can change state

Two models are involved.
* `Bxh.Exec.proofVerdict` + `applyTxs`/`applyTx`: what `verifyProofs` (executor.go) and the
  invalid-reason short-circuit of `applyBxhTransaction` do with the verdict.  The rule engine's
  answer for a well-formed proof is the parameter `cfg.rule` (the harness world binds HappyRule to
  c1/c2 and the SimFabric rule, which rejects the harness' proofs, to c3); "plain false" is the
  explicit `ProofKind.plainFalse`.
* `Bxh.Proof.multiSign`: the signature-threshold loop of `verifyMultiSign` for IBTPs relayed from
  another BitXHub, run against the real function with real secp256k1 signatures.
-/
namespace Bxh.Props.C03
open Bxh Bxh.Exec

/-! ### the verdict -/

/-- a proof is accepted exactly when its bytes hash to the committed value and are well formed (`ProofKind.ok`, or a `BxhProof`:
`ProofKind.msig`), the origin (source of a request, destination of a receipt) parses, and either the origin belongs to this
BitXHub and the rule bound to that chain accepts, or it belongs to another BitXHub that is registered here and the proof carries
more than `(n-1)/3` signatures of distinct registered validators of that hub (`min k n` of the `k` signers `val-1 … val-k` are
among the `n` registered ones) -/
theorem C03_verdict_none_iff (cfg : Cfg) (i : Ibtp) (p : ProofKind) :
    proofVerdict cfg i p = none ↔
      ∃ s, (if i.typ.isRequest then i.frm else i.to) = some s ∧
        ((s.bxh = cfg.bxh ∧ (p = .ok ∨ ∃ k, p = .msig k) ∧ cfg.rule s.chain = some true) ∨
         (s.bxh ≠ cfg.bxh ∧ ∃ k, p = .msig k ∧ cfg.hubs.contains s.bxh = true ∧ min k cfg.hubN > (cfg.hubN - 1) / 3)) := by
  unfold proofVerdict
  cases p with
  | none => simp
  | bad => simp
  | plainFalse => simp
  | ok =>
    cases ho : (if i.typ.isRequest then i.frm else i.to) with
    | none => simp
    | some s =>
      by_cases hb : s.bxh = cfg.bxh
      · cases hr : cfg.rule s.chain with
        | none => simp [hb, hr]
        | some b => cases b <;> simp [hb, hr]
      · simp [hb]
  | msig k =>
    cases ho : (if i.typ.isRequest then i.frm else i.to) with
    | none => simp
    | some s =>
      by_cases hb : s.bxh = cfg.bxh
      · cases hr : cfg.rule s.chain with
        | none => simp [hb, hr]
        | some b => cases b <;> simp [hb, hr]
      · by_cases hh : cfg.hubs.contains s.bxh = true
        · by_cases hk : min k cfg.hubN > (cfg.hubN - 1) / 3
          · simp [hb, hh, hk]
          · simp [hb, hh, hk]
        · simp [hb, hh]

/-- an IBTP relayed from a BitXHub that is not registered here is never accepted, whatever it carries -/
theorem C03_unregistered_hub_rejected (cfg : Cfg) (i : Ibtp) (p : ProofKind) (s : SvcId)
    (ho : (if i.typ.isRequest then i.frm else i.to) = some s) (hb : s.bxh ≠ cfg.bxh) (hh : cfg.hubs.contains s.bxh = false) :
    proofVerdict cfg i p ≠ none := by
  intro h
  obtain ⟨s', hs', hc⟩ := (C03_verdict_none_iff cfg i p).mp h
  rw [ho] at hs'; cases hs'
  rcases hc with ⟨h1, _⟩ | ⟨_, k, _, h2, _⟩
  · exact hb h1
  · rw [hh] at h2; cases h2

/-- too few signatures: with `n` registered validators, `k ≤ (n-1)/3` signers never pass -/
theorem C03_too_few_signatures_rejected (cfg : Cfg) (i : Ibtp) (k : Nat) (s : SvcId)
    (ho : (if i.typ.isRequest then i.frm else i.to) = some s) (hb : s.bxh ≠ cfg.bxh) (hk : k ≤ (cfg.hubN - 1) / 3) :
    proofVerdict cfg i (.msig k) ≠ none := by
  intro h
  obtain ⟨s', hs', hc⟩ := (C03_verdict_none_iff cfg i (.msig k)).mp h
  rw [ho] at hs'; cases hs'
  rcases hc with ⟨h1, _⟩ | ⟨_, k', hk', _, h3⟩
  · exact hb h1
  · cases hk'; omega

/-- every other proof (absent, hash mismatch, rule error, plain false, unknown / foreign / malformed origin) is rejected -/
theorem C03_bad_proof_rejected (cfg : Cfg) (i : Ibtp) :
    proofVerdict cfg i .none ≠ none ∧ proofVerdict cfg i .bad ≠ none ∧ proofVerdict cfg i .plainFalse ≠ none := by
  simp [proofVerdict]

/-! ### what the executor does with the verdict -/

/-- the verdict the block loop computes for a transaction: bad signature first, then the proof -/
def verdict (cfg : Cfg) (p : Tx × Bool) : Option String :=
  if !p.2 then some "bad-sig" else match p.1 with
    | .ibtp _ i pk => proofVerdict cfg i pk
    | _ => none

/-- **an IBTP that fails the check gets a FAILED receipt and changes nothing**: storage untouched,
no event (never listed), balances other than the sender's and the admins' untouched -/
theorem C03_unverified_ibtp_no_effect (env : Env) (l : Led) (s : String) (i : Ibtp) (pk : ProofKind) (r : String) :
    (applyTx env l (.ibtp s i pk) (some r)).2.rcpt.ok = false ∧
    (∀ k, (applyTx env l (.ibtp s i pk) (some r)).1.getS k = l.getS k) ∧
    (applyTx env l (.ibtp s i pk) (some r)).2.events = [] ∧
    (∀ a, a ≠ s → a ∉ env.cfg.admins → (applyTx env l (.ibtp s i pk) (some r)).1.getBal a = l.getBal a) := by
  have hfail : (applyTx env l (.ibtp s i pk) (some r)).2.rcpt.ok = false := by
    unfold applyTx applyBxh
    simp only
    split <;> simp [mkRcpt]
  have hk := C07.errKeeps_of_invalid env l (.ibtp s i pk) r
  exact ⟨hfail, C07.failed_storage_core env l _ _ hfail hk, C07.C07_failed_tx_not_listed env l _ _ hfail,
    fun a ha hadm => C07.failed_balances_core env l _ _ hfail hk a ha hadm⟩

/-- **a successful IBTP receipt implies a verified proof and a valid signature**: in the block loop
a transaction whose verdict is not `none` never produces a successful receipt -/
theorem C03_success_needs_verified_proof (cfg : Cfg) (cache : KV (String × String) Svc) (h : Nat) (a : Acc) (p : Tx × Bool)
    (hv : verdict cfg p ≠ none) :
    ((C08.stepAcc cfg cache h a p).rcpts.getLast?.map (·.ok)) = some false := by
  unfold C08.stepAcc
  simp only [List.getLast?_append, List.getLast?_singleton, Option.or_some, Option.map_some, Option.some.injEq]
  have hv' : (if !p.2 then some "bad-sig" else match p.1 with | .ibtp _ i pk => proofVerdict cfg i pk | _ => none) ≠ none := hv
  cases hinv : (if !p.2 then some "bad-sig" else match p.1 with | .ibtp _ i pk => proofVerdict cfg i pk | _ => none) with
  | none => exact absurd hinv hv'
  | some r =>
    unfold applyTx applyBxh
    simp only
    split <;> simp [mkRcpt]

/-! ### the signature threshold for IBTPs relayed from another BitXHub -/
open Bxh.Proof

theorem loop_ok_iff (th : Nat) (m : List String) (c : Nat) (sigs : List (Option String)) (hc : c ≤ th) :
    loop th m c sigs = .ok ↔ c + cnt m sigs > th := by
  induction sigs generalizing m c with
  | nil => simp [loop, cnt]; omega
  | cons s rest ih =>
    cases s with
    | none => simp only [loop, cnt]; exact ih m c hc
    | some a =>
      simp only [loop, cnt]
      by_cases hm : m.contains a = true
      · simp only [hm, if_true]
        by_cases hgt : c + 1 > th
        · simp only [hgt, if_true, true_iff]; omega
        · simp only [hgt, if_false]
          rw [ih _ (c + 1) (by omega)]
          omega
      · simp only [hm]
        exact ih m c hc

/-- **threshold**: a relayed IBTP is accepted iff strictly more than `(n-1)/3` of its signatures
count, where a signature counts when it recovers to a registered validator that has not been
counted before (`n` = length of the registered list) -/
theorem C03_multisign_ok_iff (validators : List String) (sigs : List (Option String)) :
    multiSign validators sigs = .ok ↔ cnt validators sigs > (validators.length - 1) / 3 := by
  unfold multiSign threshold
  rw [loop_ok_iff _ _ 0 _ (Nat.zero_le _)]
  omega

/-- a signature that does not recover, or recovers to an unregistered address, never counts -/
theorem C03_bad_signature_never_counts (m : List String) (rest : List (Option String)) (a : String) (ha : m.contains a = false) :
    cnt m (none :: rest) = cnt m rest ∧ cnt m (some a :: rest) = cnt m rest := by
  refine ⟨rfl, ?_⟩
  simp only [cnt, ha]
  rfl

/-- a validator is counted at most once: after its first signature it is no longer in the set -/
theorem C03_validator_counted_once (m : List String) (a : String) :
    (m.filter (· ≠ a)).contains a = false := by
  simp

/-- the count never exceeds the number of registered validators -/
theorem C03_count_le_validators (m : List String) (sigs : List (Option String)) : cnt m sigs ≤ m.length := by
  induction sigs generalizing m with
  | nil => simp [cnt]
  | cons s rest ih =>
    cases s with
    | none => simp only [cnt]; exact ih m
    | some a =>
      simp only [cnt]
      by_cases hm : m.contains a = true
      · simp only [hm, if_true]
        have h1 := ih (m.filter (· ≠ a))
        have hmem : a ∈ m := by simpa using hm
        have h2 : (m.filter (· ≠ a)).length < m.length := by
          apply List.length_filter_lt_length_iff_exists.mpr
          exact ⟨a, hmem, by simp⟩
        omega
      · simp only [hm]; exact ih m

/-- no signatures, no acceptance — even for an empty or single-validator trust root -/
theorem C03_no_signature_rejected (validators : List String) : multiSign validators [] ≠ .ok := by
  simp [multiSign, loop]

/-- non-vacuity: 4 validators need 2 distinct registered signers; repeating one signer does not help -/
example : multiSign ["a", "b", "c", "d"] [some "a", some "b"] = .ok ∧
    multiSign ["a", "b", "c", "d"] [some "a", some "a", some "a", some "x", none] = .fail 1 := by decide

/-! ### what the executor model's proof kind `msig k` stands for -/

/-- distinct signers: the signatures that count are those of registered validators -/
theorem cnt_nodup (signers : List String) (m : List String) (hnd : signers.Nodup) :
    cnt m (signers.map some) = (signers.filter (m.contains ·)).length := by
  induction signers generalizing m with
  | nil => simp [cnt]
  | cons a r ih =>
    have ha : a ∉ r := (List.nodup_cons.mp hnd).1
    have hr : r.Nodup := (List.nodup_cons.mp hnd).2
    simp only [List.map_cons, cnt]
    have hcongr : r.filter ((m.filter (· ≠ a)).contains ·) = r.filter (m.contains ·) := by
      apply List.filter_congr
      intro x hx
      have hxa : x ≠ a := fun h => ha (h ▸ hx)
      simp [hxa]
    by_cases hm : m.contains a = true
    · simp only [hm, if_true, List.filter_cons]
      rw [ih _ hr, hcongr]
      simp [Nat.add_comm]
    · have hm' : m.contains a = false := by simpa using hm
      simp only [hm', List.filter_cons, Bool.false_eq_true, if_false]
      exact ih _ hr

theorem filter_take_append (vs ext : List String) (k : Nat) (hnd : (vs ++ ext).Nodup) :
    (((vs ++ ext).take k).filter (vs.contains ·)).length = min k vs.length := by
  rw [List.take_append, List.filter_append, List.length_append]
  have h1 : (vs.take k).filter (vs.contains ·) = vs.take k := by
    apply List.filter_eq_self.mpr
    intro x hx
    simpa using List.mem_of_mem_take hx
  have h2 : (ext.take (k - vs.length)).filter (vs.contains ·) = [] := by
    apply List.filter_eq_nil_iff.mpr
    intro x hx
    have hxe : x ∈ ext := List.mem_of_mem_take hx
    have := (List.nodup_append.mp hnd).2.2
    simp only [List.contains_eq_mem, decide_eq_true_eq]
    intro hxv
    exact this x hxv x hxe rfl
  rw [h1, h2, List.length_take]
  simp

/-- **the `msig k` verdict of the executor model is the threshold rule of `verifyMultiSign`**: with the registered validators `vs`
and `k` distinct signers — the validators in their order, then addresses nobody registered (`ext`) — the multi-signature check
accepts iff more than `(n-1)/3` of the `n` registered validators are among the signers, i.e. iff `min k n > (n-1)/3`: the very
condition `proofVerdict` uses for an IBTP relayed from a registered BitXHub (`C03_verdict_none_iff`).  (`multiSign` is compared
with the real `verifyMultiSign` over real secp256k1 signatures by the `msig` engine.) -/
theorem C03_msig_kind_is_threshold_rule (vs ext : List String) (k : Nat) (hnd : (vs ++ ext).Nodup) :
    multiSign vs (((vs ++ ext).take k).map some) = .ok ↔ min k vs.length > (vs.length - 1) / 3 := by
  rw [C03_multisign_ok_iff, cnt_nodup _ _ (List.Nodup.sublist (List.take_sublist _ _) hnd), filter_take_append vs ext k hnd]

-- non-vacuity: four validators, signers val-1 … val-k (val-5, val-6 unregistered): one signer fails, two pass, six pass
example :
    let vs := ["v1", "v2", "v3", "v4"]
    let ext := ["v5", "v6"]
    multiSign vs (((vs ++ ext).take 1).map some) ≠ .ok ∧ multiSign vs (((vs ++ ext).take 2).map some) = .ok ∧
    multiSign vs (((vs ++ ext).take 6).map some) = .ok := by decide

end Bxh.Props.C03
