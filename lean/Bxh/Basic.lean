def hello := "world"
