/-
Executable SHA-256, base64 and hex (used only by the drivers to print roots that can be compared
bit for bit with the Go code; theorems take the hash function as a parameter and never unfold this).
-/
namespace Bxh.Exe

def k256 : Array UInt32 := #[
  0x428a2f98, 0x71374491, 0xb5c0fbcf, 0xe9b5dba5, 0x3956c25b, 0x59f111f1, 0x923f82a4, 0xab1c5ed5,
  0xd807aa98, 0x12835b01, 0x243185be, 0x550c7dc3, 0x72be5d74, 0x80deb1fe, 0x9bdc06a7, 0xc19bf174,
  0xe49b69c1, 0xefbe4786, 0x0fc19dc6, 0x240ca1cc, 0x2de92c6f, 0x4a7484aa, 0x5cb0a9dc, 0x76f988da,
  0x983e5152, 0xa831c66d, 0xb00327c8, 0xbf597fc7, 0xc6e00bf3, 0xd5a79147, 0x06ca6351, 0x14292967,
  0x27b70a85, 0x2e1b2138, 0x4d2c6dfc, 0x53380d13, 0x650a7354, 0x766a0abb, 0x81c2c92e, 0x92722c85,
  0xa2bfe8a1, 0xa81a664b, 0xc24b8b70, 0xc76c51a3, 0xd192e819, 0xd6990624, 0xf40e3585, 0x106aa070,
  0x19a4c116, 0x1e376c08, 0x2748774c, 0x34b0bcb5, 0x391c0cb3, 0x4ed8aa4a, 0x5b9cca4f, 0x682e6ff3,
  0x748f82ee, 0x78a5636f, 0x84c87814, 0x8cc70208, 0x90befffa, 0xa4506ceb, 0xbef9a3f7, 0xc67178f2]

def rotr (x : UInt32) (n : UInt32) : UInt32 := (x >>> n) ||| (x <<< (32 - n))

def pad (msg : ByteArray) : ByteArray := Id.run do
  let len := msg.size
  let mut b := msg.push 0x80
  while b.size % 64 != 56 do
    b := b.push 0
  let bits : UInt64 := (len * 8).toUInt64
  for i in [0:8] do
    b := b.push ((bits >>> ((7 - i) * 8).toUInt64) &&& 0xff).toUInt8
  return b

def sha256 (msg : ByteArray) : ByteArray := Id.run do
  let p := pad msg
  let mut h : Array UInt32 := #[0x6a09e667, 0xbb67ae85, 0x3c6ef372, 0xa54ff53a, 0x510e527f, 0x9b05688c, 0x1f83d9ab, 0x5be0cd19]
  for chunk in [0:p.size / 64] do
    let mut w : Array UInt32 := Array.replicate 64 0
    for i in [0:16] do
      let o := chunk * 64 + i * 4
      w := w.set! i ((p[o]!.toUInt32 <<< 24) ||| (p[o+1]!.toUInt32 <<< 16) ||| (p[o+2]!.toUInt32 <<< 8) ||| p[o+3]!.toUInt32)
    for i in [16:64] do
      let s0 := rotr w[i-15]! 7 ^^^ rotr w[i-15]! 18 ^^^ (w[i-15]! >>> 3)
      let s1 := rotr w[i-2]! 17 ^^^ rotr w[i-2]! 19 ^^^ (w[i-2]! >>> 10)
      w := w.set! i (w[i-16]! + s0 + w[i-7]! + s1)
    let mut a := h[0]!
    let mut b := h[1]!
    let mut c := h[2]!
    let mut d := h[3]!
    let mut e := h[4]!
    let mut f := h[5]!
    let mut g := h[6]!
    let mut hh := h[7]!
    for i in [0:64] do
      let s1 := rotr e 6 ^^^ rotr e 11 ^^^ rotr e 25
      let ch := (e &&& f) ^^^ ((~~~ e) &&& g)
      let t1 := hh + s1 + ch + k256[i]! + w[i]!
      let s0 := rotr a 2 ^^^ rotr a 13 ^^^ rotr a 22
      let mj := (a &&& b) ^^^ (a &&& c) ^^^ (b &&& c)
      let t2 := s0 + mj
      hh := g; g := f; f := e; e := d + t1; d := c; c := b; b := a; a := t1 + t2
    h := #[h[0]! + a, h[1]! + b, h[2]! + c, h[3]! + d, h[4]! + e, h[5]! + f, h[6]! + g, h[7]! + hh]
  let mut out := ByteArray.empty
  for x in h do
    out := (((out.push (x >>> 24).toUInt8).push (x >>> 16).toUInt8).push (x >>> 8).toUInt8).push x.toUInt8
  return out

def hexDigit (n : UInt8) : Char := if n < 10 then Char.ofNat (48 + n.toNat) else Char.ofNat (87 + n.toNat)

def toHex (b : ByteArray) : String :=
  b.foldl (fun s x => (s.push (hexDigit (x >>> 4))).push (hexDigit (x &&& 0xf))) ""

def hexVal (c : Char) : Option UInt8 :=
  if '0' ≤ c ∧ c ≤ '9' then some (c.toNat - 48).toUInt8
  else if 'a' ≤ c ∧ c ≤ 'f' then some (c.toNat - 87).toUInt8
  else if 'A' ≤ c ∧ c ≤ 'F' then some (c.toNat - 55).toUInt8
  else none

def fromHex (s : String) : ByteArray :=
  let rec go : List Char → ByteArray → ByteArray
    | a :: b :: rest, acc => match hexVal a, hexVal b with
      | some x, some y => go rest (acc.push ((x <<< 4) ||| y))
      | _, _ => acc
    | _, acc => acc
  go s.toList ByteArray.empty

def b64chars : Array Char := "ABCDEFGHIJKLMNOPQRSTUVWXYZabcdefghijklmnopqrstuvwxyz0123456789+/".toList.toArray

def base64 (b : ByteArray) : String := Id.run do
  let mut s := ""
  let n := b.size
  let mut i := 0
  while i + 2 < n do
    let x := (b[i]!.toNat <<< 16) ||| (b[i+1]!.toNat <<< 8) ||| b[i+2]!.toNat
    s := (((s.push b64chars[(x >>> 18) &&& 63]!).push b64chars[(x >>> 12) &&& 63]!).push b64chars[(x >>> 6) &&& 63]!).push b64chars[x &&& 63]!
    i := i + 3
  if n - i == 1 then
    let x := b[i]!.toNat <<< 16
    s := (((s.push b64chars[(x >>> 18) &&& 63]!).push b64chars[(x >>> 12) &&& 63]!).push '=').push '='
  else if n - i == 2 then
    let x := (b[i]!.toNat <<< 16) ||| (b[i+1]!.toNat <<< 8)
    s := (((s.push b64chars[(x >>> 18) &&& 63]!).push b64chars[(x >>> 12) &&& 63]!).push b64chars[(x >>> 6) &&& 63]!).push '='
  return s

end Bxh.Exe
