/-
Association-list maps used by all models (executable, enumerable, with get/set rewriting
lemmas).  `set` keeps at most one binding per key so `keys` has no duplicates when built
from `empty` by `set`/`erase`.
-/
namespace Bxh

abbrev KV (α : Type) (β : Type) := List (α × β)

namespace KV
variable {α β : Type} [DecidableEq α]

def empty : KV α β := []

def get (m : KV α β) (k : α) : Option β :=
  match m with
  | [] => none
  | (k', v) :: rest => if k' = k then some v else get rest k

def erase (m : KV α β) (k : α) : KV α β :=
  m.filter (fun p => p.1 ≠ k)

def set (m : KV α β) (k : α) (v : β) : KV α β :=
  (k, v) :: erase m k

def keys (m : KV α β) : List α := m.map (·.1)

def contains (m : KV α β) (k : α) : Bool := (get m k).isSome

def getD (m : KV α β) (k : α) (d : β) : β := (get m k).getD d

@[simp] theorem get_empty (k : α) : get (empty : KV α β) k = none := rfl

theorem get_erase_eq (m : KV α β) (k : α) : get (erase m k) k = none := by
  induction m with
  | nil => rfl
  | cons p rest ih =>
    obtain ⟨k', v⟩ := p
    unfold erase
    by_cases h : k' = k
    · simp only [List.filter, h, ne_eq, not_true_eq_false, decide_false]
      exact ih
    · simp only [List.filter, ne_eq, h, not_false_eq_true, decide_true, get, if_false]
      exact ih

theorem get_erase_ne (m : KV α β) (k k' : α) (h : k ≠ k') : get (erase m k) k' = get m k' := by
  induction m with
  | nil => rfl
  | cons p rest ih =>
    obtain ⟨k0, v⟩ := p
    unfold erase
    by_cases h0 : k0 = k
    · subst h0
      simp only [List.filter, ne_eq, not_true_eq_false, decide_false, get, h, if_false]
      exact ih
    · simp only [List.filter, ne_eq, h0, not_false_eq_true, decide_true, get]
      by_cases h1 : k0 = k'
      · simp [h1]
      · simp only [h1, if_false]; exact ih

@[simp] theorem get_set_eq (m : KV α β) (k : α) (v : β) : get (set m k v) k = some v := by
  simp [set, get]

theorem get_set_ne (m : KV α β) (k k' : α) (v : β) (h : k ≠ k') : get (set m k v) k' = get m k' := by
  simp only [set, get, h, if_false]
  exact get_erase_ne m k k' h

theorem get_set (m : KV α β) (k k' : α) (v : β) :
    get (set m k v) k' = if k = k' then some v else get m k' := by
  by_cases h : k = k'
  · subst h; simp
  · simp [h, get_set_ne m k k' v h]

end KV
end Bxh
