import Driver.Util
import Driver.SyncEngine
import Driver.ExecEngine
import Driver.LedgerEngine
import Driver.MerkleEngine
import Driver.PoolEngine
import Driver.StoreEngine
import Driver.OrderEngine
import Driver.PermEngine
import Driver.MsigEngine
import Driver.StratEngine
import Driver.GovStepEngine

def main (args : List String) : IO UInt32 := do
  let stdin ← IO.getStdin
  let stdout ← IO.getStdout
  match args with
  | ["sync"] => Driver.loop stdin stdout Driver.SyncEngine.step (); return 0
  | ["govstep"] => Driver.loop stdin stdout Driver.GovStepEngine.step (); return 0
  | ["strat"] => Driver.loop stdin stdout Driver.StratEngine.step (); return 0
  | ["msig"] => Driver.loop stdin stdout Driver.MsigEngine.step (); return 0
  | ["perm"] => Driver.loop stdin stdout Driver.PermEngine.step (); return 0
  | ["order"] => Driver.loop stdin stdout Driver.OrderEngine.step {}; return 0
  | ["store"] => Driver.loop stdin stdout Driver.StoreEngine.step {}; return 0
  | ["pool"] => Driver.loop stdin stdout Driver.PoolEngine.step {}; return 0
  | ["merkle"] => Driver.loop stdin stdout Driver.MerkleEngine.step (); return 0
  | ["ledger"] => Driver.loop stdin stdout Driver.LedgerEngine.step {}; return 0
  | ["exec"] => Driver.loop stdin stdout Driver.ExecEngine.step {}; return 0
  | _ => IO.eprintln "usage: bxhmodel <engine>"; return 2
