import Bxh.Model.Proof
import Driver.Util
/-! line protocol of the `msig` engine (see go/harness/main/msig.go) -/
namespace Driver.MsigEngine
open Bxh.Proof

def sigAddr (s : String) : Option String :=
  if s == "junk" || s == "short" then none
  else if s.startsWith "m:" then some (s.drop 2).toString        -- malleated twin: recovers to the same signer
  else if s.startsWith "w:" then some ("wrong-digest-" ++ s)   -- recovers to an address nobody registered
  else some s

def step1 (ws : List String) : String :=
  match ws with
  | ["reset"] => "ok"
  | ["msig", vs, sg] =>
    if vs == "nil" || vs == "bad" then "err"
    else
      let validators := if vs == "[]" then [] else vs.splitOn ","
      let sigs := if sg == "-" then [] else (sg.splitOn ",").map sigAddr
      match multiSign validators sigs with
      | .ok => "ok"
      | .fail c => s!"fail:{c}"
  | _ => "bad-op"

def step (_ : Unit) (ws : List String) : Unit × String := ((), step1 ws)

end Driver.MsigEngine
