/- small helpers shared by the engine drivers (executable only; not used by theorems) -/
namespace Driver

def words (line : String) : List String :=
  (line.splitOn " ").filter (· ≠ "")

def joinSp (l : List String) : String := " ".intercalate l
def joinC (l : List String) : String := ",".intercalate l

def trimLine (s : String) : String :=
  let s := if s.endsWith "\n" then (s.dropRight 1) else s
  if s.endsWith "\r" then s.dropRight 1 else s

/-- generic read-eval-print loop over stdin -/
partial def loop {σ : Type} (h : IO.FS.Stream) (out : IO.FS.Stream) (step : σ → List String → σ × String) (s : σ) : IO Unit := do
  let line ← h.getLine
  if line.isEmpty then
    out.flush
    return ()
  let ws := words (trimLine line)
  match ws with
  | [] => loop h out step s
  | _ =>
    let (s', o) := step s ws
    out.putStrLn o
    loop h out step s'

end Driver
