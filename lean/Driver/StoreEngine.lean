import Bxh.Model.Chain
import Bxh.Model.Persist
import Driver.Util
namespace Driver.StoreEngine
open Bxh Bxh.Chain

structure St where
  n : Option Node := none

def parseKV (ws : List String) (k : String) : Option String :=
  ws.findSome? (fun w => match w.splitOn "=" with
    | [a, b] => if a == k then some b else none
    | [a] => if a == k then some "" else none
    | _ => none)

def txNames (s : String) : List String := if s == "" || s == "-" then [] else s.splitOn ","

def parseCounter (s : String) : KV String Nat :=
  (s.splitOn ",").filterMap (fun p => match p.splitOn ":" with
    | [c, n] => n.toNat?.map (fun v => (c, v))
    | _ => none)

def showBlk (b : Option Blk) : String :=
  match b with
  | none => "notfound"
  | some b => s!"h={b.height} hash={b.hash} parent={b.parent} txs=[{joinSp b.txs}]"

def sortKV (m : KV String Nat) : KV String Nat := m.mergeSort (fun a b => a.1 ≤ b.1)

def rbStr : RbErr → String
  | .higher => "higher" | .tooMuch => "toomuch" | .noJournal => "nojournal" | .chain => "other"

def step (s : St) (ws : List String) : St × String :=
  match ws with
  | ["reset"] => ({}, "ok")
  | ["open"] => ({ n := some {} }, "ok h=0")
  | _ =>
  match s.n with
  | none => (s, "bad-op")
  | some n =>
  match ws with
  | "persist" :: opts =>
    match persist n (txNames ((parseKV opts "txs").getD "")) (parseCounter ((parseKV opts "counter").getD "")) with
    | some (n', b) =>
      -- the hypothesis of `C09_history_chain_linked` (`FreshHash`: the new block's hash is not the hash of a stored block), evaluated
      let fresh := n.tbl.bodies.all (fun c => c.hash != b.hash)
      -- … and the two side conditions of `C11_recovered_chain_is_before_or_after` on the node the block is persisted on: the stored chain
      -- meta is the cached one (`MetaOk`), all five blockfile tables are as long as the chain is high (`FiveEven`)
      let metaok := decide (n.idx.metaDB.getD (0, "zero", 0) = n.cmeta)
      let five := n.tbl.hashes.length == n.cmeta.1 && n.tbl.bodies.length == n.cmeta.1 && n.tbl.txs.length == n.cmeta.1 &&
        n.tbl.rcpts.length == n.cmeta.1 && n.tbl.inter.length == n.cmeta.1
      ({ n := some n' }, s!"ok h={b.height} hash={b.hash} writes=s{Bxh.Ledger.commitWrites n.st b.height}/c1 ##m fresh=" ++ (if fresh then "1" else "0")
        ++ " metaok=" ++ (if metaok then "1" else "0") ++ " five=" ++ (if five then "1" else "0"))
    | none => (s, "PANIC append-out-of-order")
  | ["getblock", h] => (s, showBlk (getBlock n (h.toNat?.getD 0) false))
  | ["getblock", h, "full"] => (s, showBlk (getBlock n (h.toNat?.getD 0) true))
  | ["byhash", x] => (s, showBlk (getByHash n x))
  | ["blockhash", h] =>
    (s, match getBlockHash n (h.toNat?.getD 0) with | some x => x | none => "zero")
  | ["tx", t] =>
    (s, match getTx n t with | some (some x) => s!"{x}:{x}" | some none => "PANIC index" | none => "notfound")
  | ["receipt", t] =>
    (s, match (match KV.get n.idx.txMeta t with
        | none => none
        | some (h, _, i) => if h = 0 then none else (n.tbl.rcpts[h - 1]?).map (fun (b : Blk) => b.txs[i]?)) with
      | some (some x) => s!"{x}:{x}" | some none => "PANIC index" | none => "notfound")
  | ["meta", t] =>
    (s, match getTxMeta n t with | some (h, hs, i) => s!"h={h} hash={hs} idx={i}" | none => "notfound")
  | ["txcount", h] => (s, match getTxCount n (h.toNat?.getD 0) with | some c => toString c | none => "notfound")
  | ["imeta", h] =>
    (s, match getIMeta n (h.toNat?.getD 0) with
      | some m => "{" ++ joinC ((sortKV m).map fun p => s!"{p.1}:{p.2}") ++ "}"
      | none => "notfound")
  | ["chainmeta"] => (s, s!"h={n.cmeta.1} hash={n.cmeta.2.1} count={n.cmeta.2.2} state={n.st.maxJ}")
  | ["rollback", t] =>
    match rollback n (t.toNat?.getD 0) with
    | .ok n' => ({ n := some n' }, "ok")
    | .error e => (s, "err " ++ rbStr e)
  | ["reopen"] =>
    match reopen n with
    | .ok n' => ({ n := some n' }, s!"ok h={n'.cmeta.1} state={n'.st.maxJ}")
    | .error .stateHigher => ({ n := none }, "err open higher")
    | .error .noJournalAtOpen => ({ n := none }, "err open nojournal-at-open")
    | .error _ => ({ n := none }, "err open other")
  | op :: opts =>
    if op != "crash" && op != "crashw" then (s, "bad-op") else
    let g (k : String) := (parseKV opts k).getD "0"
    -- `crashw`: the process dies after the ks-th low-level write to the state store and the kc-th to the chain index.  The
    -- modelled persist performs: state store = one batch (accounts, storage, code, journal, maxHeight), then above height 10
    -- one pruning batch; chain index = one batch.
    let ks := (g "ks").toNat?.getD 0
    let kc := (g "kc").toNat?.getD 0
    let m : Mask :=
      if op == "crash" then { s := g "S" == "1", j := g "J" == "1", c := g "C" == "1", b := (g "B").toNat?.getD 0 }
      else { s := ks ≥ 1, j := if n.cmeta.1 + 1 > 10 then ks ≥ 2 else ks ≥ 1, c := kc ≥ 1, b := (g "B").toNat?.getD 0 }
    match persist n (txNames ((parseKV opts "txs").getD "")) (parseCounter ((parseKV opts "counter").getD "")) with
    | none => (s, "PANIC append-out-of-order")
    | some (after, b) =>
      let cr := crashed n after m
      -- the abstract recovery model (about which C11_recover_iff is proved) must predict the same outcome as the
      -- concrete one; a difference is printed and shows up as a disagreement with the implementation
      let abs := Bxh.Persist.recover b.height { s := m.s, c := m.c, b := m.b }
      let agree (o : Except OpenErr Node) : Bool :=
        match o, abs with
        | .error .stateHigher, .openError => true
        | .ok n', .opened c st bf => n'.cmeta.1 == c && n'.st.maxJ == st && n'.blocks == bf
        | _, _ => false
      if !agree (reopen cr) then (s, "MODEL-MISMATCH abstract Persist.recover vs concrete Chain.reopen") else
      match reopen cr with
      | .error .stateHigher => ({ n := none }, s!"h={b.height} open-error higher")
      | .error .noJournalAtOpen => ({ n := none }, s!"h={b.height} open-error nojournal-at-open")
      | .error _ => ({ n := none }, s!"h={b.height} open-error other")
      | .ok n' =>
        let head := if n'.cmeta.1 > 0 then (if (getBlock n' n'.cmeta.1 true).isSome then "readable" else "unreadable") else "readable"
        let sk := (match (Bxh.Ledger.getState n'.st 0 "height").2 with | some v => v | none => "-") ++ "/" ++ toString (Bxh.Ledger.getBalance n'.st 0).2
          ++ "/" ++ (match (Bxh.Ledger.getState n'.st 0 "binheight").2 with | some v => v | none => "-")
        -- the head block's state root ("r<h>-<serial>", as its hash is "B<h>.<serial>") against the root the reopened state store chains from
        let headRoot := if n'.cmeta.1 > 0 then
            (match getBlock n' n'.cmeta.1 false with | some hb => "r" ++ ((hb.hash.drop 1).toString.replace "." "-") | none => "?")
          else Bxh.Ledger.zeroRoot
        let root := if headRoot == "?" then "unknown" else if n'.st.prevRoot == headRoot then "match" else "differs"
        ({ n := some n' }, s!"h={b.height} opened chain={n'.cmeta.1} state={n'.st.maxJ} blockfile={n'.blocks} head={head} statekey={sk} root={root}")
  | [] => (s, "bad-op")

end Driver.StoreEngine
