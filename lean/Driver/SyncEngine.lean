import Bxh.Model.Sync
import Driver.Util
namespace Driver.SyncEngine
open Bxh.Sync

def showRanges (rs : List Range) : String :=
  "[" ++ joinSp (rs.map fun r => s!"{r.b}-{r.e}") ++ "]"

/-- `SyncCFTBlocks` / `SyncBFTBlocks` with at least one peer that answers: the blocks of the ranges, in order, then the end
marker; one answered request per range -/
def syncRun (s : Unit) (b e f : String) : Unit × String :=
  match b.toNat?, e.toNat?, f.toNat? with
  | some b, some e, some f =>
    let f := if f = 0 then 5 else f
    if e > 4000 || b == 0 then (s, "bad-op") else
    match syncStream b e f with
    | some (rs, stream) =>
      let blocks := stream.filterMap id
      (s, "blocks=[" ++ joinSp (blocks.map toString) ++ "] " ++ (if stream.getLast? == some none then "end" else "no-end-marker") ++ " requests=" ++ showRanges rs)
    | none => (s, "err")
  | _, _, _ => (s, "bad-op")

def step (s : Unit) (ws : List String) : Unit × String :=
  match ws with
  | ["ranges", b, e, f] =>
    match b.toNat?, e.toNat?, f.toNat? with
    | some b, some e, some f =>
      -- `New` replaces blockFetch = 0 by the default 5
      let f := if f = 0 then 5 else f
      match calcRange b e f with
      | some rs => (s, showRanges rs)
      | none => (s, "err")
    | _, _, _ => (s, "bad-op")
  | "cft" :: b :: e :: f :: _ => syncRun s b e f
  | "bft" :: b :: e :: f :: _ => syncRun s b e f
  | _ => (s, "bad-op")

end Driver.SyncEngine
