import Bxh.Model.Sync
import Driver.Util
namespace Driver.SyncEngine
open Bxh.Sync

def showRanges (rs : List Range) : String :=
  "[" ++ joinSp (rs.map fun r => s!"{r.b}-{r.e}") ++ "]"

def step (s : Unit) (ws : List String) : Unit × String :=
  match ws with
  | ["ranges", b, e, f] =>
    match b.toNat?, e.toNat?, f.toNat? with
    | some b, some e, some f =>
      -- `New` replaces blockFetch = 0 by the default 5
      let f := if f = 0 then 5 else f
      match calcRange b e f with
      | some rs => (s, showRanges rs)
      | none => (s, "err")
    | _, _, _ => (s, "bad-op")
  | _ => (s, "bad-op")

end Driver.SyncEngine
