import Bxh.Model.Dispatch
import Driver.Util
/-! line protocol of the `perm` engine (see go/harness/main/perm.go) -/
namespace Driver.PermEngine
open Bxh.Dispatch

def parsePerm (s : String) : Option Perm :=
  if s == "self" then some .self else if s == "admin" then some .admin
  else if s == "specific" then some .specific else if s == "bogus" then some .unknown else none

def step1 (ws : List String) : String :=
  match ws with
  | ["reset"] => "ok"
  | ["perm", ps, regulated, regulator, sp, adm] =>
    let perms : Option (List Perm) := if ps == "-" then some [] else (ps.splitOn ",").mapM parsePerm
    match perms with
    | none => "bad-op"
    | some perms =>
      let specific : Option (List String) :=
        if sp == "-" || sp == "bad" then none else if sp == "[]" then some [] else some (sp.splitOn ",")
      let isAdmin : Option Bool := if adm == "1" then some true else if adm == "0" then some false else none
      match checkPermission perms regulated regulator isAdmin specific with
      | .allowed => "allowed"
      | .denied => "denied"
      | .error => "error"
  | _ => "bad-op"

def step (_ : Unit) (ws : List String) : Unit × String := ((), step1 ws)

end Driver.PermEngine
