import Bxh.Model.Gov
import Bxh.Model.GovTable
import Bxh.Gen.GovPriority
import Driver.StratEngine
import Driver.Util
/-! Trace validation of the ballot state machine: each line carries a proposal state as the real
contract reported it (`q prop` of the exec engine), a voter, the role contract's answer and a
ballot; the model's `vote` answers with the next state or the refusal code. -/
namespace Driver.GovStepEngine
open Bxh.Gov

def kv (ws : List String) (k : String) : Option String :=
  ws.findSome? (fun w => if w.startsWith (k ++ "=") then some (w.drop (k.length + 1)).toString else none)

def parseList (s : String) : List String :=
  let inner := ((s.drop 1).dropRight 1).toString
  if inner == "" then [] else inner.splitOn ","

def parseStatus (s : String) : Option PStatus :=
  if s == "proposed" then some .proposed else if s == "approve" then some .approved
  else if s == "reject" then some .rejected else if s == "pause" then some .paused else none

def showStatus : PStatus → String
  | .proposed => "proposed" | .approved => "approve" | .rejected => "reject" | .paused => "pause"

def parseProposal (ws : List String) : Option Proposal :=
  match (kv ws "status").bind parseStatus, (kv ws "a").bind String.toNat?, (kv ws "r").bind String.toNat?,
        (kv ws "init").bind String.toNat?, (kv ws "avail").bind String.toNat?, (kv ws "expr").bind Driver.StratEngine.parse,
        kv ws "voters", kv ws "electorate" with
  | some st, some a, some r, some ini, some av, some ex, some vs, some el =>
    let ballots := (parseList vs).filterMap (fun x => match x.splitOn ":" with
      | [n, "approve"] => some (n, Ballot.approve)
      | [n, "reject"] => some (n, Ballot.reject)
      | _ => none)
    let electorate := (parseList el).filterMap (fun x => match x.splitOn ":" with
      | [n, w] => w.toNat?.map (fun k => (n, k))
      | _ => none)
    some { status := st, electorate := electorate, ballots := ballots, approveNum := a, againstNum := r, initial := ini,
           available := av, expr := ex, special := kv ws "special" == some "1", superVoted := kv ws "super" == some "1" }
  | _, _, _, _, _, _, _, _ => none

def sortStrs (l : List String) : List String := l.mergeSort (fun a b => a ≤ b)

def showProposal (p : Proposal) : String :=
  let vs := sortStrs (p.ballots.map (fun b => b.1 ++ ":" ++ (if b.2 = .approve then "approve" else "reject")))
  s!"status={showStatus p.status} a={p.approveNum} r={p.againstNum} super={if p.superVoted then 1 else 0} voters=[{",".intercalate vs}]"

def errCode : VoteErr → String
  | .notAvailableAdmin => "1010007" | .ended => "1010008" | .repeatVote => "1010009"
  | .noPermission => "1010011" | .illegalBallot => "1010010"

def step1 (ws : List String) : String :=
  match ws with
  | ["reset"] => "ok"
  | "vstep" :: rest =>
    -- the last three tokens are: voter, role answer, ballot
    match rest.reverse with
    | ballot :: adm :: voter :: stateRev =>
      match parseProposal stateRev.reverse with
      | none => "bad-state"
      | some p =>
        let b : Option Ballot := if ballot == "approve" then some .approve else if ballot == "reject" then some .reject else none
        (match vote p voter (adm == "1") b with
          | .ok p' => "ok " ++ showProposal p'
          | .error e => "err " ++ errCode e)
    | _ => "bad-op"
  | _ => "bad-op"

-- ------------------------------------------------------------------------------------ proposal table steps
open Bxh.GovTable in
def parseSt (s : String) : Option St :=
  if s == "proposed" then some .proposed else if s == "approve" then some .approved
  else if s == "reject" then some .rejected else if s == "pause" then some .paused else none

open Bxh.GovTable in
def showSt : St → String
  | .proposed => "proposed" | .approved => "approve" | .rejected => "reject" | .paused => "pause"

/-- priority of a governance event, from the table regenerated out of governance.go -/
def prioOf (ev : String) : Option Nat := (Bxh.Gen.govPriority.find? (·.1 == ev)).map (·.2)

open Bxh.GovTable in
/-- `obj/event/status/lock` -/
def parseEntry (w : String) : Option Entry :=
  match w.splitOn "/" with
  | [obj, ev, st, lk] =>
    match prioOf ev, parseSt st with
    | some p, some s =>
      if lk == "-" then some { obj := obj, prio := p, status := s, lock := none }
      else lk.toNat?.map (fun n => { obj := obj, prio := p, status := s, lock := some n })
    | _, _ => none
  | _ => none

open Bxh.GovTable in
def parseTOp (w : String) : Option Bxh.GovTable.Op :=
  match w.splitOn "/" with
  | ["submit", obj, ev] => (prioOf ev).map (fun p => .submit obj p)
  | ["conclude", i, r] => i.toNat?.map (fun n => .conclude n (r == "approve"))
  | ["electorate", i, r] => i.toNat?.map (fun n => .electorate n (r == "approve"))
  | ["withdraw", i] => i.toNat?.map (fun n => .withdraw n)
  | ["endobj", obj] => some (.endObj obj)
  | ["unlockobj", obj] => some (.unlockObj obj)
  | _ => none

open Bxh.GovTable in
/-- `tstep <op> <entry>…`: the statuses (and lock pointers) of the table after the operation -/
def tstep (ws : List String) : String :=
  match ws with
  | opw :: es =>
    let ents := es.map parseEntry
    match parseTOp opw, ents.all Option.isSome with
    | some op, true =>
      let t' := Bxh.GovTable.step (ents.filterMap id) op
      "ok " ++ ",".intercalate (t'.map (fun e => showSt e.status ++ ":" ++ (match e.lock with | some l => toString l | none => "-")))
    | _, _ => "bad-state"
  | _ => "bad-op"

def step (_ : Unit) (ws : List String) : Unit × String :=
  match ws with
  | "tstep" :: rest => ((), tstep rest)
  | _ => ((), step1 ws)

end Driver.GovStepEngine
