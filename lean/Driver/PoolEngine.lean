import Bxh.Model.Mempool
import Driver.Util
namespace Driver.PoolEngine
open Bxh Bxh.Mempool

structure St where
  p : Option Pool := none
  batches : List (List String) := []      -- hash names of produced, uncommitted batches (oldest first)

def parseKV (ws : List String) (k : String) : Option String :=
  ws.findSome? (fun w => match w.splitOn "=" with
    | [a, b] => if a == k then some b else none
    | _ => none)

def parseLedger (s : String) : KV String Nat :=
  (s.splitOn ",").filterMap (fun p => match p.splitOn ":" with
    | [a, n] => n.toNat?.map (fun v => (a, v))
    | _ => none)

def parseInt? (s : String) : Option Int :=
  if s.startsWith "-" then (s.drop 1).toNat?.map (fun n => -(n : Int)) else s.toNat?.map (fun n => (n : Int))

def parseTx (s : String) : Option TxR :=
  match s.splitOn ":" with
  | [a, n, h, ts] => match n.toNat?, parseInt? ts with
    | some n, some ts => some { acct := a, nonce := n, hash := h, ts := ts }
    | _, _ => none
  | _ => none

def showBatch (b : Batch) : String :=
  "batch=[" ++ joinSp (b.txs.map fun t => match t with
    | some tx => s!"{tx.acct}:{tx.nonce}:{tx.hash}"
    | none => "nil") ++ s!"]@{b.height}"

def showOpt (b : Option Batch) : String := match b with | some b => showBatch b | none => "none"

def noteBatch (s : St) (b : Option Batch) : St :=
  match b with
  | some b => { s with batches := s.batches ++ [b.txs.filterMap (fun t => t.map (·.hash))] }
  | none => s

def b2s (b : Bool) : String := if b then "1" else "0"

def step (s : St) (ws : List String) : St × String :=
  match ws with
  | "txcache" :: opts =>
    -- size 0 is replaced by the default set size (10) in NewTxCache
    let k := ((parseKV opts "size").bind String.toNat?).getD 0
    let k := if k == 0 then 10 else k
    let n := ((parseKV opts "n").bind String.toNat?).getD 0
    let nilAt := (parseKV opts "nil").bind String.toNat?
    if n > 3000 then (s, "bad-op") else
    let arrivals : List (Option Nat) := (List.range n).map (fun i => if some i == nilAt then none else some i)
    let sets := txCacheRun k arrivals
    -- the arrivals are numbered in order: the concatenation of the sets must be ascending without a gap
    let flat := sets.flatten
    let inOrder := flat == arrivals.filterMap id
    (s, "sets=[" ++ joinSp (sets.map fun l => toString l.length) ++ "] order=" ++ (if inOrder then "1" else "0"))
  | ["reset"] => ({}, "ok")
  | "new" :: opts =>
    let bs := ((parseKV opts "batch").bind String.toNat?).getD 0
    let ps := ((parseKV opts "pool").bind String.toNat?).getD 0
    let seq := ((parseKV opts "seq").bind String.toNat?).getD 0
    let p : Pool := { batchSize := if bs == 0 then 500 else bs, poolSize := if ps == 0 then 50000 else ps,
                      timed := parseKV opts "timed" == some "1", seqNo := seq,
                      ledger := parseLedger ((parseKV opts "ledger").getD "") }
    ({ p := some p }, "ok")
  | _ =>
  match s.p with
  | none => (s, "bad-op")
  | some p =>
  match ws with
  | "proc" :: l :: _ :: g :: txs =>
    let leader := l == "leader=1"
    let grp := ((parseKV [g] "g").bind String.toNat?).getD 0
    let ts := txs.map parseTx
    if ts.all Option.isSome then
      let (p', b) := process p (ts.filterMap id) leader grp
      (noteBatch { s with p := some p' } b, showOpt b)
    else (s, "bad-op")
  | ["gen"] =>
    let (p', b) := generate p
    -- the hypothesis of C18_never_below_commit_nonce, evaluated on the pool the batch is built from: everything batched and
    -- uncommitted lies at or above its account's committed nonce (the cached one, else the ledger's)
    let cnOf (a : String) : Nat := match KV.get p.commitN a with | some n => n | none => KV.getD p.ledger a 0
    let above := p.batched.all (fun x => decide (cnOf x.1 ≤ x.2))
    (noteBatch { s with p := some p' } b, showOpt b ++ " ##m abovecn=" ++ (if above then "1" else "0"))
  | "commit" :: hs => ({ s with p := some (commit p hs) }, "ok")
  | ["commitready", j] =>
    -- a block of another leader: the first ready transaction (priority order) that is not batched here, whose account has
    -- nothing batched here and whose nonce is the account's committed nonce, and its ready successors (at most j in all)
    let busy := p.batched.map (·.1)
    let commitOf (a : String) : Nat := match KV.get p.commitN a with | some n => n | none => KV.getD p.ledger a 0
    match (sortPrio p.priority).find? (fun k => !busy.contains k.2.1 && k.2.2 == commitOf k.2.1) with
    | none => (s, "none")
    | some k =>
      let hs := (List.range (j.toNat?.getD 1)).foldl (fun (acc : List String × Bool) i =>
        if acc.2 then acc else
        match KV.get p.items (k.2.1, k.2.2 + i) with
        | some tx => if (tx.ts, k.2.1, k.2.2 + i) ∈ p.priority then (acc.1 ++ [tx.hash], false) else (acc.1, true)
        | none => (acc.1, true)) ([], false)
      if hs.1.isEmpty then (s, "none") else
      ({ s with p := some (commit p hs.1) }, "ok " ++ ",".intercalate hs.1)
  | "commitlast" :: rest =>
    match s.batches with
    | [] => (s, "nobatch")
    | hs :: more =>
      let mode := rest.headD "all"
      if mode == "second" && more.isEmpty then (s, "nobatch") else
      let (use, left) : List String × List (List String) :=
        if mode == "all" then (hs, more)
        else if mode == "rev" then (hs.reverse, more)
        else if mode == "second" then (more.headD [], hs :: more.drop 1)
        else if mode.startsWith "last:" then
          let j := ((mode.drop 5).toNat?).getD 0
          if j ≥ hs.length then (hs, more) else (hs.drop (hs.length - j), hs.take (hs.length - j) :: more)
        else
          let j := ((mode.drop 6).toNat?).getD 0
          let j := if j > hs.length then hs.length else j
          if j == hs.length then (hs, more) else (hs.take j, hs.drop j :: more)
      ({ s with p := some (commit p use), batches := left }, "ok " ++ ",".intercalate use)
  | ["fcommit", a, n] =>
    let nn := n.toNat?.getD 0
    let p1 := { p with ledger := if KV.getD p.ledger a 0 < nn + 1 then KV.set p.ledger a (nn + 1) else p.ledger }
    ({ s with p := some (commit p1 [s!"foreign-{a}-{nn}"]) }, "ok")
  | ["evict", c] =>
    let cut := ((parseKV [c] "cut").bind String.toNat?).getD 0
    let (p', n) := evict p cut
    ({ s with p := some p' }, s!"removed={n}")
  | ["evict", c, _tol] =>
    -- an extreme tolerance (`tol=max`: "never"; `tol=250y`): given with cut=0 — nothing is that old
    let cut := ((parseKV [c] "cut").bind String.toNat?).getD 0
    let (p', n) := evict p cut
    ({ s with p := some p' }, s!"removed={n}")
  | ["setseq", n] => ({ s with p := some { p with seqNo := n.toNat?.getD 0 } }, "ok")
  | "restart" :: opts =>
    let seq := ((parseKV opts "seq").bind String.toNat?).getD 0
    let np : Pool := { batchSize := p.batchSize, poolSize := p.poolSize, timed := p.timed, seqNo := seq,
                       ledger := parseLedger ((parseKV opts "ledger").getD "") }
    ({ p := some np, batches := [] }, "ok")
  | "obs" :: opts =>
    let accts := (((parseKV opts "accounts").getD "").splitOn ",").filter (· ≠ "")
    let hashes := (((parseKV opts "hashes").getD "").splitOn ",").filter (· ≠ "")
    let (p1, pn) := accts.foldl (fun (acc : Pool × List String) a =>
      let (p', n) := getPending acc.1 a
      (p', acc.2 ++ [s!"{a}:{n}"])) (p, [])
    let has := hashes.map (fun h => match getTx p1 h with
      | some tx => s!"{h}:{tx.acct}/{tx.nonce}/{tx.hash}"
      | none => s!"{h}:-")
    ({ s with p := some p1 },
     s!"pending={b2s (hasPending p1)} full={b2s (isFull p1)} pn=\{{joinSp pn}} has=\{{joinSp has}} prio={p1.priority.length} park={p1.parking.length} batched={p1.batched.length} hashes={p1.hashMap.length} nonbatch={p1.nonBatch}")
  | _ => (s, "bad-op")

end Driver.PoolEngine
