import Bxh.Model.Exec
import Bxh.Model.Router
import Driver.Util
import Bxh.Model.ProofGroups
import Bxh.Gen.ProofFanout
namespace Driver.ExecEngine
open Bxh Bxh.Exec

def userFunds : Int := 1000000000000
def genesisBalance : Int := 1000000000000000000000000

def sv (chain sid : String) : SvcId := { bxh := "1356", chain := chain, sid := sid }

/-- the fixed world built by the harness prelude (go/harness/main/exec.go) -/
def worldServices : List (String × String × Svc) := [
  ("c1", "s1", { ordered := true, blacklist := [], available := true }),
  ("c1", "s2", { ordered := true, blacklist := [], available := true }),
  ("c2", "s1", { ordered := true, blacklist := [], available := true }),
  ("c2", "s2", { ordered := false, blacklist := [], available := true }),
  ("c3", "s1", { ordered := true, blacklist := [sv "c1" "s2"], available := true }),
  ("c2", "s3", { ordered := true, blacklist := [], available := true }),
  ("c4", "s1", { ordered := true, blacklist := [{ bxh := "9999", chain := "c6", sid := "s2" }], available := true })
]

structure St where
  cfg : Cfg := {}
  node : Node := { led := {}, height := 0 }
  started : Bool := false
  hist : List (Nat × Node) := []      -- the node after each height (for `reorg`: consensus replaces an executed block)
  minJ : Nat := 1                     -- `minJnlHeight` of the state ledger: the lowest height a rollback may name (journals are pruned below head-10)
  log : List (Tx × Bool) := []        -- every transaction of this history, in order (tx token `again <k>`: the k-th once more)
  groups : Nat := 5                   -- `configGroup` of verifyProofs: 5 for proof type "parallel" (the world's default), 1 for "serial"

def initNode : Node :=
  let store : KV Key Val := worldServices.foldl (fun m p =>
    KV.set (KV.set m (.svc p.1 p.2.1) (.svc p.2.2)) (.ic (sv p.1 p.2.1)) (.ic {})) []
  let bal : KV String Int := [
    ("u0", userFunds), ("u1", userFunds), ("u2", userFunds), ("u3", userFunds),
    ("ca1", userFunds - 3 * 210000), ("ca2", userFunds - 4 * 210000), ("ca3", userFunds - 2 * 210000), ("ca4", userFunds - 2 * 210000),
    -- the genesis balance, plus / minus what the world's prelude (funding of the users and chain admins by adm0, registrations and
    -- votes, all at price 1) leaves each administrator with
    ("adm0", genesisBalance - 8000000126000), ("adm1", genesisBalance + 42000), ("adm2", genesisBalance + 42000), ("adm3", genesisBalance + 2352000)]
  { led := { store := store, bal := bal }, height := 6 }

def parseKV (ws : List String) (k : String) : Option String :=
  ws.findSome? (fun w => match w.splitOn "=" with
    | [a, b] => if a == k then some b else none
    | _ => none)

/-- "c1:s1" (two parts: local hub) or "b:c:s" -/
def parseSvc (s : String) : Option SvcId :=
  match s.splitOn ":" with
  | [c, i] => some { bxh := "1356", chain := c, sid := i }
  | [b, c, i] => some { bxh := b, chain := c, sid := i }
  | _ => none

def SvcId.str (s : SvcId) : String := s!"{s.bxh}:{s.chain}:{s.sid}"
def TxId.str (t : TxId) : String := s!"{SvcId.str t.frm}-{SvcId.str t.to}-{t.index}"

def parseTxId (s : String) : Option TxId :=
  match s.splitOn "-" with
  | [a, b, c] => match parseSvc a, parseSvc b, c.toNat? with
    | some a, some b, some n => some { frm := a, to := b, index := n }
    | _, _, _ => none
  | _ => none

def parseInt? (s : String) : Option Int :=
  if s.startsWith "-" then (s.drop 1).toNat?.map (fun n => -(n : Int)) else s.toNat?.map (fun n => (n : Int))

def parseArg (t : String) : Option Arg :=
  match t.splitOn ":" with
  | k :: rest =>
    let v := ":".intercalate rest
    if k == "s" then
      match parseTxId v with
      | some t => some (.tid t)
      | none => match (if (v.splitOn ":").length == 3 then parseSvc v else none) with
        | some s => some (.svc s)
        | none => some (.s (if v == "~" then "" else v))
    else if k == "al" then some (.s v)                                  -- a comma-joined list of addresses: a string argument
    else if k == "u" then some (match v.toNat? with | some n => .u n | none => .badnum)
    else if k == "b" then some (.b (v == "1"))
    else if k == "x" || k == "ibtp" || k == "ibtpc" || k == "addrs" || k == "trust" then some .opq      -- bytes arguments: opaque to the model
    else if k == "f" || k == "raw" then some .badnum                    -- float / raw-typed arguments fit no modelled signature
    else if k == "i" then some (match parseInt? v with | some n => .i n | none => .badnum)
    else none
  | _ => none

def parseGroup (s : String) : Option (Option (List (SvcId × Nat))) :=
  if s == "-" then some none
  else
    let r := (s.splitOn ",").foldl (fun (acc : Option (List (SvcId × Nat))) p =>
      match acc, p.splitOn "=" with
      | some l, [k, v] => match parseSvc k, v.toNat? with
        | some k, some n => some (l ++ [(k, n)])
        | _, _ => none
      | _, _ => none) (some [])
    r.map some

def parseTx (t : List String) : Option Tx :=
  match t with
  | ["xfer", f, to, amt] => some (.xfer f to (parseInt? amt))
  | "ibtp" :: signer :: f :: to :: idx :: typ :: tmo :: grp :: pk :: more =>
    -- tenth token: the Extra field
    let ext : Option Ext := match more with
      | [] => some .none
      | ["x:bf"] => some .beginFailure
      | ["x:br"] => some .beginRollback
      | ["x:ok"] => some .other
      | ["x:junk"] => some .junk
      | _ => none
    match idx.toNat?, parseInt? tmo, parseGroup grp with
    | some idx, some tmo, some grp =>
      let typ := if typ == "req" then some IType.interchain else if typ == "ok" then some .receiptSuccess
        else if typ == "fail" then some .receiptFailure else if typ == "rb" then some .receiptRollback
        else typ.toNat?.map IType.other
      let pk := if pk == "ok" then some ProofKind.ok else if pk == "none" then some .none else if pk == "bad" then some .bad else if pk == "false" then some .plainFalse
        -- signatures of the first k validators of another BitXHub (registered in the world option hub=1; a hub registered by
        -- governance inside a history is not followed by the model: the comparison of such a history has ended by then)
        -- msigd<k>: one validator signing k times counts once
        else if pk.startsWith "msigd" then ((pk.drop 5).toNat?.map (fun k => ProofKind.msig (min k 1)))
        else if pk.startsWith "msig" then ((pk.drop 4).toNat?.map ProofKind.msig) else none
      -- a destination whose chain id equals its BitXHub id addresses a hub-level (inter-broker) service: outside the model
      let hubSvc := match parseSvc to with | some d => d.chain == d.bxh | none => false
      if hubSvc then some (.bvm signer "?ibtp" "?" []) else
      match typ, pk, ext with
      | some typ, some pk, some ext =>
        some (.ibtp signer { frm := parseSvc f, to := parseSvc to, index := idx, typ := typ, timeout := tmo, group := grp, ext := ext } pk)
      | _, _, _ => some (.bvm signer "?ibtp" "?" [])
    -- an IBTP whose index / timeout / group the op language cannot express (malformed group keys, ...): outside the model
    | _, _, _ => some (.bvm signer "?ibtp" "?" [])
  | "bvm" :: signer :: c :: m :: args =>
    let as := args.map parseArg
    if as.all Option.isSome then some (.bvm signer c m (as.filterMap id)) else none
  -- raw payloads / raw transaction data: outside the model (a failed or successful receipt the model does not predict)
  -- Ethereum transactions are outside the model.  One that the EVM refuses charges nothing (no gas used): it is given the
  -- empty account, whose fee step finds nothing to take; a successful one ends the comparison of the history (mask)
  | "eth" :: _ :: _ => some (.bvm "" "?eth" "?" [])
  | "ethx" :: _ :: _ => some (.bvm "" "?eth" "?" [])     -- an Ethereum transaction with a damaged signature: outside the model
  | "raw" :: signer :: _ => some (.bvm signer "?" "?" [])
  | "rawtd" :: signer :: _ => some (.bvm signer "?" "?" [])
  | _ => none

/-- `sig:nofrom`: the transaction has no sender; the executor only answers with a failed receipt and charges nobody.
The model has no sender-less transaction: it is given the empty account (balance 0, so the fee step finds nothing to take) -/
def noSender : Tx → Tx
  | .xfer _ t a => .xfer "" t a
  | .ibtp _ i p => .ibtp "" i p
  | .bvm _ c m a => .bvm "" c m a

def splitTxs (ws : List String) : List (List String) :=
  let (acc, cur) := ws.foldl (fun (p : List (List String) × List String) w =>
    if w == "|" then (if p.2.isEmpty then p.1 else p.1 ++ [p.2], []) else (p.1, p.2 ++ [w])) ([], [])
  if cur.isEmpty then acc else acc ++ [cur]

def b2s (b : Bool) : String := if b then "1" else "0"

def showRcpt (r : Rcpt) : String :=
  (if r.ok then "S:" else "F:") ++ r.ret ++ ":" ++ toString r.txStatus

def sortStrings (l : List String) : List String := l.mergeSort (fun a b => a ≤ b)

def sortKV {β : Type} (m : KV String β) : KV String β :=
  m.mergeSort (fun a b => a.1 ≤ b.1)

def TId.str : TId → String
  | .single t => TxId.str t
  | .global g => "G(" ++ SvcId.str g.frm ++ ")"

/-- `outside[i]`: transaction i lies outside the model's op language (mapped to an unknown contract call).  When its sender
cannot pay, both sides answer with the fee failure; the TxStatus field of that failed receipt carries the discarded contract
result, which the model does not know: printed as `?` -/
def showBlock (o : BlockOut) (outside : List Bool := []) : String :=
  let rc := joinSp ((o.rcpts.zip (outside ++ List.replicate o.rcpts.length false)).map fun p =>
    if p.2 && !p.1.ok && p.1.ret == "fee" then "F:fee:?" else showRcpt p.1)
  let cs := ";".intercalate ((sortKV o.counter).map fun p =>
    p.1 ++ ":[" ++ joinC (p.2.map fun v => s!"{v.index}/{b2s v.valid}/{b2s v.isBatch}") ++ "]")
  let ts := ";".intercalate ((sortKV o.timeoutCounter).map fun p => p.1 ++ ":[" ++ joinC (sortStrings (p.2.map TId.str)) ++ "]")
  let ms := ";".intercalate ((sortKV o.multiCounter).map fun p => p.1 ++ ":[" ++ joinC (sortStrings (p.2.map TxId.str)) ++ "]")
  -- what the interchain router hands to the piers (model `Bxh.Router.classify`)
  let rt := ";".intercalate ((sortKV (Bxh.Router.classify o)).filterMap fun p =>
    if p.2.txs.isEmpty && p.2.timeouts.isEmpty && p.2.multi.isEmpty then none else
    some (p.1 ++ ":[" ++ joinC (p.2.txs.map fun v => s!"{v.index}/{b2s v.valid}/{b2s v.isBatch}") ++ "]|[" ++
      joinC (sortStrings (p.2.timeouts.map TId.str)) ++ "]|[" ++ joinC (sortStrings (p.2.multi.map TxId.str)) ++ "]"))
  s!"h={o.height} rc=[{rc}] counter=\{{cs}} timeout=\{{ts}} multi=\{{ms}} route=\{{rt}}"

def showCounter (m : KV SvcId Nat) : String :=
  "{" ++ joinC (sortStrings (m.map fun p => s!"{SvcId.str p.1}={p.2}")) ++ "}"

def doBlock (s : St) (rest : List String) : St × String :=
  -- `sig:<kind> <tx>`: the transaction is not local, its signature is verified; every kind but `ok` is an invalid signature
  let parseSigned (t : List String) : Option (Tx × Bool) :=
    match t with
    | k :: inner =>
      if k.startsWith "hdr:" then
        -- a transaction without (or with a zero) receiver: outside the model, a failed receipt the signer pays for
        (parseTx inner).map (fun x => (match x with
          | .xfer f _ _ => .bvm f "?hdr" "?" []
          | .ibtp s _ _ => .bvm s "?hdr" "?" []
          | .bvm s _ _ _ => .bvm s "?hdr" "?" [], true))
      else if k == "sig:nofrom" then (parseTx inner).map (fun x => (noSender x, false))
      else if k.startsWith "sig:" then (parseTx inner).map (fun x => (x, k == "sig:ok")) else (parseTx t).map (fun x => (x, true))
    | [] => none
  -- `again k`: the k-th transaction of the history once more; an index behind the log names a transaction of this very block
  -- `xfer <from> <to> all-<k>`: the sender's balance as the block begins, minus k
  let resolveAll (t : List String) : List String := match t with
    | ["xfer", f, to, amt] =>
      if amt.startsWith "all-" then
        match (amt.drop 4).toString.toInt? with
        | some k => ["xfer", f, to, toString (s.node.led.getBal f - k)]
        | none => t
      else t
    | _ => t
  let txs := ((splitTxs rest).map resolveAll).foldl (fun (acc : List (Option (Tx × Bool))) t => acc ++ [match t with
    | ["again", k] => (k.toNat?).bind (fun i => if i < s.log.length then s.log[i]? else (acc[i - s.log.length]?).join)
    | _ => parseSigned t]) []
  if txs.all Option.isSome then
    let (n', out) := execBlock s.cfg s.node (txs.filterMap id)
    let outside := (txs.filterMap id).map fun p => match p.1 with
      | .bvm _ c _ _ => c.startsWith "?"
      | _ => false
    -- does the hypothesis of C04_block_final_stays hold of this block?  (no record on the timeout list of this height is
    -- final when the timeout step runs) — evaluated on the model's own state, reported as a model-only annotation
    let h := s.node.height + 1
    let a := applyTxs s.cfg s.node.cache h s.node.led (txs.filterMap id)
    let l2 := setTimeoutList s.cfg a.led h ((txs.filterMap id).map (·.1)) a.rcpts
    let listedFinal := (getTimeoutList l2 h).any fun id => match id with
      | .single t => (match l2.getS (.txRec t) with | some (.trec r) => r.status.isFinal | _ => false)
      | .global _ => false
    -- the other hypotheses of the C04 block theorems, evaluated on the model's own state: is the bookkeeping of this block
    -- abandoned (`abort`, hypothesis of C04_block_finalising_unlists)?  and does `OpenInv` hold of every open one-to-one record
    -- of a local pair at the end of this block (on the lists of heights still to come the id occurs at most once, and only on the
    -- list of the deadline its record names)?
    let acts := (((txs.filterMap id).map (·.1)).zip a.rcpts).map (fun p => timeoutAct s.cfg a.led h p.1 p.2)
    let aborted := acts.contains .abort
    let openInv := n'.led.store.all fun kv => match kv with
      | (.txRec t, .trec r) =>
        if r.status.isFinal || t.frm.bxh != t.to.bxh then true else
        n'.led.store.all fun kv2 => match kv2 with
          | (.timeout d, .tlist lst) =>
            if d ≤ h then true else
            let c := lst.count (some (TId.single t))
            decide (c ≤ 1) && (c == 0 || d == r.height)
          | _ => true
      | _ => true
    -- the hypotheses of the C06 history theorems (`Due`, `C06_block_fires_due`): every group id on the list the timeout step of
    -- this block walks has its record (`GlobalsPresent`: the walk is not abandoned), and every stored timeout list is well-formed
    -- (`WFL`: the emptied-list marker alone, or no marker at all) at the end of the block
    let globalsOk := (getTimeoutList l2 h).all fun id => match id with
      | .global g => (match l2.getS (.glob g) with | some (.glob _) => true | _ => false)
      | .single _ => true
    let wfOk := n'.led.store.all fun kv => match kv with
      | (.timeout _, .tlist lst) => lst == [none] || lst.all (fun x => x.isSome)
      | _ => true
    ({ s with node := n', hist := s.hist ++ [(n'.height, n')], minJ := if n'.height > 10 then max s.minJ (n'.height - 10) else s.minJ,
              log := s.log ++ txs.filterMap id },
      showBlock out outside ++ " ##m listedfinal=" ++ (if listedFinal then "1" else "0") ++
        " abort=" ++ (if aborted then "1" else "0") ++ " openinv=" ++ (if openInv then "1" else "0") ++
        " globals=" ++ (if globalsOk then "1" else "0") ++ " wf=" ++ (if wfOk then "1" else "0") ++
        -- the hypothesis of the router theorems (`C02_router_hands_each_pier_its_delivery_set` …): one entry per chain
        " keyedmulti=" ++ (if decide ((out.multiCounter.map (·.1)).Nodup) then "1" else "0"))
  else (s, "bad-op unparsed")

def step (s : St) (ws : List String) : St × String :=
  if !s.started && ws.head? != some "world" && ws.head? != some "reset" then (s, "bad-op") else
  match ws with
  | ["reset"] => ({}, "ok")
  | "world" :: opts =>
    let price := ((parseKV opts "price").bind String.toNat?).getD 1
    let audit := parseKV opts "audit" == some "1"
    -- hub=1: another BitXHub (9999, four validators) is a registered, available relay chain; its registration took blocks 7..11
    let hub := parseKV opts "hub" == some "1"
    let cfg : Cfg := { price := price, audit := audit, hubs := if hub then ["9999"] else [] }
    let n0 : Node := if hub then
        -- five more prelude blocks: adm0 funds ca9, ca9 registers the relay chain, three admins vote
        { initNode with height := 11, led := { initNode.led with bal :=
            (initNode.led.bal.filter (fun p => !(p.1 == "adm0" || p.1 == "adm1" || p.1 == "adm2" || p.1 == "adm3"))) ++
            [("adm0", genesisBalance - 8100000141750), ("adm1", genesisBalance + 47250), ("adm2", genesisBalance + 47250),
             ("adm3", genesisBalance + 2567250), ("ca9", 100000000000 - 210000)] } }
      else initNode
    ({ cfg := cfg, node := n0, started := true, hist := [(n0.height, n0)], groups := if parseKV opts "proof" == some "serial" then 1 else Bxh.Gen.proofMaxGroup }, s!"ok h={n0.height}")
  | "block" :: rest => doBlock s rest
  | ["propose", _] => (s, "ok")       -- harness bookkeeping of proposal references: nothing for the model
  | "reorg" :: hh :: rest =>
    -- the executor rolls the ledger back to height-1 and executes the new block in place of the old one
    match hh.toNat? with
    | none => (s, "bad-op")
    | some h =>
      if h < 2 || h > s.node.height then (s, "bad-op") else
      match s.hist.find? (fun p => p.1 == h - 1) with
      | none => (s, "bad-op")
      | some (_, base) =>
        -- the executor object lives on: its service cache is the running node's one
        let s1 := { s with node := { base with cache := s.node.cache }, hist := s.hist.filter (fun p => p.1 < h) }
        doBlock s1 rest
  | ["lrollback", tt] =>
    -- `Ledger.Rollback(t)` on the stopped node, then a start: the state ledger refuses a height above the head and one below
    -- the journal window, and a refusal leaves state AND chain where they were
    match tt.toNat? with
    | none => (s, "bad-op")
    | some t =>
      if t > s.node.height then (s, s!"err:higher h={s.node.height}")
      else if s.minJ > t && !(s.minJ == 1 && t == 0) then ({ s with node := { s.node with cache := [] } }, s!"err:too-much h={s.node.height}")
      else if t == s.node.height then ({ s with node := { s.node with cache := [] } }, s!"ok h={s.node.height}")
      else match s.hist.find? (fun p => p.1 == t) with
        | none => (s, "bad-op")
        | some (_, base) => ({ s with node := { base with cache := [] }, hist := s.hist.filter (fun p => p.1 ≤ t) }, s!"ok h={t}")
  | ["q", "status", id] =>
    match parseTxId id with
    | some t => (s, match tmGetStatus s.node.led t with | some st => toString st.toNat | none => "none")
    | none => (s, "none")
  | ["q", "gtx", id] =>
    match parseTxId id with
    | some t =>
      match s.node.led.getS (.child t) with
      | some (.gid gid) =>
        match s.node.led.getS (.glob gid) with
        | some (.glob g) =>
          let cs := sortStrings (g.children.map fun p => s!"{TxId.str p.1}={p.2.toNat}")
          (s, s!"g={g.state.toNat} h={g.height} n={g.count} children=[{joinC cs}]")
        | _ => (s, "none")
      | _ => (s, "none")
    | none => (s, "none")
  | ["q", "ic", svc] =>
    match parseSvc svc with
    | some sid =>
      match s.node.led.getS (.ic sid) with
      | some (.ic i) => (s, s!"ic={showCounter i.ic} rc={showCounter i.rc} sic={showCounter i.sic} src={showCounter i.src}")
      | _ => (s, "none")
    | none => (s, "none")
  | ["q", "bal", a] => (s, toString (s.node.led.getBal a))
  | "q" :: "bals" :: extra =>
    (s, joinSp ((["u0", "u1", "u2", "u3", "ca1", "ca2", "ca3", "ca4", "adm0", "adm1", "adm2", "adm3"] ++ extra).map
      fun a => s!"{a}={s.node.led.getBal a}"))
  | ["q", "dump"] => (s, "-")
  | ["q", "dumpdiff"] => (s, "-")
  | "q" :: "proofs" :: rest =>
    -- the proof-verification fan-out (`Bxh.ProofGroups.verifyProofs`) over these transactions: position ↦ reason, nothing is executed
    let txs := (splitTxs rest).map parseTx
    if txs.all Option.isSome then
      let check (t : Tx) : Option String := match t with
        | .ibtp _ i pk => proofVerdict s.cfg i pk
        | _ => none
      let inv := (Bxh.ProofGroups.verifyProofs s.groups check (txs.filterMap id)).mergeSort (fun x y => x.1 ≤ y.1)
      (s, "inv={" ++ joinSp (inv.map fun p => s!"{p.1}:{p.2}") ++ "}")
    else (s, "bad-op")
  | "q" :: "prop" :: _ => (s, "-")
  | "q" :: "obj" :: _ => (s, "-")
  | "q" :: "view" :: _ => (s, "-")
  | ["q", "height"] => (s, toString s.node.height)
  | ["restart"] => ({ s with node := { s.node with cache := [] } }, s!"ok h={s.node.height}")
  | ["restart", _] => ({ s with node := { s.node with cache := [] } }, s!"ok h={s.node.height}")
  | _ => (s, "bad-op")

end Driver.ExecEngine
