import Bxh.Model.Merkle
import Bxh.Exe.Sha256
import Driver.Util
namespace Driver.MerkleEngine
open Bxh.Exe

def h2 (a b : ByteArray) : ByteArray := sha256 (a ++ b)

instance : Inhabited ByteArray := ⟨ByteArray.empty⟩

def step (s : Unit) (ws : List String) : Unit × String :=
  match ws with
  | ["reset"] => (s, "ok")
  | "mroot" :: ts =>
    let leaves := ts.map (fun t => sha256 t.toUTF8)
    match Bxh.Merkle.root h2 leaves with
    | some r => (s, "0x" ++ toHex r)
    | none => (s, "0x0000000000000000000000000000000000000000000000000000000000000000")
  | _ => (s, "bad-op")

end Driver.MerkleEngine
