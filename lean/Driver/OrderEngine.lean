import Bxh.Model.Order
import Bxh.Model.Sync
import Bxh.Model.ReadyLoop
import Bxh.Gen.ReadyOrder
import Driver.Util
namespace Driver.OrderEngine
open Bxh Bxh.Order

structure St where
  n : Option Node := none
  ledger : Nat := 0

def parseKV (ws : List String) (k : String) : Option String :=
  ws.findSome? (fun w => match w.splitOn "=" with
    | [a, b] => if a == k then some b else none
    | _ => none)

def showH (l : List Nat) : String := "[" ++ joinSp (l.map toString) ++ "]"

def stateStr (n : Node) (ledger : Nat) : String :=
  s!"lastExec={n.lastExec} applied={n.applied} snap={n.snapIdx} persisted={n.persisted} queued={n.queue.length} ledger={ledger}"

def parseEntry (s : String) : Option Entry :=
  match s.splitOn ":" with
  | [i, h] => match i.toNat? with
    | some i => if h == "e" then some { idx := i, height := none } else h.toNat?.map (fun v => { idx := i, height := some v })
    | none => none
  | _ => none

def step (s : St) (ws : List String) : St × String :=
  match ws with
  | ["reset"] => ({}, "ok")
  | ["livefollower", _] =>
    -- the real Node's Ready handler, as extracted from the source on this run: the acknowledgement leaves early iff a send precedes the store
    let ok := Bxh.ReadyLoop.okB false (Bxh.Gen.readyHandler.map Bxh.ReadyLoop.classify)
    (s, "acked=1 early=" ++ (if ok then "0" else "1") ++ " delivered=2")
  | "raft" :: "new" :: opts =>
    let le := ((parseKV opts "lastExec").bind String.toNat?).getD 0
    let sc := ((parseKV opts "snapcount").bind String.toNat?).getD 0
    let n : Node := { lastExec := le, snapCount := sc, bai := [(le, 0)] }
    ({ n := some n, ledger := le }, "ok " ++ stateStr n le)
  | _ =>
  match s.n with
  | none => (s, "bad-op")
  | some n =>
  match ws with
  | "ready" :: es =>
    let ents := es.map parseEntry
    if ents.all Option.isSome then
      let n' := ready n (ents.filterMap id)
      let minted := n'.queue.drop n.queue.length
      ({ s with n := some n' }, s!"mint={showH minted} " ++ stateStr n' s.ledger)
    else (s, "bad-op")
  | ["install", i, h] =>
    let idx := i.toNat?.getD 0
    let hh := h.toNat?.getD 0
    if hh < n.lastExec || idx ≤ n.applied then (s, "bad-op") else
    let n' := installSnap n idx hh s.ledger
    ({ s with n := some n' }, s!"mint={showH (n'.queue.drop n.queue.length)} " ++ stateStr n' s.ledger)
  | ["exec"] =>
    match execute n with
    | (n', some h) => ({ n := some n', ledger := h }, s!"executed={h}")
    | (_, none) => (s, "idle")
  | ["drain"] =>
    let hs := n.queue
    let ledger := hs.getLast?.getD s.ledger
    ({ n := some { n with queue := [] }, ledger := ledger }, s!"drained={showH hs}")
  | ["report-last"] =>
    if s.ledger == 0 then (s, "persisted=0") else
    let n' := report n s.ledger
    ({ s with n := some n' }, s!"persisted={n'.persisted}")
  | ["report-back", k] =>
    let kk := k.toNat?.getD 0
    if s.ledger ≤ kk then (s, "persisted=skip") else
    let n' := report n (s.ledger - kk)
    ({ s with n := some n' }, s!"persisted={n'.persisted}")
  | ["report", h] =>
    let n' := report n (h.toNat?.getD 0)
    ({ s with n := some n' }, s!"persisted={n'.persisted}")
  | ["snapshot"] => let n' := snapshot n; ({ s with n := some n' }, s!"snap={n'.snapIdx}")
  | ["restart"] =>
    let (n', re) := restart n s.ledger
    ({ s with n := some n' }, s!"redelivered={re.length} mint={showH n'.queue} " ++ stateStr n' s.ledger ++ s!" hs={n'.hs.1}/{n'.hs.2.1}/{n'.hs.2.2}")
  | ["hs", t, v, c] => ({ s with n := some (setHardState n (t.toNat?.getD 0) (v.toNat?.getD 0) (c.toNat?.getD 0)) }, "ok")
  | ["state"] => (s, stateStr n s.ledger)
  | _ => (s, "bad-op")

end Driver.OrderEngine
