import Bxh.Model.Gov
import Driver.Util
/-! line protocol of the `strat` engine (see go/harness/main/strat.go); parser of the modelled
expression fragment: `cmp ((&&|||) cmp)*`, `cmp = lin op lin`, `lin = term ((+|-) term)*`,
`term = num | var | num * var`, left-associated `&&`/`||` chains of one kind -/
namespace Driver.StratEngine
open Bxh.Gov

/-- decimal with at most one fractional digit, in tenths -/
def tenths (s : String) : Option Int :=
  match s.splitOn "." with
  | [i] => i.toNat?.map (fun n => (n : Int) * 10)
  | [i, f] => if f.length == 1 then (match i.toNat?, f.toNat? with | some a, some b => some ((a : Int) * 10 + b) | _, _ => none) else none
  | _ => none

def varLin (v : String) (k : Int) : Option Lin :=
  if v == "a" then some { ca := k } else if v == "r" then some { cr := k } else if v == "t" then some { ct := k } else none

def addLin (x y : Lin) (sgn : Int) : Lin :=
  { c := x.c + sgn * y.c, ca := x.ca + sgn * y.ca, cr := x.cr + sgn * y.cr, ct := x.ct + sgn * y.ct }

/-- one term from the token list; returns the term and the rest -/
def parseTerm : List String → Option (Lin × List String)
  | n :: "*" :: v :: rest =>
    match tenths n, varLin v 1 with
    | some k, some _ => (varLin v k).map (fun l => (l, rest))
    | _, _ => none
  | x :: rest =>
    match varLin x 10 with
    | some l => some (l, rest)
    | none => (tenths x).map (fun k => ({ c := k * 10 / 10 * 1 } , rest))
  | [] => none

partial def parseLin (ts : List String) : Option (Lin × List String) :=
  match parseTerm ts with
  | none => none
  | some (l, rest) =>
    let rec go (acc : Lin) (ts : List String) : Option (Lin × List String) :=
      match ts with
      | "+" :: r => match parseTerm r with | some (l2, r2) => go (addLin acc l2 1) r2 | none => none
      | "-" :: r => match parseTerm r with | some (l2, r2) => go (addLin acc l2 (-1)) r2 | none => none
      | _ => some (acc, ts)
    go l rest

def parseOp (s : String) : Option Op :=
  if s == ">" then some .gt else if s == ">=" then some .ge else if s == "<" then some .lt else if s == "<=" then some .le
  else if s == "==" then some .eq else if s == "!=" then some .ne else none

def parseCmp (ts : List String) : Option (Expr × List String) :=
  match parseLin ts with
  | some (l, o :: rest) =>
    match parseOp o, parseLin rest with
    | some op, some (r, rest2) => some (.cmp l op r, rest2)
    | _, _ => none
  | _ => none

partial def parseExpr (ts : List String) : Option Expr :=
  match parseCmp ts with
  | none => none
  | some (e, rest) =>
    let rec go (acc : Expr) (ts : List String) : Option Expr :=
      match ts with
      | [] => some acc
      | "&&" :: r => match parseCmp r with | some (e2, r2) => go (.and acc e2) r2 | none => none
      | "||" :: r => match parseCmp r with | some (e2, r2) => go (.or acc e2) r2 | none => none
      | _ => none
    go e rest

def parse (s : String) : Option Expr := parseExpr ((s.splitOn "_").filter (· ≠ ""))

def step1 (ws : List String) : String :=
  match ws with
  | ["reset"] => "ok"
  | ["dec", e, a, r, t, av] =>
    match parse e, a.toNat?, r.toNat?, t.toNat?, av.toNat? with
    | some ex, some a, some r, some t, some av =>
      (match Bxh.Gov.decide ex a r t av with | .approved => "approved" | .rejected => "rejected" | .open => "open")
    | _, _, _, _, _ => "err"
  | ["adm", e, n] =>
    match parse e, n.toNat? with
    | some ex, some n => if admissible ex n then "ok" else "bad"
    | _, _ => "bad"
  | _ => "bad-op"

def step (_ : Unit) (ws : List String) : Unit × String := ((), step1 ws)

end Driver.StratEngine
