import Bxh.Model.Ledger
import Bxh.Proofs.LedgerQuery
import Bxh.Exe.Sha256
import Driver.Util
namespace Driver.LedgerEngine
open Bxh Bxh.Ledger Bxh.Exe

def addrBytes (a : Addr) : ByteArray :=
  (ByteArray.mk (Array.replicate 19 0)).push (a + 1).toUInt8

def marshalInner (i : Inner) : String :=
  let ch := match i.codeHash with
    | none => "null"
    | some h => "\"" ++ base64 (fromHex h) ++ "\""
  "{\"nonce\":" ++ toString i.nonce ++ ",\"balance\":" ++ toString i.balance ++ ",\"code_hash\":" ++ ch ++ "}"

/-- the real state-root function: sha256( ‖_{accts} (addr ‖ json(acct)? ‖ sha256(‖ k‖v)) ‖ prevRoot ) -/
def realH (p : RootPre) : String :=
  let body := p.accts.foldl (fun (b : ByteArray) a =>
    -- a key written `%<hex>` in the op language stands for those raw bytes (EVM storage slots are not text); every such key
    -- of the generators starts with the byte 0x25 ('%'), so the order of the tokens is the order of the bytes
    let sd := a.stateData.foldl (fun (x : ByteArray) kv =>
      x ++ (if kv.1.startsWith "%" then fromHex (kv.1.drop 1).toString else kv.1.toUTF8) ++ (kv.2.getD "").toUTF8) ByteArray.empty
    let b1 := b ++ addrBytes a.addr
    let b2 := match a.acct with
      | some i => b1 ++ (marshalInner i).toUTF8
      | none => b1
    b2 ++ sha256 sd) ByteArray.empty
  "0x" ++ toHex (sha256 (body ++ fromHex (p.prev.drop 2).toString))

def keccakEmpty := "c5d2460186f7233c927e7db2dcc703c0e500b653ca82273b7bfad8045d85a470"

structure St where
  l : L := {}
  opened : Bool := false
  flushed : Option Flushed := none
  ktab : KV String String := [("", keccakEmpty)]

def K (s : St) (code : String) : String := KV.getD s.ktab code "?"

def tok (s : String) : String := if s == "~" then "" else s

def showB (b : Bytes) : String :=
  match b with
  | none => "-"
  | some "" => "~"
  | some v => v

/-- `Bxh.Ledger.Coh` as a computation -/
def cohB (db : DB) (a : Addr) (acc : Acct) : Bool :=
  decide (acc.originAcc = KV.get db.acct a) &&
  acc.dirtyState.all (fun p =>
    !(!beq ((KV.get acc.originState p.1).getD none) p.2) ||
      decide (((KV.get acc.originState p.1).getD none).getD "" = (KV.get db.state (a, p.1)).getD "")) &&
  decide (acc.originCode = KV.get db.code a)

def parseAddr (s : String) : Addr := (s.drop 1).toNat?.getD 99

/-- `Bxh.Ledger.CacheDb` as a computation (hypothesis of the eviction / reopen theorems of C13): every cached storage value is the
value the database holds, up to nil / empty -/
def cacheDbB (l : L) : Bool :=
  l.cache.state.all (fun p => p.2.all (fun q => decide (q.2.getD "" = ((KV.get l.db.state (p.1, q.1) : Bytes)).getD "")))
/-- `Bxh.Ledger.InnerDb` as a computation: every cached account record is the stored one -/
def innerDbB (l : L) : Bool := l.cache.inner.all (fun p => decide (KV.get l.db.acct p.1 = some p.2))
def cdb (l : L) : String := " ##m cachedb=" ++ (if cacheDbB l then "1" else "0") ++ " innerdb=" ++ (if innerDbB l then "1" else "0")

def verLine (l : L) : String := s!"ver={l.maxJ} min={l.minJ} root={l.prevRoot}"

def step (s : St) (ws : List String) : St × String :=
  match ws with
  | ["reset"] => ({}, "ok")
  | ["open"] => ({ opened := true }, "ok " ++ verLine ({} : L))
  | _ =>
  if !s.opened then (s, "bad-op") else
  let l := s.l
  match ws with
  | ["get", a, k] => let (l', v) := getState l (parseAddr a) (tok k); ({ s with l := l' }, if present v then showB v else "-")
  | ["set", a, k, v] => ({ s with l := setState l (parseAddr a) (tok k) (some (tok v)) }, "ok")
  | ["add", a, k, v] => ({ s with l := addState l (parseAddr a) (tok k) (some (tok v)) }, "ok")
  | ["del", a, k] => ({ s with l := setState l (parseAddr a) (tok k) none }, "ok")
  | ["bal", a] => let (l', v) := getBalance l (parseAddr a); ({ s with l := l' }, toString v)
  | ["setbal", a, n] => ({ s with l := setBalance l (parseAddr a) (n.toInt?.getD 0) }, "ok")
  | ["addbal", a, n] =>
    -- AddBalance / SubBalance: a zero delta is no write at all; generators only subtract from accounts that hold enough
    let d := n.toInt?.getD 0
    if d == 0 then (s, "ok") else
      let r := getBalance l (parseAddr a)
      ({ s with l := setBalance r.1 (parseAddr a) (r.2 + d) }, "ok")
  | ["nonce", a] => let (l', v) := getNonce l (parseAddr a); ({ s with l := l' }, toString v)
  | ["setnonce", a, n] => ({ s with l := setNonce l (parseAddr a) (n.toNat?.getD 0) }, "ok")
  | ["code", a] => let (l', v) := getCode l (parseAddr a); ({ s with l := l' }, showB v)
  | ["codehash", a] => let (l', v) := getCodeHash l (parseAddr a); ({ s with l := l' }, match v with | some h => h | none => "-")
  | ["setcode", a, c, h] =>
    let s1 := { s with ktab := KV.set s.ktab (tok c) h }
    ({ s1 with l := setCode (K s1) l (parseAddr a) (tok c) }, "ok")
  | ["query", a, p] =>
    let (l', vs) := query l (parseAddr a) (tok p)
    let rank (b : Bytes) : Nat := match b with | none => 0 | some "" => 1 | _ => 2
    let vs := vs.mergeSort (fun x y => rank x ≤ rank y)
    -- do the hypotheses of C13_query_lists_exactly_the_live_keys hold of the state this query runs on?  (`queryHypB_sound`)
    ({ s with l := l' }, (if vs.isEmpty then "0" else "1") ++ " [" ++ joinSp (vs.map showB) ++ "] ##m qhyp=" ++ (if queryHypB l then "1" else "0"))
  | ["snap"] => let (l', id) := snapshot l; ({ s with l := l' }, toString id)
  | ["revert", id] =>
    match revertTo (K s) l (id.toNat?.getD 0) with
    | some l' => ({ s with l := l' }, "ok")
    | none => (s, "PANIC revision")
  | ["finalise"] => ({ s with l := finalise l }, "ok")
  | ["clear"] => ({ s with l := clear l }, "ok")
  | ["flush"] =>
    let (l', f) := flush realH l
    let ds := (f.accounts.map (·.1)).mergeSort (· ≤ ·)
    ({ s with l := l', flushed := some f }, s!"root={f.root} dirty=[" ++ joinSp (ds.map fun a => s!"a{a}") ++ "]")
  | ["commit", h] =>
    match s.flushed with
    | none => (s, "bad-op no-flush")
    | some f =>
      match commit l (h.toNat?.getD 0) f with
      | some l' =>
        -- do the hypotheses of C12_rollback_restores_previous_block hold of this commit?  (distinct addresses; the origin
        -- fields of every committed account object are what the state store holds right now)
        let coh := f.accounts.all (fun p => cohB l.db p.1 p.2) && decide ((f.accounts.map (·.1)).Nodup)
        -- which clause fails first (account record / storage / code), for the evidence
        let why := f.accounts.foldl (fun (w : String) p =>
          if w != "" then w
          else if !decide (p.2.originAcc = KV.get l.db.acct p.1) then "acct"
          else if !decide (p.2.originCode = KV.get l.db.code p.1) then "code"
          else if !cohB l.db p.1 p.2 then
            -- the first changed key whose origin value is not what the state store holds: `<origin>|<stored>`
            (match p.2.dirtyState.find? (fun q => (!beq ((KV.get p.2.originState q.1).getD none) q.2) &&
                !decide (((KV.get p.2.originState q.1).getD none).getD "" = (KV.get l.db.state (p.1, q.1)).getD "")) with
              | some q => "storage:" ++ (match (KV.get p.2.originState q.1).getD none with | some "" => "empty" | some _ => "value" | none => "nil")
                  ++ "|" ++ (match KV.get l.db.state (p.1, q.1) with | some "" => "empty" | some _ => "value" | none => "absent")
              | none => "storage")
          else "") ""
        ({ s with l := l' }, "ok ##m coh=" ++ (if coh then "1" else "0/" ++ (if why == "" then "dup" else why)))
      | none => (s, "err other")
  | ["rollback", t] =>
    match rollback l (t.toNat?.getD 0) with
    | .ok l' => ({ s with l := l' }, "ok")
    | .error .higher => (s, "err higher")
    | .error .tooMuch => (s, "err toomuch")
    | .error .noJournal => (s, "err nojournal")
  | ["ver"] => (s, verLine l)
  | ["reopen"] =>
    match reopen l with
    | some l' => ({ s with l := l', flushed := none }, "ok " ++ verLine l' ++ cdb l)
    | none => (s, "err open other")
  | ["evict", "inner", a] => ({ s with l := { l with cache := { l.cache with inner := KV.erase l.cache.inner (parseAddr a) } } }, "ok" ++ cdb l)
  | ["evict", "state", a] => ({ s with l := { l with cache := { l.cache with state := KV.erase l.cache.state (parseAddr a) } } }, "ok" ++ cdb l)
  | ["evict", "code", a] => ({ s with l := { l with cache := { l.cache with code := KV.erase l.cache.code (parseAddr a) } } }, "ok")
  | ["evict", "key", a, k] =>
    let ad := parseAddr a
    match KV.get l.cache.state ad with
    | some m => ({ s with l := { l with cache := { l.cache with state := KV.set l.cache.state ad (KV.erase m (tok k)) } } }, "ok" ++ cdb l)
    | none => (s, "ok")
  | _ => (s, "bad-op")

end Driver.LedgerEngine
