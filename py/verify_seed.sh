#!/bin/bash
# verify_seed.sh <ID> <pkg dir> <demo test regexp> : confirms a seeded change in its scratch worktree /tmp/wt2-<ID>
# (falls back to /tmp/wt-<ID>): places /tmp/seed-<ID>/demo_test.go as <pkg>/zz_demo_test.go, then
#   builds, demo FAILS with the patch, demo PASSES without it, package's other tests pass with it.  Leaves the worktree clean.
ID=$1; PKG=$2; RE=$3
export GOFLAGS=-mod=mod GOPROXY=off GOSUMDB=off GOTOOLCHAIN=local
WT=/tmp/wt2-$ID; [ -d $WT ] || WT=/tmp/wt-$ID
cd $WT || exit 2
git checkout -q -- . 2>/dev/null; git clean -fdq
[ -f /tmp/seed-$ID/demo_test.go ] && cp /tmp/seed-$ID/demo_test.go $PKG/zz_demo_test.go
git apply /tmp/seed-$ID/patch.diff || { echo "APPLY-FAILED"; exit 2; }
go build ./internal/... ./pkg/... 2>&1 | grep -v "^#\|ld: \|^$" | head -5; echo "build-with-patch rc=${PIPESTATUS[0]}"
go test -ldflags=-checklinkname=0 -vet=off -count=1 -run "$RE" $PKG > /tmp/seed-$ID/with.log 2>&1; echo "demo-with-patch rc=$? (expect non-zero)"
grep -c "^--- FAIL" /tmp/seed-$ID/with.log
go test -ldflags=-checklinkname=0 -vet=off -count=1 -skip "$RE" $PKG > /tmp/seed-$ID/others.log 2>&1; echo "other-tests-with-patch rc=$?"
git apply -R /tmp/seed-$ID/patch.diff
go test -ldflags=-checklinkname=0 -vet=off -count=1 -run "$RE" $PKG > /tmp/seed-$ID/without.log 2>&1; echo "demo-without-patch rc=$? (expect 0)"
git checkout -q -- . 2>/dev/null; git clean -fdq
rm -rf /tmp/executor* /tmp/TestChainLedger* 2>/dev/null
