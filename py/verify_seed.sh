#!/bin/bash
# verify_seed.sh <ID> <pkg dir> <demo test regexp> : confirms a seeded change in its scratch worktree /tmp/wt-<ID>:
#   builds, demo FAILS with the patch, demo PASSES without it, package's other tests pass with it.
ID=$1; PKG=$2; RE=$3
export GOFLAGS=-mod=mod GOPROXY=off GOSUMDB=off GOTOOLCHAIN=local
cd /tmp/wt-$ID || exit 2
git checkout -q -- . 2>/dev/null
git apply /tmp/seed-$ID/patch.diff || { echo "APPLY-FAILED"; exit 2; }
go build -ldflags=-checklinkname=0 ./... 2>&1 | grep -v "^#\|ld: \|^$" | head -5; echo "build-with-patch rc=${PIPESTATUS[0]}"
go test -ldflags=-checklinkname=0 -count=1 -run "$RE" $PKG > /tmp/seed-$ID/with.log 2>&1; echo "demo-with-patch rc=$? (expect non-zero)"
go test -ldflags=-checklinkname=0 -count=1 $PKG 2>&1 | tail -3 > /tmp/seed-$ID/pkg-with.log; grep -c "^--- FAIL" /tmp/seed-$ID/with.log
# other tests of the package with the patch, excluding the demo
go test -ldflags=-checklinkname=0 -count=1 -skip "$RE" $PKG > /tmp/seed-$ID/others.log 2>&1; echo "other-tests-with-patch rc=$?"
git apply -R /tmp/seed-$ID/patch.diff
go test -ldflags=-checklinkname=0 -count=1 -run "$RE" $PKG > /tmp/seed-$ID/without.log 2>&1; echo "demo-without-patch rc=$? (expect 0)"
git apply /tmp/seed-$ID/patch.diff
rm -rf /tmp/executor* /tmp/TestChainLedger* 2>/dev/null
