"""Generator + model-free monitors for the `ledger` engine (C13, C12, C10, C07)."""
from .core import History
from .runner import Hit

ACCTS = ["a0", "a1", "a2"]
# (%<hex>: raw bytes that are no valid UTF-8 — what an EVM storage slot looks like; all of them start with the byte 0x25)
KEYS = ["k", "k1", "k12", "~", "x", "xy", "%25ff01", "%2580fe"]
VALS = ["v1", "v2", "w", "zz", "~"]
CODES = {"code1": "9a3f688fd6543508be48a13660f2d780f2601f617a3b44ef402f5b56eee7dd08",
         "code2": "06006085f233f903b528878a17f958db2bfba88148b76f5ae5abd6edbd4ddf41",
         "c": "0b42b6393c1f53060fe3ddbfcd7aadcca894465a5a438f69c87d790b2299b9b2",
         # the empty code (SetCode(addr, []byte{})): a boundary value of its own, its hash is keccak256 of nothing
         "~": "c5d2460186f7233c927e7db2dcc703c0e500b653ca82273b7bfad8045d85a470"}


class LedgerGen:
    def __init__(self, rng, mode="mixed", empty_vals=True, add_ops=True, query_ops=True):
        self.r = rng
        self.ops = ["open"]
        self.tags = set()
        self.height = 0
        self._recheck = None           # committed height
        self.flushed = False
        self.snaps = []
        self.dirty_since_fin = False
        self.mode = mode
        self.empty_vals = empty_vals
        self.add_ops = add_ops
        self.query_ops = query_ops

    def val(self):
        v = self.r.choice(VALS)
        if v == "~" and not self.empty_vals:
            v = "v1"
        return v

    def write(self):
        r = self.r
        a, k = r.choice(ACCTS), r.choice(KEYS)
        x = r.random()
        if x < 0.42:
            self.ops.append(f"set {a} {k} {self.val()}")
        elif x < 0.55:
            self.ops.append(f"del {a} {k}")
            self.tags.add("write:delete")
        elif x < 0.63 and self.add_ops:
            self.ops.append(f"add {a} {k} {self.val()}")
            self.tags.add("write:add")
        elif x < 0.74:
            self.ops.append(f"setbal {a} {r.choice([0, 1, 5, 100, 10**20])}")
        elif x < 0.78:
            # AddBalance (the delta path); only credits, so that no account is overdrawn
            self.ops.append(f"addbal {a} {r.choice([1, 5, 100])}")
            self.tags.add("write:addbal")
        elif x < 0.9:
            self.ops.append(f"setnonce {a} {r.choice([0, 1, 2, 7])}")
        else:
            c = r.choice(list(CODES))
            self.ops.append(f"setcode {a} {c} {CODES[c]}")
            self.tags.add("write:code")

    def read(self):
        r = self.r
        a, k = r.choice(ACCTS), r.choice(KEYS)
        x = r.random()
        if x < 0.5:
            self.ops.append(f"get {a} {k}")
        elif x < 0.65:
            self.ops.append(f"bal {a}")
        elif x < 0.75:
            self.ops.append(f"nonce {a}")
        elif x < 0.85:
            self.ops.append(f"code {a}")
        elif self.query_ops:
            self.ops.append(f"query {a} {r.choice(['k', 'k1', 'x', '~', 'q'])}")
            self.tags.add("read:query")

    def dump(self):
        for a in ACCTS:
            for k in KEYS:
                self.ops.append(f"get {a} {k}")
            self.ops.append(f"bal {a}")
            self.ops.append(f"nonce {a}")
            self.ops.append(f"code {a}")
            self.ops.append(f"codehash {a}")

    def tx(self):
        """one 'transaction': optional snapshot, a few reads/writes, optional revert, finalise"""
        r = self.r
        snapped = []
        nsnap = 0         # revision ids keep counting up to the next Finalise, also across reverts
        reverted = False
        n = r.randint(1, 8)
        for _ in range(n):
            x = r.random()
            if x < 0.16:
                self.ops.append("snap")
                snapped.append(nsnap)
                nsnap += 1
                self.tags.add("snap:after-revert" if reverted else "snap")
            elif x < 0.26 and snapped:
                i = r.choice(snapped)
                self.ops.append(f"revert {i}")
                if snapped.index(i) != i:
                    self.tags.add("revert:id-differs-from-position")
                snapped = [s for s in snapped if s < i]
                reverted = True
                self.tags.add("revert:nested" if i > 0 else "revert")
            elif x < 0.65:
                self.write()
            else:
                self.read()
        self.ops.append("finalise")

    def scripted_revert(self):
        """transactions of one block that touch the same key, the last of them reverted: delete-then-failed-rewrite,
        set-then-failed-delete, set-then-failed-overwrite, add-then-failed-set (boundary of the undo journal: the reverted
        write's previous value is another transaction's dirty value, possibly a delete)"""
        r = self.r
        a, k = r.choice(ACCTS), r.choice(KEYS)
        first = r.choice(["del", "set", "set", "add", "none"])
        second = r.choice(["set", "set", "del", "add"])
        if first == "del":
            self.ops.append(f"del {a} {k}")
        elif first in ("set", "add"):
            self.ops.append(f"{first} {a} {k} {self.val()}")
        if first != "none":
            self.ops.append("finalise")
        self.ops.append("snap")
        if r.random() < 0.3:
            self.ops.append(f"get {a} {k}")
        if second == "del":
            self.ops.append(f"del {a} {k}")
        else:
            self.ops.append(f"{second} {a} {k} {self.val()}")
        if r.random() < 0.4:
            self.ops.append(f"set {a} {r.choice(KEYS)} {self.val()}")
        acct_field = None
        if r.random() < 0.35:
            # the failed transaction also wrote an account field (code / balance / nonce): reverted with the rest
            acct_field = r.choice(["code", "code", "bal", "nonce", "addbal", "addbal"])
            if acct_field == "addbal":
                # a credit by delta (AddBalance: what an EVM value transfer or a contract's GetAccount(x).AddBalance does) to an
                # account that existed before the failed transaction
                b = r.choice(ACCTS)
                self.ops.append(f"addbal {b} {r.choice([1, 5, 100])}")
                self.ops.append("revert 0")
                self.ops += [f"bal {b}", f"bal {a}"]
                self.ops.append("finalise")
                self.ops.append(f"get {a} {k}")
                self.tags.add("scripted-revert:account-addbal")
                self.tags.add(f"scripted-revert:{first}-{second}")
                self._recheck = (a, k)
                return
            if acct_field == "code":
                c = r.choice(list(CODES))
                self.ops.append(f"setcode {a} {c} {CODES[c]}")
            elif acct_field == "bal":
                self.ops.append(f"setbal {a} {r.choice([1, 5, 100])}")
            else:
                self.ops.append(f"setnonce {a} {r.choice([1, 2, 7])}")
            self.tags.add("scripted-revert:account-" + acct_field)
        self.ops.append("revert 0")
        if acct_field is not None:
            self.ops += [f"code {a}", f"codehash {a}", f"bal {a}", f"nonce {a}"]
        self.ops.append("finalise")
        self.ops.append(f"get {a} {k}")
        self.tags.add(f"scripted-revert:{first}-{second}")
        self._recheck = (a, k)

    def block(self):
        r = self.r
        self._recheck = None
        for _ in range(r.randint(0, 4)):
            self.tx()
        if r.random() < 0.25:
            self.scripted_revert()
        if r.random() < 0.3:
            self.dump()
        self.ops.append("flush")
        if r.random() < 0.35:
            # reads between flush and commit are served by the cache
            for _ in range(r.randint(1, 4)):
                self.read()
            self.tags.add("read:between-flush-and-commit")
            self.ops.append("clear")
        self.height += 1
        self.ops.append(f"commit {self.height}")
        if self._recheck is not None:
            a, k = self._recheck
            self.ops.append(f"get {a} {k}")
            if r.random() < 0.5:
                self.ops.append(f"evict state {a}")
                self.ops.append(f"get {a} {k}")
        if r.random() < 0.25:
            k = r.random()
            a = r.choice(ACCTS)
            if k < 0.3:
                self.ops.append(f"evict inner {a}")
            elif k < 0.6:
                self.ops.append(f"evict state {a}")
            elif k < 0.8:
                self.ops.append(f"evict key {a} {r.choice(KEYS)}")
            else:
                self.ops.append(f"evict code {a}")
            self.tags.add("evict")
        if r.random() < 0.12:
            self.ops.append("reopen")
            self.tags.add("reopen")

    def rollback(self):
        r = self.r
        t = r.choice([self.height, max(0, self.height - 1), max(0, self.height - 2), max(0, self.height - r.randint(0, 12)), 0, self.height + 1])
        if self.height > 11 and r.random() < 0.35:
            # the edges of the journal window: exactly its lower bound (the oldest journal must still be there), one below it
            t = r.choice([self.height - 10, self.height - 10, self.height - 11])
            self.tags.add("rollback:window-edge")
        self.ops.append(f"rollback {t}")
        self.ops.append("ver")
        self.tags.add("rollback")
        lo = max(1, self.height - 10) if self.height > 10 else (0 if self.height >= 1 else 0)
        ok = (t <= self.height) and (t >= (self.height - 10 if self.height > 10 else 0) or t == self.height)
        # the generator only needs a guess of the new height; 'ver' tells both sides the truth
        if t <= self.height and (self.height <= 10 or t >= self.height - 10):
            self.height = t
        self.dump()

    def plain_block(self, ops):
        self.ops += ops + ["finalise", "flush"]
        self.height += 1
        self.ops.append(f"commit {self.height}")

    def scripted_rollback(self):
        """a field of one account is set at height h and replaced at h+1 (..h+2); roll back to h; the next block touches the
        same account through ANOTHER field; read the first field back (stale per-account caches after a rollback)"""
        r = self.r
        a = r.choice(ACCTS)
        field = r.choice(["code", "code", "key", "bal", "nonce"])
        c1, c2 = r.sample(list(CODES), 2)
        k = r.choice(KEYS)

        def w(first):
            if field == "code":
                c = c1 if first else c2
                return [f"setcode {a} {c} {CODES[c]}"]
            if field == "key":
                return [f"set {a} {k} {'v1' if first else 'zz'}"]
            if field == "bal":
                return [f"setbal {a} {5 if first else 100}"]
            return [f"setnonce {a} {1 if first else 7}"]

        rd = {"code": f"code {a}", "key": f"get {a} {k}", "bal": f"bal {a}", "nonce": f"nonce {a}"}[field]
        other = {"code": [f"setbal {a} 1"], "key": [f"setnonce {a} 2"], "bal": [f"set {a} x w"], "nonce": [f"setbal {a} 100"]}[field]
        self.plain_block(w(True))
        h = self.height
        for _ in range(r.choice([1, 1, 2])):
            self.plain_block(w(False) if r.random() < 0.8 else [f"setbal {r.choice(ACCTS)} 1"])
        if r.random() < 0.5:
            self.ops.append(rd)               # warm the caches with the newer value
        self.ops.append(f"rollback {h}")
        self.ops.append("ver")
        self.height = h
        self.ops.append(rd)
        self.plain_block(other)
        self.ops.append(rd)
        if r.random() < 0.5:
            self.plain_block(w(False))
            self.ops.append(rd)
        self.tags.add("scripted-rollback:" + field)
        self.tags.add("rollback")

    def scripted_record_after_storage(self):
        """an address owns storage before it has an account record: block h writes only storage keys of a fresh address, a
        later block gives the address its first record (balance / nonce / code) and overwrites or deletes the older keys;
        rolling that block back must bring the older values back, and the next blocks must continue from them"""
        r = self.r
        a = r.choice(["a3", "a4"])      # addresses the random traffic does not use: no record yet
        ks = r.sample(KEYS, 2)
        self.plain_block([f"set {a} {ks[0]} v1", f"set {a} {ks[1]} v2"])
        h = self.height
        for _ in range(r.choice([0, 0, 1])):
            self.plain_block([f"setbal {r.choice(ACCTS)} 2"])
            h = self.height
        first = r.choice([f"setbal {a} 7", f"setnonce {a} 3", f"setbal {a} 7"])
        second = r.choice([f"set {a} {ks[0]} zz", f"del {a} {ks[0]}"])
        ops = [first, second] if r.random() < 0.6 else [second, first]
        if r.random() < 0.5:
            ops.append(r.choice([f"del {a} {ks[1]}", f"set {a} {ks[1]} w"]))
        self.plain_block(ops)
        if r.random() < 0.4:
            self.plain_block([f"set {a} x w"])
        self.ops.append(f"rollback {h}")
        self.ops.append("ver")
        self.height = h
        for k in ks:
            self.ops.append(f"get {a} {k}")
        self.ops.append(f"bal {a}")
        self.ops.append(f"query {a} ~")
        self.dump()
        self.plain_block([f"set {a} {ks[1]} yw"] if r.random() < 0.5 else ops)
        for k in ks:
            self.ops.append(f"get {a} {k}")
        self.tags.add("scripted-record-after-storage")
        self.tags.add("rollback")

    def scripted_code_overwrite(self):
        """a contract account gets another code and is read between the flush and the commit of that block — through the account
        cache, the code cache and (after the commit and a reopen) the database; in one variant the old code is written back in that
        window and must be what every later read returns"""
        r = self.r
        a = r.choice(ACCTS)
        c1, c2 = r.sample(list(CODES), 2)
        self.plain_block([f"setcode {a} {c1} {CODES[c1]}"])
        self.ops.append(f"code {a}")
        self.ops += [f"setcode {a} {c2} {CODES[c2]}", "finalise", "flush"]
        self.ops.append(f"code {a}")                 # between flush and commit
        self.ops.append(f"codehash {a}")
        back = r.random() < 0.5
        if back:
            self.ops += [f"setcode {a} {c1} {CODES[c1]}", "finalise"]
            self.ops.append(f"code {a}")
        self.height += 1
        self.ops.append(f"commit {self.height}")
        self.ops.append(f"code {a}")
        if back:
            self.ops.append("flush")
            self.height += 1
            self.ops.append(f"commit {self.height}")
            self.ops.append(f"code {a}")
        if r.random() < 0.5:
            self.ops.append("reopen")
            self.ops.append(f"code {a}")
            self.ops.append(f"codehash {a}")
        self.tags.add("scripted-code-overwrite" + (":written-back" if back else ""))

    def scripted_touch_before_commit(self):
        """block h writes only storage keys of an address that has no account record, and is flushed; before its commit arrives the
        next block touches that address inside a transaction that is reverted as a whole (also a mere read is a first touch: it
        journals the creation of the account object, and the revert drops the object again); what block h flushed must be read
        back afterwards — before the commit (from the cache) and after it (from the database)"""
        r = self.r
        a = "a5"                         # used by this scenario only: never gets a record
        ks = r.sample(KEYS, 2)
        self.ops += [f"set {a} {ks[0]} {r.choice(['v1', 'v2', 'w'])}"] + ([f"set {a} {ks[1]} zz"] if r.random() < 0.6 else []) + ["finalise", "flush"]
        touch = r.choice([f"get {a} {ks[0]}", f"get {a} {ks[1]}", f"bal {a}", f"query {a} ~", f"set {a} {ks[1]} w", f"del {a} {ks[0]}", f"nonce {a}"])
        self.ops += ["snap", touch, "revert 0", f"get {a} {ks[0]}", f"get {a} {ks[1]}", f"query {a} ~", "finalise"]
        self.height += 1
        self.ops.append(f"commit {self.height}")
        self.ops += [f"get {a} {ks[0]}", f"get {a} {ks[1]}", f"query {a} ~"]
        self.ops += ["flush"]
        self.height += 1
        self.ops.append(f"commit {self.height}")
        if r.random() < 0.4:
            self.ops.append("reopen")
        self.ops += [f"get {a} {ks[0]}", f"get {a} {ks[1]}"]
        self.tags.add("scripted-touch-before-commit")

    def scripted_fork_rollback(self):
        """beyond the journal window: roll back a few blocks, commit a different continuation (its pruning bound lies below the
        retained minimum), then ask for a target below the window: refused, and nothing may have moved"""
        r = self.r
        if self.height < 12:
            return
        back = r.choice([2, 3, 4])
        self.ops.append(f"rollback {self.height - back}")
        self.ops.append("ver")
        self.height -= back
        for _ in range(r.choice([1, 1, 2])):
            self.plain_block([f"setbal {r.choice(ACCTS)} {r.choice([3, 9, 27])}", f"set {r.choice(ACCTS)} {r.choice(KEYS)} {self.val()}"])
        self.dump()
        # targets around the lower end of the window (the head before the fork was self.height + back - ...)
        for t in sorted({max(0, self.height - 11), max(0, self.height - 12), max(0, self.height - 10 - back)}):
            self.ops.append(f"rollback {t}")
            self.ops.append("ver")
            self.dump()
            if t >= self.height - 10:
                break      # may have been a legitimate rollback: the generator's height guess ends here
        self.tags.add("scripted-fork-rollback")

    def history(self, nblocks, rollbacks=True):
        fork_at = self.r.choice([12, 13, 14, 15]) if nblocks >= 12 and rollbacks else None
        for _ in range(nblocks):
            self.block()
            if fork_at is not None and self.height == fork_at:
                self.scripted_fork_rollback()
                fork_at = None
                break
            if rollbacks and self.r.random() < 0.12 and self.height > 0:
                self.rollback()
            if rollbacks and self.r.random() < 0.08:
                self.scripted_rollback()
            if rollbacks and self.r.random() < 0.05:
                self.scripted_record_after_storage()
            if self.r.random() < 0.06:
                self.scripted_code_overwrite()
            if self.r.random() < 0.07:
                self.scripted_touch_before_commit()
        self.dump()
        return History(self.ops, tags=self.tags)


def gen(rng, n, tier, blocks=(2, 9), deep=False, **kw):
    import random as _r
    hs = []
    for i in range(n):
        g = LedgerGen(_r.Random(rng.getrandbits(64)), **kw)
        nb = rng.randint(*blocks)
        if deep and i % 4 == 0:
            nb = rng.randint(11, 16)    # beyond the journal window so pruning happens
        hs.append(g.history(nb))
    return hs


def gen_revert(rng, n, tier):
    """C07 focus at the ledger level: every block contains a scripted 'failed transaction' (snapshot, writes, revert) whose key
    was touched by an earlier transaction of the same block or by an earlier block; no empty values / prefix queries, so that the
    recorded C13 findings about those stay out of the picture"""
    import random as _r
    hs = []
    for _ in range(n):
        g = LedgerGen(_r.Random(rng.getrandbits(64)), empty_vals=False, query_ops=False)
        for _b in range(rng.randint(2, 6)):
            r = g.r
            g._recheck = None
            for _t in range(r.randint(0, 2)):
                g.tx()
            g.scripted_revert()
            g.ops.append("flush")
            g.height += 1
            g.ops.append(f"commit {g.height}")
            a, k = g._recheck
            g.ops.append(f"get {a} {k}")
            if r.random() < 0.5:
                g.ops.append(f"evict state {a}")
                g.ops.append(f"get {a} {k}")
            if r.random() < 0.15:
                g.ops.append("reopen")
                g.ops.append(f"get {a} {k}")
        if g._recheck is not None and r.random() < 0.7:
            # read-only (view) execution: between two blocks, with nothing unflushed, a "transaction" writes storage, balance and
            # nonce and the ledger is cleared (ApplyReadonlyTransactions + Clear): every read afterwards answers what it answered before
            # (`C07_view_execution_changes_nothing`); the pairs of op indices are handed to the monitor in a tag
            a, k = g._recheck
            va = r.choice(ACCTS)
            vk = r.choice(KEYS)
            probes = [f"get {va} {vk}", f"bal {va}", f"nonce {va}", f"get {a} {k}"]
            pre = len(g.ops)
            g.ops += probes
            g.ops += [f"set {va} {vk} {r.choice(VALS)}", f"setbal {va} {r.choice([0, 3, 77])}", f"setnonce {va} {r.choice([1, 4, 9])}"]
            if r.random() < 0.5:
                g.ops.append(f"del {a} {k}")
            g.ops.append("clear")
            post = len(g.ops)
            g.ops += probes
            g.tags.add(f"view-pairs:{pre}:{post}:{len(probes)}")
            g.tags.add("view-execution")
        g.dump()
        hs.append(History(g.ops, tags=g.tags | {"c07-ledger"}))
    return hs


def mon_c07(h, obs):
    """the plain-map reference of C13, reported under C07: a reverted transaction leaves every key as it was"""
    out = []
    for x in mon_ledger(h, obs, "C13"):
        tail = x.fp.split("/", 1)[1]
        if tail.startswith("empty-value-not-persisted") or tail.startswith("query-ignores-cache"):
            continue      # C13's recorded findings (corpus witnesses of the ledger engine are replayed here too); not about reverts
        x.fp = "C07/ledger-revert/" + tail
        out.append(x)
    # read-only execution: the probes before the view transaction and after its Clear answer alike
    for t in h.tags:
        if t.startswith("view-pairs:"):
            _, pre, post, n = t.split(":")
            pre, post, n = int(pre), int(post), int(n)
            if post + n <= len(obs) and h.ops[pre:pre + n] == h.ops[post:post + n]:
                for j in range(n):
                    if obs[pre + j] != obs[post + j]:
                        out.append(Hit("C07/view-execution-changed-a-read",
                                       f"'{h.ops[pre + j]}' answered {obs[pre + j]} before a read-only execution and {obs[post + j]} after its Clear",
                                       detail=h.ops[post + j]))
    # a transaction that was reverted as a whole creates no account: an address the ledger never saw before (no read, no write
    # since `open`) that was written only inside a reverted snapshot is not among the accounts a flush reports as changed.
    # (An account that WAS read before keeps an empty dirty copy after such a revert: the recorded finding
    # C10/…/reverted-write/account-field — not repeated here.)
    import re as _re
    seen, kept, in_snap, snap_writes, pending = set(), set(), False, set(), set()
    for op, o in zip(h.ops, obs):
        ws = op.split()
        k0 = ws[0]
        if k0 in ("open", "reopen"):
            # after a reopen accounts of the committed state exist: the rule only speaks about never-seen addresses
            seen = None if k0 == "reopen" else set()
            kept, in_snap, snap_writes, pending = set(), False, set(), set()
            continue
        if seen is None:
            continue
        if k0 == "snap":
            in_snap = True
        elif k0 == "revert":
            if ws[1:] == ["0"]:
                # everything since the transaction's first snapshot is undone
                pending |= {a for a in snap_writes if a not in seen and a not in kept}
            else:
                seen |= snap_writes       # a partial revert: no claim about these
            in_snap, snap_writes = (False, set()) if ws[1:] == ["0"] else (in_snap, set())
        elif k0 == "finalise":
            seen |= snap_writes
            kept |= snap_writes
            in_snap, snap_writes = False, set()
        elif k0 in ("set", "add", "del", "setbal", "addbal", "setnonce", "setcode"):
            if in_snap:
                snap_writes.add(ws[1])
            else:
                seen.add(ws[1])
                kept.add(ws[1])
        elif k0 in ("get", "bal", "nonce", "code", "codehash", "query") and len(ws) > 1:
            seen.add(ws[1])
        elif k0 == "flush":
            m = _re.search(r"dirty=\[([^\]]*)\]", o or "")
            if m:
                dirty = set(m.group(1).split())
                bad = sorted(a for a in pending if a in dirty and a not in kept and a not in seen)
                if bad:
                    out.append(Hit("C07/ledger-revert/reverted-transaction-created-an-account",
                                   f"the flush reports {bad} as changed: addresses written only inside a transaction that was reverted as a whole", detail=op))
            pending, kept = set(), set()
    return out


# ------------------------------------------------------------------------------------------ monitors

class Ref:
    """plain-map reference ledger: the abstract spec of C13 (latest write wins), with snapshots,
    committed-state history for rollback (C12)."""
    def __init__(self):
        self.st = {}       # (a,k) -> value or None
        self.bal = {}
        self.nonce = {}
        self.code = {}
        self.journal = []  # undo list for snapshots: (kind, key, prev)
        self.snaps = []
        self.committed = {0: self.freeze()}
        self.height = 0

    def freeze(self):
        return (dict(self.st), dict(self.bal), dict(self.nonce), dict(self.code))

    def thaw(self, f):
        self.st, self.bal, self.nonce, self.code = dict(f[0]), dict(f[1]), dict(f[2]), dict(f[3])


def mon_ledger(h, obs, prop):
    """prop: 'C13' (reads = latest write, query exact, snapshot/revert) or 'C12' (rollback restores / refusals)"""
    hits = []
    ref = Ref()
    unsynced = False     # after an un-journaled Add or an op the reference cannot follow we resync on dumps only
    after_rollback = False
    after_refused = False
    code_hash = {}

    def hit(p, fp, msg, detail=None):
        if p == prop:
            hits.append(Hit(fp, msg, detail=detail))

    dirty_keys = set()       # keys written in the current block (for query attribution)
    added_keys = set()
    unknown = set()          # keys whose value the reference cannot know (un-journaled Add across a revert)
    unknown_at = {}          # height -> keys that were unknown when that height was committed
    jmin = 0                 # lowest height whose journal is retained (0 = none yet)
    unflushed = False        # writes since the last flush
    flushed, flushed_unknown = None, set()     # the reference state at the last flush: what the coming commit persists
    uncommitted = False      # a flush that was not committed yet
    next_commit = 1
    snap_live, snap_gen, snap_ctr = set(), [], 0      # ids the ledger handed out / snapshots taken (by number) since the last Finalise
    for op, o in zip(h.ops, obs):
        ws = op.split()
        k0 = ws[0]
        if k0 in ("open", "reopen", "finalise"):
            snap_live, snap_gen, snap_ctr = set(), [], 0
        if k0 == "open":
            flushed, flushed_unknown = None, set()
            continue
        # ops that legitimately lose uncommitted data (only the shrinker produces them in these places):
        # the reference cannot follow, so monitoring of this history stops here
        if (k0 == "clear" and unflushed) or (k0 in ("reopen", "rollback") and (unflushed or uncommitted)):
            break
        if k0 == "commit" and (not uncommitted or int(ws[1]) != next_commit):
            break
        if k0 in ("set", "add", "del", "setbal", "addbal", "setnonce", "setcode"):
            unflushed = True
        if k0 == "flush":
            unflushed, uncommitted = False, True
            # what the coming commit persists is what was flushed: writes made between the flush and the commit belong to
            # the next block (the executor runs ahead of the committer)
            flushed, flushed_unknown = ref.freeze(), set(unknown)
        if k0 in ("set", "add", "del"):
            a, k = ws[1], ws[2]
            # an empty value is no value: since the fix: commit "a storage key with an empty value does not exist" writing
            # "" is a delete on every read path (before, it was present until the caches were dropped)
            v = None if k0 == "del" or ws[3] == "~" else ws[3]
            # AddState is journaled like SetState (since the fix: commit "journal AddState")
            ref.journal.append(("st", (a, k), ref.st.get((a, k))))
            ref.st[(a, k)] = v
            dirty_keys.add((a, k))
        elif k0 == "setbal":
            ref.journal.append(("bal", ws[1], ref.bal.get(ws[1], 0)))
            ref.bal[ws[1]] = int(ws[2])
        elif k0 == "addbal":
            if int(ws[2]) != 0:
                ref.journal.append(("bal", ws[1], ref.bal.get(ws[1], 0)))
                ref.bal[ws[1]] = ref.bal.get(ws[1], 0) + int(ws[2])
        elif k0 == "setnonce":
            ref.journal.append(("nonce", ws[1], ref.nonce.get(ws[1], 0)))
            ref.nonce[ws[1]] = int(ws[2])
        elif k0 == "setcode":
            ref.journal.append(("code", ws[1], ref.code.get(ws[1])))
            ref.code[ws[1]] = ws[2]
            if len(ws) > 3:
                code_hash[ws[2]] = ws[3]
        elif k0 == "snap":
            # "nested snapshots revert independently": every snapshot is its own revision — the id handed out is not the id of a
            # snapshot that is still live, and a live snapshot can be reverted to (seeding round 29)
            if o.isdigit() and int(o) in snap_live:
                hit("C13", "C13/snapshot-id-handed-out-twice",
                    f"snapshot id {o} was handed out while the snapshot with that id is still live ({sorted(snap_live)}): reverting the inner one consumes the outer one", detail=op)
            if o.isdigit():
                snap_live.add(int(o))
            snap_gen.append(snap_ctr)
            snap_ctr += 1
            ref.snaps.append((int(o) if o.isdigit() else len(ref.snaps), len(ref.journal)))
        elif k0 == "revert":
            sid = int(ws[1])
            if sid in snap_gen:
                if (o or "").startswith("PANIC"):
                    hit("C13", "C13/live-snapshot-not-revertible", f"revert to snapshot {sid}, taken since the last Finalise and not reverted through, answered {o}", detail=op)
                snap_gen = [x for x in snap_gen if x < sid]
            snap_live = {x for x in snap_live if x < sid}
            idx = None
            for (i, n) in ref.snaps:
                if i == sid:
                    idx = n
            if idx is None:
                continue
            while len(ref.journal) > idx:
                kind, key, prev = ref.journal.pop()
                if kind == "st":
                    ref.st[key] = prev
                elif kind == "bal":
                    ref.bal[key] = prev
                elif kind == "nonce":
                    ref.nonce[key] = prev
                else:
                    ref.code[key] = prev
            ref.snaps = [(i, n) for (i, n) in ref.snaps if i < sid]
            # an un-journaled Add may or may not survive a revert (it survives unless the account object itself
            # was created after the snapshot): the reference does not claim either
            unknown |= added_keys
        elif k0 == "finalise":
            ref.journal, ref.snaps = [], []
        elif k0 == "commit":
            if o == "ok":
                ref.height = int(ws[1])
                ref.committed[ref.height] = flushed if flushed is not None else ref.freeze()
                unknown_at[ref.height] = flushed_unknown if flushed is not None else set(unknown)
                flushed = None
                dirty_keys, added_keys = set(), set()
                uncommitted = False
                next_commit = ref.height + 1
                if jmin == 0:
                    jmin = ref.height
                if ref.height > 10:
                    jmin = max(jmin, ref.height - 10)
        elif k0 == "rollback":
            t = int(ws[1])
            hi = ref.height
            # journals of the last 10 heights are retained; pruning starts when h-10 > 1, and height 0 stays a
            # valid target as long as the journal of height 1 is still there
            # valid targets: the heights whose journals are retained, and the genesis height 0 while the journal of
            # height 1 is still there (journals below max-10 are pruned at commit time and do not come back)
            lo = 0 if jmin <= 1 else jmin
            if o == "ok":
                if t > hi:
                    hit("C12", "C12/rollback-to-higher-accepted", f"rollback to {t} accepted at height {hi}", op)
                elif t < lo:
                    hit("C12", "C12/rollback-beyond-window-accepted", f"rollback to {t} accepted at height {hi} (window is 10)", op)
                elif t in ref.committed:
                    ref.thaw(ref.committed[t])
                    unknown = set(unknown_at.get(t, set()))
                    ref.height = t
                    for x in [x for x in ref.committed if x > t]:
                        del ref.committed[x]
                    after_rollback = True
                    next_commit = t + 1
                    if t == 0:
                        jmin = 0
                    dirty_keys, added_keys = set(), set()
                    ref.journal, ref.snaps = [], []
            else:
                after_refused = True      # "refused and modifies nothing": the reads that follow must still see the pre-state
                expect_refuse = t > hi or t < lo
                if not expect_refuse:
                    hit("C12", f"C12/rollback-refused/{o.replace(' ', '-')}", f"rollback to {t} at height {hi} (window [{lo},{hi}]) refused: {o}", op)
        elif k0 == "get":
            a, k = ws[1], ws[2]
            want = ref.st.get((a, k))
            got = None if o == "-" else ("" if o == "~" else o)
            if (a, k) in unknown:
                unknown.discard((a, k))
                ref.st[(a, k)] = got
                want = got
            if got != want:
                emp = (want == "" or got == "")
                addk = (a, k) in added_keys
                p = "C12" if (after_rollback or after_refused) and prop == "C12" else "C13"
                if emp and (want or "") == (got or ""):
                    hit(p, f"{p}/empty-value-not-persisted", f"get {a} {k} returned {o!r} but the latest write is {want!r} (nil and empty are conflated)", op)
                elif after_refused and p == "C12":
                    hit(p, "C12/refused-rollback-modified-state/value", f"after a refused rollback get {a} {k} returned {o!r} but the state before the rollback had {want!r}", op)
                else:
                    kind = "after-add" if addk else "value"
                    hit(p, f"{p}/read-not-latest-write/{kind}", f"get {a} {k} returned {o!r} but the latest write is {want!r}", op)
                ref.st[(a, k)] = got   # resynchronise
        elif k0 in ("bal", "nonce"):
            d = ref.bal if k0 == "bal" else ref.nonce
            want = d.get(ws[1], 0)
            if o.lstrip("-").isdigit() and int(o) != want:
                p = "C12" if (after_rollback or after_refused) and prop == "C12" else "C13"
                if after_refused and p == "C12":
                    hit(p, f"C12/refused-rollback-modified-state/{k0}", f"after a refused rollback {k0} {ws[1]} returned {o} but the state before the rollback had {want}", op)
                else:
                    hit(p, f"{p}/read-not-latest-write/{k0}", f"{k0} {ws[1]} returned {o} but the latest write is {want}", op)
                d[ws[1]] = int(o)
        elif k0 == "code":
            # an empty code is no code (the ledger answers nil for both, as it answers "absent" for an empty storage value)
            want = ref.code.get(ws[1])
            want = None if want == "~" else want
            got = None if o in ("-", "~") else o
            if got != want:
                p = "C12" if (after_rollback or after_refused) and prop == "C12" else "C13"
                if after_refused and p == "C12":
                    hit(p, "C12/refused-rollback-modified-state/code", f"after a refused rollback code {ws[1]} returned {o!r} but the state before the rollback had {want!r}", op)
                else:
                    hit(p, f"{p}/read-not-latest-write/code", f"code {ws[1]} returned {o!r} but the latest write is {want!r}", op)
                ref.code[ws[1]] = got
        elif k0 == "codehash":
            cd = ref.code.get(ws[1])
            empty = ref.bal.get(ws[1], 0) == 0 and ref.nonce.get(ws[1], 0) == 0 and cd is None
            want = None if (cd is None or empty) else code_hash.get(cd)
            got = None if o == "-" else o
            if cd == "~":
                # the empty code: the account reports no hash or the hash of nothing, never the hash of an older code
                if got is not None and got != code_hash.get("~", got):
                    p = "C12" if (after_rollback or after_refused) and prop == "C12" else "C13"
                    hit(p, f"{p}/read-not-latest-write/codehash", f"codehash {ws[1]} returned {o!r} but the code of the account is empty", op)
            elif cd is not None and want is None:
                pass       # hash of this code unknown to the reference
            elif got != want:
                p = "C12" if (after_rollback or after_refused) and prop == "C12" else "C13"
                hit(p, f"{p}/read-not-latest-write/codehash", f"codehash {ws[1]} returned {o!r} but the code of the account is {cd!r} (hash {want!r})", op)
        elif k0 == "query":
            a, pfx = ws[1], ("" if ws[2] == "~" else ws[2])
            want = sorted(v for (aa, kk), v in ref.st.items() if aa == a and v is not None and ("" if kk == "~" else kk).startswith(pfx))
            m = o.split(" ", 1)
            body = m[1].strip("[]").split() if len(m) > 1 else []
            got = [("" if x == "~" else x) if x != "-" else None for x in body]
            if any(aa == a for (aa, kk) in unknown):
                continue
            if sorted(x for x in got if x is not None) != want or None in got:
                overlap = any(aa == a and ("" if kk == "~" else kk).startswith(pfx) for (aa, kk) in dirty_keys)
                gl = sorted(x for x in got if x is not None)
                if None not in got and [x for x in gl if x != ""] == [x for x in want if x != ""]:
                    hit("C13", "C13/empty-value-not-persisted", f"query {a} {pfx!r} returned {got} but the live values are {want} (empty values)", op)
                elif uncommitted and not unflushed:
                    hit("C13", "C13/query-ignores-cache-before-commit",
                        f"query {a} {pfx!r} between flush and commit returned {got} but the live values are {want}", op)
                else:
                    kind = "dirty-overlap" if overlap else "other"
                    hit("C13", f"C13/query-not-exact/{kind}", f"query {a} {pfx!r} returned {got} but the live values are {want}", op)
        if k0 in ("flush",):
            after_rollback = False
            after_refused = False
    return hits


def mon_c13(h, obs):
    return mon_ledger(h, obs, "C13")


def mon_c12(h, obs):
    return mon_ledger(h, obs, "C12")


def tags_ledger(h, obs):
    t = set()
    for op, o in zip(h.ops, obs):
        k = op.split()[0]
        if k == "rollback":
            t.add("rollback:" + o.replace(" ", "-"))
        if k == "query" and o.startswith("1"):
            t.add("query:nonempty")
        if k == "revert":
            t.add("revert")
        if k == "commit" and int(op.split()[1]) > 10:
            t.add("commit:prune")
    return t
