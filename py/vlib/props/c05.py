"""C05 — one-to-many cross-chain transactions are all-or-nothing."""
from ..runner import EngineSpec, PropSpec
from .. import gen_exec, mon_exec
from . import register


def gen(rng, n, tier):
    return gen_exec.gen(rng, n, tier, focus="group", blocks=(6, 16))


register(PropSpec(
    "C05",
    engines=[EngineSpec("exec", gen, mon_exec.mon_c05, mon_exec.tags_c05, quick_n=260, thorough_n=6000, mask=mon_exec.mask_unmodelled)],
    facts=["txFsm", "receipt2Event"],
    rule="exec engine, group focus: one-to-many requests with 1-3 declared children over one or several destination chains (4 chains, 7 services, "
         "an unordered service, a chain whose rule rejects), children begun in any order / twice / never, success and failure receipts in any order, "
         "duplicate, late and unknown reports, group timeouts 0/2/3/4/10, mixed with one-to-one traffic; a protocol monitor written from the property text "
         "follows every group on the real node's receipts, status queries and per-block multi-tx / timeout metadata; the Lean model must agree; "
         "non-trivial = at least one accepted group child",
))
