"""C05 — one-to-many cross-chain transactions are all-or-nothing."""
from ..runner import EngineSpec, PropSpec
from .. import gen_exec, mon_exec
from . import register


def scripted_two_children_one_destination():
    """forced, alone in its history (seeding round 27): a group that declares THREE children, two of them for the same destination
    service (consecutive indices of that pair).  The first two children begin and report success: the group is not complete; the third
    child then fails (its receipt says so): every child must be moved to a failure status and the source chain told.  (Kept apart from
    the random traffic: the code derives the global id from a map destination -> index, so such a group shares its id with any other
    group of the source that names the same last index — the random generator does not produce repeated destinations.)"""
    from ..core import History
    grp = "c1:s1=1,c2:s1=1,c1:s1=2"
    ids = ["1356:c4:s1-1356:c1:s1-1", "1356:c4:s1-1356:c2:s1-1", "1356:c4:s1-1356:c1:s1-2"]
    look = [f"q status {i}" for i in ids] + [f"q gtx {ids[0]}"]
    ops = ["world audit=0 price=1",
           f"block ibtp ca4 c4:s1 c1:s1 1 req 0 {grp} ok"] + look + [
           f"block ibtp ca4 c4:s1 c2:s1 1 req 0 {grp} ok"] + look + [
           "block ibtp ca1 c4:s1 c1:s1 1 ok 0 - ok | ibtp ca2 c4:s1 c2:s1 1 ok 0 - ok"] + look + [
           f"block ibtp ca4 c4:s1 c1:s1 2 req 0 {grp} ok"] + look + [
           "block ibtp ca1 c4:s1 c1:s1 2 fail 0 - ok"] + look + ["block"] + look
    return History(ops, tags={"group:two-children-one-destination"})


def gen(rng, n, tier):
    return [scripted_two_children_one_destination()] + gen_exec.gen(rng, n, tier, focus="group", blocks=(6, 16))


register(PropSpec(
    "C05",
    engines=[EngineSpec("exec", gen, mon_exec.mon_c05, mon_exec.tags_c05, quick_n=260, thorough_n=6000, mask=mon_exec.mask_unmodelled)],
    facts=["txFsm", "receipt2Event", "multiChildCount"],
    rule="exec engine, group focus: one-to-many requests with 1-3 declared children over one or several destination chains (4 chains, 7 services, "
         "an unordered service, a chain whose rule rejects), children begun in any order / twice / never, success and failure receipts in any order, "
         "duplicate, late and unknown reports, group timeouts 0/2/3/4/10, mixed with one-to-one traffic; a protocol monitor written from the property text "
         "follows every group on the real node's receipts, status queries and per-block multi-tx / timeout metadata; the Lean model must agree; "
         "non-trivial = at least one accepted group child",
))
