"""C12 — rolling back to a retained height restores exactly that height's state."""
from ..runner import EngineSpec, PropSpec
from .. import gen_ledger, mon_exec
from . import register


def gen(rng, n, tier):
    return gen_ledger.gen(rng, n, tier, deep=True, blocks=(3, 9))


def gen_facade(rng, n, tier):
    """`Ledger.Rollback` — state ledger and chain ledger together, as the node's own rollback uses it: chains of 5 to 17 blocks
    (past 11 the journal window moves and a low target must be refused), a rollback to a height inside the window / below it /
    above the head / the head itself on the stopped node, a start, and more blocks on top"""
    import random as _r
    from ..core import History
    from .. import gen_exec
    hs = []
    for k in range(n):
        r = _r.Random(rng.getrandbits(64))
        g = gen_exec.ExecGen(r, focus="single", audit=False, price=1, hub=False)
        long = k % 2 == 0
        for _ in range(r.randint(7, 11) if long else r.randint(2, 5)):
            g.block()
            g.observe()
        tags = {"facade"}
        for _ in range(r.randint(1, 2)):
            head = g.height
            minj = max(1, head - 10)
            kind = r.choice(["below", "below", "inside", "inside", "head", "above"] if minj > 1 else ["inside", "inside", "head", "above"])
            if kind == "below":
                t = r.randint(1, minj - 1)
            elif kind == "inside":
                t = r.randint(max(6, minj), head)
            elif kind == "head":
                t = head
            else:
                t = head + r.randint(1, 3)
            g.ops.append(f"lrollback {t}")
            tags.add("lrollback:" + kind)
            if kind == "inside":
                g.height = t
            g.observe()
            for _ in range(r.randint(1, 3)):
                g.block()
                g.observe()
        hs.append(History(g.ops, tags=g.tags | tags))
    return hs


def mon_facade(h, obs):
    """a refused rollback changes nothing; an accepted one leaves all stores at the target"""
    import re
    from ..runner import Hit
    hits = []
    head = None
    for op, o in zip(h.ops, obs):
        w = op.split()
        m = re.match(r"^h=(\d+) ", o or "")
        if w[0] in ("block", "reorg") and m:
            head = int(m.group(1))
        elif w[0] == "world":
            m2 = re.search(r"h=(\d+)", o or "")
            head = int(m2.group(1)) if m2 else None
        elif w[0] == "lrollback" and head is not None and o:
            m3 = re.match(r"^(ok|err:\S+)(?: reopen-err:\S+)? h=(\d+)", o)
            if not m3:
                hits.append(Hit("C12/facade/rollback-broke-the-node", f"`{op}` at head {head}: {o[:160]}", detail=op))
                break
            res, hh = m3.group(1), int(m3.group(2))
            if "STORES-DISAGREE" in o:
                hits.append(Hit("C12/facade/stores-disagree-after-rollback", f"`{op}` at head {head} answered {res}: {o[:200]}", detail=op))
                break
            if res.startswith("err") and hh != head:
                hits.append(Hit("C12/facade/refused-rollback-changed-the-chain", f"`{op}` at head {head} was refused ({res}) but the chain is now at {hh}", detail=op))
                break
            if res == "ok" and hh != int(w[1]):
                hits.append(Hit("C12/facade/rollback-not-at-target", f"`{op}` at head {head} answered ok but the chain is at {hh}", detail=op))
                break
            head = hh
    return hits


def tags_facade(h, obs):
    return {t for t in h.tags if t.startswith("lrollback")}


register(PropSpec(
    "C12",
    engines=[EngineSpec("ledger", gen, gen_ledger.mon_c12, gen_ledger.tags_ledger, quick_n=300, thorough_n=8000),
             EngineSpec("exec", gen_facade, mon_facade, tags_facade, quick_n=40, thorough_n=800, mask=mon_exec.mask_unmodelled)],
    facts=["journalWindow"],
    rule="ledger engine: block histories with creations, overwrites, deletions, delete-then-recreate, code changes, touched-but-unchanged accounts, "
         "every 4th history longer than the 10-block journal window; rollback targets current/-1/-2/random/0/above head, full state dump after every "
         "rollback compared with the dump recorded when that height was committed; refusals must leave the version unchanged; "
         "non-trivial = a rollback outcome tag; distinct = distinct op list + tag set. exec engine: Ledger.Rollback (state and chain ledger together) on real nodes "
         "after 8 to 17 blocks of interchain traffic, targets inside / below the journal window, the head, above the head; a refusal must leave chain, state and executor where "
         "they were, an accepted rollback leaves all three at the target; more blocks are executed on top and compared with the model",
))
