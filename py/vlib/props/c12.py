"""C12 — rolling back to a retained height restores exactly that height's state."""
from ..runner import EngineSpec, PropSpec
from .. import gen_ledger
from . import register


def gen(rng, n, tier):
    return gen_ledger.gen(rng, n, tier, deep=True, blocks=(3, 9))


register(PropSpec(
    "C12",
    engines=[EngineSpec("ledger", gen, gen_ledger.mon_c12, gen_ledger.tags_ledger, quick_n=300, thorough_n=8000)],
    rule="ledger engine: block histories with creations, overwrites, deletions, delete-then-recreate, code changes, touched-but-unchanged accounts, "
         "every 4th history longer than the 10-block journal window; rollback targets current/-1/-2/random/0/above head, full state dump after every "
         "rollback compared with the dump recorded when that height was committed; refusals must leave the version unchanged; "
         "non-trivial = a rollback outcome tag; distinct = distinct op list + tag set",
))
