"""C16 — only available, permitted services interchange; objects obey their life cycle."""
from ..runner import EngineSpec, PropSpec
from .. import gen_gov
from . import register

register(PropSpec(
    "C16",
    engines=[EngineSpec("exec", gen_gov.gen_c16, gen_gov.mon_c16, gen_gov.tags_c16, quick_n=160, thorough_n=4000, mask=gen_gov.mask_c16)],
    facts=["lifecycle", "availableStatus", "appchainCascade", "appchainSubmissionCascade", "serviceRejectRepause"],
    rule="exec engine: interchain requests between 6 services of 4 chains (incl. a blacklisting destination and destinations that do not exist) "
         "interleaved with real governance operations (freeze / activate / logout of services and appchains, service registration; approved, "
         "rejected or left open by the admins' votes) and node restarts (cached vs stored service records); before every request the governance status "
         "of source and destination service and of their appchains is read back; a monitor applies the gating rule of the property (available sets and "
         "state machines regenerated from the source), checks that every observed status change is a transition of the object's state machine, that "
         "logged-out objects stay forbidden and that a frozen / logged-out appchain has no usable service; the Lean model is compared until the first "
         "successful governance operation; non-trivial = at least one probe or status observation",
))
