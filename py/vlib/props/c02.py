"""C02 — IBTPs accepted in index order, exactly once per ordered service pair."""
from ..runner import EngineSpec, PropSpec
from .. import gen_exec, mon_exec
from . import register


def gen(rng, n, tier):
    return gen_exec.gen(rng, n, tier, focus="single")


register(PropSpec(
    "C02",
    engines=[EngineSpec("exec", gen, mon_exec.mon_c02, mon_exec.tags_c02, quick_n=250, thorough_n=6000, mask=mon_exec.mask_unmodelled)],
    rule="exec engine: histories of 4-14 blocks of mostly-valid interchain requests/receipts (valid / duplicate / future / 0 / 2^64-1 "
         "indices, ordered and unordered destinations, good / absent / mismatching proofs, fee-starved senders), transfers and direct "
         "contract calls; non-trivial = at least one IBTP receipt outcome tag; distinct = distinct op list + tag set",
))
