"""C08 — block execution is total: no transaction content can crash or wedge a node."""
from ..runner import EngineSpec, PropSpec
from .. import gen_dispatch, mon_exec
from . import register

register(PropSpec(
    "C08",
    engines=[EngineSpec("exec", gen_dispatch.gen_c08, gen_dispatch.mon_c08, gen_dispatch.tags_c08, quick_n=300, thorough_n=8000,
                        mask=mon_exec.mask_unmodelled)],
    facts=["contractMethods", "goSites", "recoverGuards"],
    rule="exec engine: blocks of malformed transactions at every position: every exported contract method (regenerated table) with wrong argument counts / "
         "types / unknown type tags / unparsable numbers / unknown or empty method names; raw payload bytes (nil, empty, truncated, garbage) to contracts, accounts "
         "and nil receivers; TransactionData with arbitrary type / vm type / amount / inner payload; IBTPs with malformed service ids, extreme indices and timeouts, "
         "unknown types, malformed groups, absent / mismatching proofs; the node must answer every block with the next height and one receipt per transaction; "
         "non-trivial = at least one malformed class tag",
))
