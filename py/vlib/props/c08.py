"""C08 — block execution is total: no transaction content can crash or wedge a node."""
from ..runner import EngineSpec, PropSpec
from .. import gen_dispatch, mon_exec
from . import register

def race_search(tier, seed, tag_hist):
    """what the goroutines of block execution share: the harness built with Go's race detector runs blocks whose IBTPs are spread over
    the proof-verification groups (accepted, rejected and absent proofs mixed, so that some groups record rejections while others still
    run) and blocks of transactions whose signatures are verified one goroutine each.  A race the detector reports ON A GO MAP
    (runtime.mapaccess* / mapassign* / mapdelete* / mapiter*) is an alarm: at run time the Go runtime answers a concurrent map read and
    write with `fatal error: concurrent map read and map write`, which no recover() contains — the node dies in the middle of a block.
    Other reports (plain words shared without a lock) are counted into the evidence, not alarmed: they do not crash a node."""
    import os, random, re, shutil, subprocess, tempfile
    from .. import core
    from ..core import History
    from ..runner import Hit
    rc, out = core.build_harness_race()
    if rc != 0:
        yield Hit("C08/race-harness-does-not-build", "the harness does not build with -race: " + out[-400:])
        return
    r = random.Random(seed ^ 0xC08)
    pairs = [("ca1", "c1:s1", "c2:s1"), ("ca1", "c1:s2", "c2:s3"), ("ca2", "c2:s1", "c1:s1"), ("ca2", "c2:s3", "c4:s1"),
             ("ca4", "c4:s1", "c1:s1"), ("ca1", "c1:s1", "c4:s1"), ("ca2", "c2:s1", "c4:s1"), ("ca3", "c3:s1", "c2:s1"), ("ca4", "c4:s1", "c2:s3")]
    hs = []
    n = 12 if tier != "thorough" else 120
    for _ in range(n):
        ops = [f"world audit={r.choice([0, 1])} price=1"]
        nxt = {}
        for _b in range(r.randint(3, 7)):
            txs = []
            for (a, f, t) in r.sample(pairs, r.randint(4, len(pairs))):
                i = nxt.get((f, t), 1)
                pk = r.choice(["ok", "ok", "bad", "bad", "none"])
                if pk == "ok":
                    nxt[(f, t)] = i + 1
                tx = f"ibtp {a} {f} {t} {i} req {r.choice([0, 0, 3])} - {pk}"
                if r.random() < 0.3:
                    tx = f"sig:{r.choice(['ok', 'ok', 'bad', 'other'])} " + tx
                txs.append(tx)
            if r.random() < 0.3:
                txs.append(f"xfer u0 u1 {r.randint(1, 9)}")
            ops.append("block " + " | ".join(txs))
        hs.append(History(ops, tags={"race:parallel-proof-blocks"}))
    # and some of the property's ordinary malformed traffic
    hs += gen_dispatch.gen_c08(random.Random(seed ^ 0xC081), 12 if tier != "thorough" else 150, tier)
    base = os.environ.get("VERIF_SCRATCH") or tempfile.gettempdir()
    maprx = re.compile(r"^\s+runtime\.map\w+\(|^\s+internal/runtime/maps\.")
    for i in range(0, len(hs), 6):
        chunk = hs[i:i + 6]
        lines = []
        for h in chunk:
            lines.append("reset")
            lines.extend(h.ops)
        scratch = tempfile.mkdtemp(prefix="bxhverif-race-", dir=base)
        try:
            try:
                p = subprocess.run([core.BXHDRIVE_RACE, "exec"], input="\n".join(lines) + "\n", capture_output=True, text=True, timeout=600,
                                   env=dict(os.environ, VERIF_SCRATCH=scratch, GORACE="halt_on_error=0"))
                err = p.stderr
            except subprocess.TimeoutExpired as e:
                err = (e.stderr or b"").decode(errors="replace") if isinstance(e.stderr, bytes) else (e.stderr or "")
        finally:
            shutil.rmtree(scratch, ignore_errors=True)
        reports = [x for x in err.split("==================") if "WARNING: DATA RACE" in x]
        tag_hist["race:histories-run"] = tag_hist.get("race:histories-run", 0) + len(chunk)
        found = False
        for rep in reports:
            repo_frames = re.findall(r"^\s+(github\.com/meshplus/bitxhub/\S+)\(\)", rep, re.M)
            where = (repo_frames[0].split("/")[-1] if repo_frames else "?").replace("(*", "").replace(")", "")
            if any(maprx.match(l) for l in rep.splitlines()):
                if not found:
                    found = True
                    hit = Hit(f"C08/concurrent-map-access/{where}",
                              "the race detector reports an unsynchronised access to a Go map shared by goroutines of block execution "
                              f"(first frame in the repository: {where}); at run time this is `fatal error: concurrent map read and map write`, "
                              "which recover() cannot contain: the node dies while executing a block",
                              hist=History(lines), detail=rep.strip()[:3000])
                    hit.engine = "exec-race"
                    yield hit
            else:
                k = "race:not-a-map:" + where
                tag_hist[k] = tag_hist.get(k, 0) + 1
        if not found:
            for _ in chunk:
                yield None


register(PropSpec(
    "C08",
    statics=[race_search],
    engines=[EngineSpec("exec", gen_dispatch.gen_c08, gen_dispatch.mon_c08, gen_dispatch.tags_c08, quick_n=300, thorough_n=8000,
                        mask=mon_exec.mask_unmodelled)],
    facts=["contractMethods", "goSites", "recoverGuards"],
    rule="exec engine: blocks of malformed transactions at every position: every exported contract method (regenerated table) with wrong argument counts / "
         "types / unknown type tags / unparsable numbers / unknown or empty method names; raw payload bytes (nil, empty, truncated, garbage) to contracts, accounts "
         "and nil receivers; TransactionData with arbitrary type / vm type / amount / inner payload; IBTPs with malformed service ids, extreme indices and timeouts, "
         "unknown types, malformed groups, absent / mismatching proofs; the node must answer every block with the next height and one receipt per transaction; "
         "non-trivial = at least one malformed class tag",
))
