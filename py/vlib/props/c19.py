"""C19 — the pool neither loses accepted transactions nor misreports its content."""
from ..runner import EngineSpec, PropSpec
from .. import gen_pool
from . import register

def gen(rng, n, tier):
    """the pool histories, plus a few runs of the transaction cache in front of the pool (tx_cache.go): n arrivals, set size k, now
    and then a nil transaction among them"""
    from ..core import History
    hs = gen_pool.gen(rng, n, tier)
    for _ in range(3 if tier == "quick" else 12):
        ops = []
        for _ in range(3):
            k = rng.choice([0, 1, 2, 3, 5, 10, 64])
            kk = k or 10
            m = rng.choice([0, 1, kk - 1, kk, kk + 1, 2 * kk, 2 * kk + 1, rng.randrange(0, 5 * kk + 2)])
            op = f"txcache size={k} n={m}"
            if m > 1 and rng.random() < 0.3:
                op += f" nil={rng.randrange(0, m)}"
            ops.append(op)
        hs.append(History(ops, tags={"txcache"}))
    return hs


def mon(h, obs):
    import re
    from ..runner import Hit
    hits = gen_pool.mon_c19(h, obs) if not h.ops or not h.ops[0].startswith("txcache") else []
    for op, o in zip(h.ops, obs):
        if not op.startswith("txcache"):
            continue
        kv = dict(w.split("=") for w in op.split()[1:])
        k = int(kv["size"]) or 10
        m = int(kv["n"]) - (1 if "nil" in kv else 0)
        mm = re.match(r"^sets=\[([\d ]*)\] order=(\d)( ## .*)?$", o or "")
        if not mm:
            hits.append(Hit("C19/txcache/bad-result", f"`{op}` -> {(o or '')[:120]}", detail=op))
            continue
        sizes = [int(x) for x in mm.group(1).split()]
        if sum(sizes) != m:
            hits.append(Hit("C19/txcache/transactions-lost-or-duplicated", f"`{op}`: {m} transactions went in, the posted sets hold {sum(sizes)} ({sizes[:20]})", detail=op))
        elif mm.group(2) != "1":
            hits.append(Hit("C19/txcache/order-not-kept", f"`{op}`: the posted sets do not keep the arrival order", detail=op))
        elif any(x > k or x < 1 for x in sizes):
            hits.append(Hit("C19/txcache/set-size", f"`{op}`: a posted set is empty or larger than the set size {k}: {sizes[:20]}", detail=op))
    return hits


def tags(h, obs):
    if h.ops and h.ops[0].startswith("txcache"):
        return {"txcache:" + ("tick" if any(o and not o.startswith("sets=[]") for o in obs) else "empty")}
    return gen_pool.tags_pool(h, obs)


register(PropSpec(
    "C19",
    engines=[EngineSpec("pool", gen, mon, tags, quick_n=300, thorough_n=20000)],
    rule="pool engine, same histories as C18, observed after every step (HasPendingRequest, IsPoolFull, GetPendingNonceByAccount of every account, GetTransaction of "
         "every hash ever given, sizes of the internal indices) and followed by 8 rounds of GenerateBlock + commit; non-trivial = at least one batch; distinct = distinct op list. "
         "Plus the real TxCache in front of the pool (ListenEvent goroutine, set size k, 40 ms tick) fed n transactions: the posted sets hold every transaction once, in arrival order, none larger than k",
))
