"""C19 — the pool neither loses accepted transactions nor misreports its content."""
from ..runner import EngineSpec, PropSpec
from .. import gen_pool
from . import register

register(PropSpec(
    "C19",
    engines=[EngineSpec("pool", gen_pool.gen, gen_pool.mon_c19, gen_pool.tags_pool, quick_n=300, thorough_n=20000)],
    rule="pool engine, same histories as C18, observed after every step (HasPendingRequest, IsPoolFull, GetPendingNonceByAccount of every account, GetTransaction of "
         "every hash ever given, sizes of the internal indices) and followed by 8 rounds of GenerateBlock + commit; non-trivial = at least one batch; distinct = distinct op list",
))
