"""C11 — the ledger recovers to a consistent height after a crash at any persist point."""
from ..runner import EngineSpec, PropSpec
from .. import gen_store
from . import register

register(PropSpec(
    "C11",
    engines=[EngineSpec("store", gen_store.gen_crash, gen_store.mon_c11, gen_store.tags_store, quick_n=1, thorough_n=1, canon=gen_store.canon_store)],
    rule="store engine, exhaustive: at heights 1,2,5,11,12,13 (thorough: 11 heights incl. journal-pruning ones) every admissible mask of the durable "
         "writes of one block commit — state batch, journal-pruning batch (h>10, after the state batch), chain-index batch, 0..5 blockfile tables in AppendBlock "
         "order — is assembled from before/after copies of the real stores, reopened with the real ledger.New and continued with two more blocks; "
         "non-trivial = every history (one mask each); distinct = distinct (height, mask)",
))
