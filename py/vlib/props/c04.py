"""C04 — cross-chain transaction status follows the protocol state machine."""
from ..runner import EngineSpec, PropSpec
from .. import gen_exec, mon_exec
from . import register


def gen(rng, n, tier):
    return gen_exec.gen(rng, n, tier, focus="single", blocks=(6, 16))


register(PropSpec(
    "C04",
    engines=[EngineSpec("exec", gen, mon_exec.mon_c04, mon_exec.tags_c04, quick_n=250, thorough_n=6000, mask=mon_exec.mask_unmodelled,
                        hyp_alarm={"listedfinal=1": ("C04/final-record-listed-when-the-timeout-step-runs",
                                                     "the model (which agrees with the node on this history) reaches a block whose timeout step finds a SUCCESS / FAILURE / "
                                                     "ROLLBACK record on the list of that height: the hypothesis of C04_block_final_stays fails and the step overwrites the final status"),
                                   "openinv=0": ("C04/open-record-listed-twice-or-on-another-deadline",
                                                 "the model (which agrees with the node on this history) ends a block with an open one-to-one record that is on a timeout list of a "
                                                 "height still to come twice, or on the list of another height than its record names: the hypothesis OpenInv of "
                                                 "C04_block_finalising_unlists fails, a receipt would not take it off that list and the timeout step would overwrite the final status"),
                                   "abort=1": ("C04/timeout-bookkeeping-abandoned",
                                               "the model (which agrees with the node on this history) abandons the timeout bookkeeping of a whole block (a successful receipt "
                                               "without any record): accepted requests of that block are not booked and answered ones stay listed")})],
    facts=["txFsm", "ibtpContextHeight"],
    rule="exec engine: per transaction id a generated life (request with timeout 0/1/2/3/4/10/huge/negative, success/failure/rollback receipts "
         "before/at/after the deadline, repeated and out-of-protocol receipts, unrelated and empty blocks); GetStatus observed after every block; "
         "non-trivial = at least one observed status edge; distinct = distinct op list + tag set",
))
