"""C07 — a failed transaction leaves nothing behind but its nonce increment and fee; read-only execution changes nothing."""
from ..runner import EngineSpec, PropSpec
from .. import gen_exec, mon_exec, gen_ledger
from . import register

register(PropSpec(
    "C07",
    engines=[EngineSpec("exec", gen_exec.gen_c07, mon_exec.mon_c07, mon_exec.tags_c07, quick_n=200, thorough_n=5000, mask=mon_exec.mask_unmodelled),
             EngineSpec("ledger", gen_ledger.gen_revert, gen_ledger.mon_c07, gen_ledger.tags_ledger, quick_n=150, thorough_n=4000)],
    facts=["failedEventsCond"],
    rule="exec engine: fee-starved signers (chain admins and users drained to below one fee) submit IBTPs that are processed and then "
         "cannot pay, check-rejected IBTPs, contract calls that error (wrong arity, unknown method, denied caller, governance calls) and "
         "bad transfers; every such block and every run of read-only (view) executions is bracketed by a dump of all committed contract "
         "storage, balances and nonces; non-trivial = at least one bracketed all-failed block or view run; distinct = op list + tag set; "
         "ledger engine: blocks whose last transaction is a scripted failed one (snapshot, set/add/delete of a key that an earlier transaction of the block set, "
         "added or deleted, revert), then flush / commit / cache eviction / reopen and read-back, against the SimpleLedger model and a plain-map reference",
))
