"""C10 — state, transaction and receipt roots commit to exactly what was executed."""
import re

from ..core import History
from ..runner import EngineSpec, PropSpec, Hit
from .. import gen_ledger
from . import register

# values that begin with the tail of a longer key, so that key/value boundaries can shift ("k"+"1v1" = "k1"+"v1")
ACCTS, KEYS, VALS, CODES = gen_ledger.ACCTS, gen_ledger.KEYS, ["v1", "v2", "w", "zz", "1v1", "2w", "yw"], gen_ledger.CODES


def change_set(r, existing=None):
    """a set of final writes: distinct (account, field) targets; `None` as a storage value = delete (only of keys that
    exist in the committed base, otherwise it would not be a change)"""
    cs = {}
    live = [t for t, v in (existing or {}).items() if t[1] == "k" and v is not None]
    for _ in range(r.randint(1, 7)):
        a = r.choice(ACCTS)
        k = r.random()
        if k < 0.18 and live:
            cs[r.choice(live)] = None
        elif k < 0.6:
            cs[(a, "k", r.choice(KEYS))] = r.choice(VALS)
        elif k < 0.8:
            cs[(a, "bal")] = r.choice([1, 5, 100, 10 ** 20])
        elif k < 0.95:
            cs[(a, "nonce")] = r.choice([1, 2, 7])
        else:
            c = r.choice(list(CODES))
            cs[(a, "code")] = c
    return cs


def ops_of(cs, order, bstate=None, delta=False):
    """delta: balances are changed through AddBalance / SubBalance (the EVM / role-contract paths) instead of SetBalance"""
    ops = []
    for t in order:
        v = cs[t]
        if t[1] == "k":
            ops.append(f"set {t[0]} {t[2]} {v}" if v is not None else f"del {t[0]} {t[2]}")
        elif t[1] == "bal":
            cur = (bstate or {}).get((t[0], "bal"), 0)
            if delta and v != cur and (v > cur or cur > 0):
                ops.append(f"addbal {t[0]} {v - cur}")
            else:
                ops.append(f"setbal {t[0]} {v}")
        elif t[1] == "nonce":
            ops.append(f"setnonce {t[0]} {v}")
        else:
            ops.append(f"setcode {t[0]} {v} {CODES[v]}")
    return ops


def perturb(r, cs, existing=None):
    cs2 = dict(cs)
    t = r.choice(list(cs))
    kind = r.choice(["value", "drop", "add", "delete-other", "add-delete"])
    live = [x for x, v in (existing or {}).items() if x[1] == "k" and v is not None and x not in cs]
    if kind == "delete-other" and cs[t] is None and t[1] == "k" and live:
        # the same block deletes another existing key instead
        del cs2[t]
        cs2[r.choice(live)] = None
        return cs2, "delete-other"
    if kind == "add-delete" and live:
        cs2[r.choice(live)] = None
        return cs2, "add-delete"
    if kind in ("delete-other", "add-delete"):
        kind = "value"
    if kind == "drop" and len(cs) > 1:
        del cs2[t]
        return cs2, "drop"
    if kind == "add":
        for _ in range(10):
            a, k = r.choice(ACCTS), r.choice(KEYS)
            if (a, "k", k) not in cs2:
                cs2[(a, "k", k)] = r.choice(VALS)
                return cs2, "add"
    v = cs[t]
    if t[1] == "k":
        cs2[t] = r.choice([x for x in VALS if x != v])      # a delete becomes a write of a value
    elif t[1] == "bal":
        cs2[t] = v + 1
    elif t[1] == "nonce":
        cs2[t] = v + 1
    else:
        cs2[t] = r.choice([c for c in CODES if c != v])
    return cs2, "value"


def scripted_reverted_account_field():
    """forced, not drawn (seeding round 25, `C10-reverted-setcode-keeps-empty-hash`): a failed transaction (snapshot, one account-field
    write, revert) on an account whose balance / nonce the same block changes — before or after that change, on an account with or
    without a committed record.  The account's dirty copy exists in every variant, so the root must not see the failed transaction."""
    hs = []
    c0 = sorted(CODES)[0]
    for fld in (f"setcode a0 {c0} {CODES[c0]}", "setbal a0 9", "setnonce a0 8"):
        for chg, chg3 in (("setbal a0 5", "setbal a0 6"), ("setnonce a0 3", "setnonce a0 4")):
            for pos in ("before", "after"):
                for rec in (False, True):
                    base = ["setbal a0 2", "set a0 k v", "finalise", "flush", "commit 1"] if rec else []
                    failed = ["snap", fld, "revert 0", "finalise"]
                    seg1 = ["open"] + base + [chg, "finalise", "flush"]
                    seg2 = ["open"] + base + (failed + [chg] if pos == "before" else [chg, "finalise"] + failed) + ["finalise", "flush"]
                    seg3 = ["open"] + base + [chg3, "finalise", "flush"]
                    hs.append(History(seg1 + seg2 + seg3, tags={"perturb:value", "variant:reverted-write/account-field-of-changed-account",
                                                                 "scripted:reverted-account-field:" + fld.split()[0] + ":" + pos + (":record" if rec else ":fresh")}))
    return hs


def gen_state(rng, n, tier):
    import random as _r
    hs = scripted_reverted_account_field()
    for _ in range(n):
        r = _r.Random(rng.getrandbits(64))
        # a common committed base (one or two blocks), then the same change set in three orders / read mixes,
        # then a perturbed change set; every variant starts from a fresh ledger with the same base
        base = []
        bstate = {}
        for h in range(1, r.randint(1, 3)):
            b = change_set(r)
            if r.random() < 0.35:
                c0 = r.choice(list(CODES))
                b[(r.choice(ACCTS), "code")] = c0          # a contract account in the committed base
            bstate.update(b)
            base += ops_of(b, list(b)) + ["finalise", "flush", f"commit {h}"]
        # commit timing: the node commits a block while it already executes the next one.  Shape of such a history: block A
        # writes a key, block B deletes it (or overwrites it), the change set writes the value of A again; in the second
        # variant the commit of B comes after the writes of the change set instead of before
        late = r.random() < 0.15
        forced = {}
        if late:
            base, bstate = [], {}
            a, k, v = r.choice(ACCTS), r.choice(KEYS), r.choice(VALS)
            blkA = change_set(r)
            blkA[(a, "k", k)] = v
            bstate.update(blkA)
            base += ops_of(blkA, list(blkA)) + ["finalise", "flush", "commit 1"]
            blkB = {t: x for t, x in change_set(r, bstate).items() if t != (a, "k", k)}
            blkB[(a, "k", k)] = None if r.random() < 0.7 else r.choice([x for x in VALS if x != v])
            bstate.update(blkB)
            base += ops_of(blkB, list(blkB)) + ["finalise", "flush", "commit 2"]
            forced = {(a, "k", k): v}
        # an account of the committed base that was emptied again (balance back to 0, nonce 0, no code), and a touch of it without a
        # net change that every variant of this history makes right before the change set: whether such an account still has a
        # record must not show in the root, on a running node as on one that reopened or dropped its caches
        touch = []
        emptied = None
        if not late and r.random() < 0.3:
            emptied = r.choice(ACCTS)
            base, bstate = [o for o in base], dict(bstate)
            hb = sum(1 for o in base if o.startswith("commit"))
            keep = [t for t in bstate if t[0] == emptied and t[1] in ("nonce", "code")]
            if not keep:
                base += [f"setbal {emptied} 5", "finalise", "flush", f"commit {hb + 1}", f"setbal {emptied} 0", "finalise", "flush", f"commit {hb + 2}"]
                bstate[(emptied, "bal")] = 0
                touch = r.choice([[f"addbal {emptied} 7", f"addbal {emptied} -7"],
                                  ["snap", f"setbal {emptied} 9", "revert 0", "finalise"],
                                  [f"bal {emptied}", f"nonce {emptied}"]])
            else:
                emptied = None
        hbase = sum(1 for o in base if o.startswith("commit"))
        # only real changes relative to the committed base count as changes
        cs = {t: v for t, v in change_set(r, bstate).items() if bstate.get(t) != v}
        if emptied:
            cs = {t: v for t, v in cs.items() if not (t[0] == emptied and t[1] in ("bal", "nonce", "code"))}
        cs.update(forced)
        if not cs:
            cs = {("a2", "k", "xy"): "zz"} if bstate.get(("a2", "k", "xy")) != "zz" else {("a2", "k", "xy"): "w"}
        order1 = list(cs)
        order2 = list(cs)
        r.shuffle(order2)
        cs3, kind = perturb(r, cs, bstate)
        for _ in range(20):
            # the perturbed set must differ from the original as a set of real changes
            real3 = {t: v for t, v in cs3.items() if bstate.get(t) != v}
            if real3 != cs:
                break
            cs3, kind = perturb(r, cs, bstate)
        else:
            cs3, kind = dict(cs), "none"
            cs3[("a0", "bal")] = 12345
        ops = []
        tags = {"perturb:" + kind}
        if emptied:
            tags.add("emptied-account-touch")
        for i, (c, order, extra) in enumerate([(cs, order1, "plain"), (cs, order2, "shuffled+reads"), (cs3, list(cs3), "perturbed")]):
            ops.append("open")
            late_here = late and extra == "shuffled+reads"
            ops += (base[:-1] if late_here else base)
            if extra == "shuffled+reads":
                # exactly one kind of variation per history, so that a differing root is attributed to it
                variant = "late-commit" if late else r.choice(["shuffle", "reopen", "evict", "reads", "overwritten", "noop-account-write", "balance-by-delta", "balance-by-delta",
                                    "reverted-write", "reverted-write", "reopen-then-reads", "reopen-then-reads"])
                if variant == "balance-by-delta" and not any(t[1] == "bal" for t in c):
                    variant = "shuffle"
                if variant == "reopen" and hbase:
                    ops.append("reopen")
                elif variant == "reopen-then-reads":
                    # accounts of the committed base (contract accounts among them) are loaded from the database again — after a
                    # restart, or after the caches dropped them — and only looked at: balance, nonce, a storage key
                    if hbase:
                        if r.random() < 0.6:
                            ops.append("reopen")
                        else:
                            for a in ACCTS:
                                ops.append(f"evict state {a}")
                                ops.append(f"evict inner {a}")
                    for a in r.sample(ACCTS, min(len(ACCTS), r.randint(2, 4))):
                        ops.append(r.choice([f"bal {a}", f"nonce {a}", f"get {a} {r.choice(KEYS)}"]))
                elif variant == "evict" and hbase:
                    ops.append(f"evict state {r.choice(ACCTS)}")
                    ops.append(f"evict inner {r.choice(ACCTS)}")
                elif variant == "reads":
                    for _ in range(r.randint(1, 5)):
                        ops.append(f"get {r.choice(ACCTS)} {r.choice(KEYS)}")
                        ops.append(f"bal {r.choice(ACCTS)}")
                elif variant == "overwritten":
                    t = r.choice([t for t in order]) if order else None
                    if t and t[1] == "k":
                        ops.append(f"set {t[0]} {t[2]} {r.choice(VALS)}")
                        if r.random() < 0.3:
                            ops.append(f"del {t[0]} {t[2]}")
                elif variant == "reverted-write":
                    # a failed transaction (snapshot, writes, revert) is no change at all.  One of three shapes per history (the
                    # shape is part of the variant name, hence of the fingerprint): an account field / a storage key written before
                    # the block's own writes (the target may have been read before), or a storage key written after the block
                    # itself deleted / wrote it (appended below, after the change set)
                    shape = r.choice(["account-field", "storage", "after-own"])
                    if shape == "after-own" and not any(t[1] == "k" for t in c):
                        shape = "storage"
                    # a fourth shape (seeding round 25): the account-field write of the failed transaction goes to an account whose
                    # balance / nonce the block changes anyway.  The dirty copy of that account exists in every variant, so the cause
                    # of the recorded finding (.../account-field: an EMPTY dirty copy that would not exist otherwise) is not in play
                    # and the roots must agree; it has its own fingerprint so that the recorded finding cannot swallow it
                    changed = sorted({t[0] for t in c if t[1] in ("bal", "nonce")})
                    a_forced = None
                    if shape == "account-field" and changed and r.random() < 0.6:
                        shape = "account-field-of-changed-account"
                        a_forced = r.choice(changed)
                    variant = "reverted-write/" + shape
                    if shape != "after-own":
                        a = a_forced or r.choice(ACCTS)
                        if r.random() < 0.5:
                            ops.append(f"bal {a}")
                            ops.append("finalise")
                        ops.append("snap")
                        k = r.random()
                        if shape == "storage":
                            ops.append(f"set {a} {r.choice(KEYS)} {r.choice(VALS)}")
                        elif k < 0.4:
                            c0 = r.choice(list(CODES))
                            ops.append(f"setcode {a} {c0} {CODES[c0]}")
                        elif k < 0.75:
                            ops.append(f"setbal {a} {r.choice([1, 5, 100])}")
                        else:
                            ops.append(f"setnonce {a} {r.choice([1, 7])}")
                        ops.append("revert 0")
                        ops.append("finalise")
                elif variant == "noop-account-write":
                    # an account write that leaves the account as it is must not matter
                    a = r.choice(ACCTS)
                    if (a, "bal") not in c and (a, "nonce") not in c and (a, "code") not in c:
                        if r.random() < 0.5:
                            ops.append(f"setbal {a} {bstate.get((a, 'bal'), 0)}")
                        else:
                            ops.append(f"setnonce {a} {bstate.get((a, 'nonce'), 0)}")
                tags.add("variant:" + variant)
            by_delta = (extra == "shuffled+reads" and variant == "balance-by-delta") or (extra == "perturbed" and r.random() < 0.4)
            if by_delta and any(t[1] == "bal" for t in c):
                tags.add("balance-by-delta:" + extra)
            ops += touch
            ops += ops_of(c, order, bstate, delta=by_delta)
            if late_here:
                ops.append(base[-1])          # the commit of the previous block arrives only now
            if extra == "shuffled+reads" and variant == "reverted-write/after-own":
                # the failed transaction comes AFTER the block's own writes, on a key the block has just deleted / written
                ks = [t for t in c if t[1] == "k"]
                dels = [t for t in ks if c[t] is None]
                t = r.choice(dels) if dels and r.random() < 0.7 else r.choice(ks)
                ops += ["finalise", "snap", f"set {t[0]} {t[2]} {r.choice(VALS)}", "revert 0"]
                tags.add("reverted-write:after-own-" + ("delete" if c[t] is None else "write"))
            ops += ["finalise", "flush"]
        hs.append(History(ops, tags=tags))
    return hs


ROOT = re.compile(r"root=(0x[0-9a-f]+)")


def _segments(ops):
    segs, cur = [], None
    for o in ops:
        if o == "open":
            if cur is not None:
                segs.append(cur)
            cur = []
        elif cur is not None:
            cur.append(o)
    if cur is not None:
        segs.append(cur)
    return segs


def _storage_preimage(seg):
    """per account: the concatenation key||value over the storage keys really changed by the last block of the segment,
    in key order — exactly the bytes the account's state hash is computed from (a delete contributes its key only)"""
    committed, pending = {}, {}
    for o in seg:
        ws = o.split()
        if ws[0] in ("set", "add"):
            pending[(ws[1], "" if ws[2] == "~" else ws[2])] = "" if ws[3] == "~" else ws[3]
        elif ws[0] == "del":
            pending[(ws[1], "" if ws[2] == "~" else ws[2])] = None
        elif ws[0] == "commit":
            committed.update(pending)
            pending = {}
    out = {}
    for (a, k), v in sorted(pending.items()):
        if committed.get((a, k)) in (None, "") and v in (None, ""):
            continue                      # absent stays absent (empty values are not persisted): no change
        if committed.get((a, k)) == v:
            continue
        out[a] = out.get(a, "") + k + (v or "")
    # an account whose changed keys concatenate to nothing (delete of the empty key) hashes like one without storage changes
    return {a: x for a, x in out.items() if x != ""}


def mon_state(h, obs):
    roots = []
    cur = None
    for op, o in zip(h.ops, obs):
        if op == "open":
            if cur is not None:
                roots.append(cur)
            cur = None
        m = ROOT.search(o) if op == "flush" else None
        if m:
            cur = m.group(1)
    roots.append(cur)
    hits = []
    if len(roots) == 3 and all(roots):
        if roots[0] != roots[1]:
            variant = ",".join(sorted(t.split(":", 1)[1] for t in h.tags if t.startswith("variant:")))
            hits.append(Hit(f"C10/state-root-differs/{variant}",
                            f"the same change set applied in another order with variation '{variant}' gave another root: {roots[0]} vs {roots[1]}"))
        if roots[0] == roots[2]:
            segs = _segments(h.ops)
            amb = len(segs) == 3 and _storage_preimage(segs[0]) == _storage_preimage(segs[2])
            fp = "C10/state-root-insensitive/ambiguous-key-value-concatenation" if amb else "C10/state-root-insensitive"
            hits.append(Hit(fp, f"a perturbed change set ({sorted(h.tags)}) gave the same root {roots[0]}"))
    return hits


def gen_merkle(rng, n, tier):
    import random as _r
    hs = []
    for _ in range(max(20, n // 4)):
        r = _r.Random(rng.getrandbits(64))
        ops = []
        for _ in range(25):
            ln = r.choice([0, 1, 2, 3, 4, 5, 6, 7, 8, 9, 12, 17])
            toks = [f"t{r.randrange(10**6)}" for _ in range(ln)]
            toks = list(dict.fromkeys(toks))
            ops.append("mroot " + " ".join(toks))
            if len(toks) >= 1:
                t2 = list(toks)
                k = r.choice(["change", "swap", "drop", "append"])
                if k == "change":
                    t2[r.randrange(len(t2))] = f"x{r.randrange(10**6)}"
                elif k == "swap" and len(t2) >= 2:
                    i, j = r.sample(range(len(t2)), 2)
                    t2[i], t2[j] = t2[j], t2[i]
                elif k == "drop":
                    t2.pop(r.randrange(len(t2)))
                else:
                    t2.append(f"y{r.randrange(10**6)}")
                ops.append(("mroot " + " ".join(t2)).strip())
            else:
                ops.append("mroot")
            ops[-2] = ops[-2].strip()
        hs.append(History(ops, tags={"merkle"}))
    return hs


def mon_merkle(h, obs):
    hits = []
    for i in range(0, len(h.ops) - 1, 2):
        a, b = h.ops[i], h.ops[i + 1]
        if a != b and obs[i] == obs[i + 1]:
            hits.append(Hit("C10/merkle-root-insensitive", f"two different lists of distinct leaves have the same root: {a!r} / {b!r}"))
        if a == b and obs[i] != obs[i + 1]:
            hits.append(Hit("C10/merkle-root-not-a-function", f"the same list gave two roots: {a!r}"))
    return hits


register(PropSpec(
    "C10",
    engines=[EngineSpec("ledger", gen_state, mon_state, None, quick_n=200, thorough_n=6000),
             EngineSpec("merkle", gen_merkle, mon_merkle, None, quick_n=200, thorough_n=4000)],
    rule="ledger engine, metamorphic: a committed base, then the same change set (storage writes, balances, nonces, code) applied in two orders "
         "— the second through reads, cache evictions, reopen and overwritten intermediate writes — must give the same root, and a single-field "
         "perturbation (value / balance / nonce / code changed, one key added or dropped) must give another; the model's root must equal the real "
         "SHA-256 root bit for bit.  merkle engine: lists of 0..17 distinct leaves and one perturbation each (changed leaf, swapped leaves, dropped / "
         "appended leaf).  non-trivial = perturbation/variant tag; distinct = distinct op list",
))
