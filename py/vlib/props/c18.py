"""C18 — the pool batches each account's transactions in gap-free nonce order, once."""
from ..runner import EngineSpec, PropSpec
from .. import gen_pool
from . import register

register(PropSpec(
    "C18",
    engines=[EngineSpec("pool", gen_pool.gen, gen_pool.mon_c18, gen_pool.tags_pool, quick_n=300, thorough_n=20000)],
    rule="pool engine: 4 accounts, out-of-order arrival, gaps, stale and conflicting nonces, duplicates by hash, local/remote, leader/follower, batch sizes 1-4, "
         "pool sizes 3-50, timed and untimed mode, GenerateBlock, commits of the oldest uncommitted batch (whole / prefix / suffix that skips the lower nonces / reversed) and of the second-oldest batch first, commits of blocks of another "
         "leader for one account, unknown hashes, age-based eviction with chosen cuts, SetBatchSeqNo, restart with ledger nonces; every returned batch is checked "
         "against what was given (gap-free from the chain's committed nonce, once, size, consecutive heights); non-trivial = at least one batch; distinct = distinct op list",
))
