"""C17 — internal and privileged contract entry points reject unauthorised callers."""
from ..runner import EngineSpec, PropSpec
from .. import gen_dispatch, mon_exec
from . import register

register(PropSpec(
    "C17",
    engines=[EngineSpec("exec", gen_dispatch.gen_c17, gen_dispatch.mon_c17, gen_dispatch.tags_c17, quick_n=450, thorough_n=6000,
                        mask=mon_exec.mask_unmodelled),
             EngineSpec("perm", gen_dispatch.gen_perm, gen_dispatch.mon_perm, None, quick_n=1, thorough_n=1)],
    facts=["contractMethods"],
    rule="exec engine: every method of every registered built-in contract (table regenerated from /repo: reflection surface incl. promoted Stub methods) "
         "is invoked directly by an outsider, another chain's admin, a governance admin and the super admin with well-typed arguments drawn from the ids "
         "of existing objects, audit on/off, after warm-up traffic that created interchain counters and transaction records; every call is bracketed by full "
         "state dumps; non-trivial = a bracketed direct call; distinct = op list + tag set; "
         "perm engine: contracts.checkPermission against the Lean decision function on every permission list up to length 3 x regulated x regulator x address data x role answer (exhaustive, 7650 calls)",
))
