"""C03 — only IBTPs whose proof was verified for their origin can change state."""
from ..runner import EngineSpec, PropSpec
from .. import gen_dispatch, mon_exec
from . import register

register(PropSpec(
    "C03",
    engines=[EngineSpec("exec", gen_dispatch.gen_c03, gen_dispatch.mon_c03, gen_dispatch.tags_c03, quick_n=220, thorough_n=6000,
                        mask=mon_exec.mask_unmodelled),
             EngineSpec("msig", gen_dispatch.gen_msig, gen_dispatch.mon_msig, None, quick_n=40, thorough_n=1500)],
    facts=["proofFanout", "proofMaxGroup"],
    rule="exec engine: requests and receipts with proof kinds ok / absent / hash-mismatch / plain-false, from chains whose rule accepts (c1, c2), rejects with an "
         "error (c3), or that are unknown / foreign / malformed, mixed with valid traffic; every such block bracketed by full state dumps; the same IBTPs offered "
         "to InterchainManager.HandleIBTPData by direct calls; msig engine: VerifyPool.verifyMultiSign with real secp256k1 signatures: exhaustive for <= 4 "
         "validators x <= 3 signatures over {registered, unregistered, junk, wrong digest}, random up to 12 validators with duplicated entries; "
         "non-trivial = at least one IBTP with a chosen proof kind / one msig call",
))
