"""C20 — ordering delivers each height once, in order."""
from ..core import History
from ..runner import EngineSpec, PropSpec, Hit
from . import register

U64 = 2 ** 64


def gen_sync(rng, n, tier):
    hs = []
    # exhaustive small triples, packed into a few histories
    lim = 14 if tier == "quick" else 40
    ops = []
    for f in range(0, 8 if tier == "quick" else 12):
        for b in range(0, lim):
            for e in range(0, lim):
                ops.append(f"ranges {b} {e} {f}")
    for i in range(0, len(ops), 400):
        hs.append(History(ops[i:i + 400], tags={"ranges:small-exhaustive"}))
    # random large ones (kept away from 2^64 wrap-around: end + fetch < 2^64)
    for _ in range(n):
        ops = []
        for _ in range(20):
            f = rng.choice([1, 2, 3, 5, 7, 10, 100, rng.randrange(1, 10 ** 6)])
            b = rng.choice([0, 1, rng.randrange(0, 10 ** 4), rng.randrange(0, 2 ** 40), f * rng.randrange(0, 1000)])
            span = rng.choice([0, 1, f - 1, f, f + 1, 2 * f, rng.randrange(0, 40 * f + 1)])
            if rng.random() < 0.1:
                e = max(0, b - rng.randrange(1, 5))
            else:
                e = b + min(span, 3000)
            ops.append(f"ranges {b} {e} {f}")
        hs.append(History(ops, tags={"ranges:random"}))
    # the syncer itself: SyncCFTBlocks / SyncBFTBlocks of the real StateSyncer over three fake peers that serve a synthetic
    # hash-linked chain (one of them may fail its first requests): every missing height is requested once, in ascending
    # order, and every block is handed on once, in order, followed by the end marker
    for k in range(max(4, n // 10)):
        ops = []
        for _ in range(10):
            f = rng.choice([0, 1, 2, 3, 5, 10])
            ff = f or 5
            b = rng.choice([1, 1, 2, ff, ff + 1, rng.randrange(1, 60)])
            span = rng.choice([0, 0, 1, ff - 1, ff, ff + 1, 2 * ff, 2 * ff + 1, rng.randrange(0, 6 * ff + 1)])
            e = b + span if rng.random() > 0.07 else max(0, b - 1)
            kind = rng.choice(["cft", "cft", "bft"])
            if rng.random() < 0.35:
                ops.append(f"{kind} {b} {e} {f} {rng.choice([1, 2, 3])} {rng.choice([1, 2, 5])}")
            else:
                ops.append(f"{kind} {b} {e} {f}")
        hs.append(History(ops, tags={"syncer"}))
    return hs


def mon_sync(h, obs):
    hits = []
    for op, o in zip(h.ops, obs):
        ws = op.split()
        if ws[0] in ("cft", "bft"):
            b, e = int(ws[1]), int(ws[2])
            if b > e:
                if o != "err":
                    hits.append(Hit("C20/syncer/no-error", f"`{op}` (begin > end) did not fail: {o[:120]}", detail=op))
                continue
            import re as _re
            m = _re.match(r"^blocks=\[([\d ]*)\] (\S+) requests=\[([\d\- ]*)\]$", o or "")
            if not m:
                hits.append(Hit("C20/syncer/bad-result", f"`{op}` -> {(o or '')[:160]}", detail=op))
                continue
            got = [int(x) for x in m.group(1).split()]
            if got != list(range(b, e + 1)):
                hits.append(Hit("C20/syncer/blocks-not-each-height-once-in-order", f"`{op}` handed on blocks {got[:40]} for the missing heights {b}..{e}", detail=op))
            elif m.group(2) != "end":
                hits.append(Hit("C20/syncer/no-end-marker", f"`{op}`: the stream of synchronised blocks is not terminated", detail=op))
            else:
                rs = [tuple(int(x) for x in p.split("-")) for p in m.group(3).split()]
                nxt = b
                for (rb, re_) in rs:
                    if rb != nxt or re_ < rb or re_ > e:
                        nxt = None
                        break
                    nxt = re_ + 1
                if nxt != e + 1:
                    hits.append(Hit("C20/syncer/requests-not-a-partition", f"`{op}`: the answered block requests {m.group(3)} do not cover {b}..{e} exactly once in ascending order", detail=op))
            continue
        if ws[0] != "ranges":
            continue
        b, e, f = int(ws[1]), int(ws[2]), int(ws[3])
        if f == 0:
            f = 5
        if b > e:
            if o != "err":
                hits.append(Hit("C20/ranges/no-error", f"calcRangeHeight({b},{e}) with begin>end did not fail: {o}"))
            continue
        if not (o.startswith("[") and o.endswith("]")):
            hits.append(Hit("C20/ranges/bad-result", f"calcRangeHeight({b},{e},{f}) -> {o}", detail=op))
            continue
        rs = [tuple(int(x) for x in p.split("-")) for p in o[1:-1].split()]
        nxt = b
        ok = True
        for (rb, re_) in rs:
            if rb != nxt or re_ < rb or re_ > e:
                ok = False
                break
            nxt = re_ + 1
        if not ok or nxt != e + 1:
            hits.append(Hit("C20/ranges/not-a-partition",
                            f"sync ranges for [{b},{e}] fetch {f} do not cover every height exactly once in ascending order: {o}",
                            detail=op))
    return hits


def tags_sync(h, obs):
    t = set()
    for op, o in zip(h.ops, obs):
        if op.startswith(("cft", "bft")):
            t.add("syncer:" + op.split()[0] + (":peer-fails" if len(op.split()) == 6 else "") + (":refused" if o == "err" else ""))
        elif o == "err":
            t.add("ranges:refused")
        elif o.count("-") == 1:
            t.add("ranges:single")
        elif o.count("-") > 1:
            t.add("ranges:multi")
    return t


def gen_pool_c20(rng, n, tier):
    from .. import gen_pool
    return gen_pool.gen(rng, n, tier)


def mon_pool_c20(h, obs):
    """"a transaction is included in at most one delivered block": what the ordering service proposes comes out of the pool's
    GenerateBlock; the same (account, nonce) handed out twice before it was committed ends up in two blocks"""
    from .. import gen_pool
    out = []
    for hit in gen_pool.mon_pool(h, obs, "C18"):
        if hit.fp.startswith("C18/batched-twice"):
            out.append(Hit("C20/transaction-in-two-batches", hit.desc, detail=hit.detail))
    return out


def tags_pool_c20(h, obs):
    from .. import gen_pool
    return gen_pool.tags_pool(h, obs)


def _register():
    register(PropSpec(
    "C20",
    engines=[EngineSpec("sync", gen_sync, mon_sync, tags_sync, quick_n=150, thorough_n=5000),
             EngineSpec("order", gen_order, mon_order, tags_order, quick_n=300, thorough_n=10000),
             EngineSpec("pool", gen_pool_c20, mon_pool_c20, tags_pool_c20, quick_n=150, thorough_n=5000)],
    facts=["readyHandler"],
    rule="sync engine: every (begin,end,fetch) triple below a small bound exhaustively plus random large triples. order engine: the real "
         "etcdraft.Node apply loop (entriesToApply/publishEntries/reportState/maybeTriggerSnapshot on real RaftStorage) fed with committed logs "
         "containing valid, stale-leader, future and empty entries in arbitrary chunks, interleaved with execution, in-order/out-of-order/missing "
         "reports, snapshots (snapCount 2/3/5/1000) and crash-restarts that rebuild the node from the same storage and re-deliver the log after the "
         "snapshot; pool engine (the source of every proposed batch): the traffic of C18, rule 'the same (account, nonce) is not handed out twice before it is "
         "committed' (a transaction in at most one delivered block); non-trivial = refused/single/multi range or minted/replayed blocks or a batch; distinct = distinct op list",
    ))


# ------------------------------------------------------------------------------------------ order engine

import re as _re


def gen_order(rng, n, tier):
    import random as _r
    # forced, not drawn (seeding round 25): the real Node — NewNode + Start, the goroutine of listenRaftMsg, a real raft instance —
    # as follower of a scripted leader that replicates one batch and commits it; the replica's log storage is slowed down (delay in
    # ms) and the peer manager records whether the acknowledgement of the batch's index left while the storage already held it
    hs = [History([f"livefollower delay={d}"], tags={"live-follower"}) for d in ((150, 250) if tier == "quick" else (100, 150, 250, 400))]
    for _ in range(n):
        r = _r.Random(rng.getrandbits(64))
        le = r.choice([0, 0, 3])
        sc = r.choice([2, 3, 5, 1000])
        ops = [f"raft new lastExec={le} snapcount={sc}"]
        tags = set()
        idx = 0
        nxt = le + 1          # next height a correct leader proposes
        executed = le
        minted_guess = le
        pending_reports = []
        term, voted = 1, 0
        for _ in range(r.randint(4, 25)):
            k = r.random()
            if r.random() < 0.12:
                # a Ready that carries neither entries nor a snapshot: the replica hears of a higher term and / or grants its vote
                # (to candidate 2 or 3, at most once per term), the commit index may move; quite often the process dies right after
                if voted and r.random() < 0.7:
                    term += r.choice([1, 1, 2])
                voted = r.choice([2, 3, 2, 0]) if not voted or True else voted
                ops.append(f"hs {term} {voted} {r.choice([idx, max(0, idx - 1)])}")
                tags.add("hard-state-only-ready")
                if r.random() < 0.5:
                    ops.append("restart")
                    tags.add("restart:after-vote")
                continue
            if k < 0.4:
                ents = []
                for _ in range(r.choice([1, 1, 2, 3, 5])):
                    idx += 1
                    x = r.random()
                    if x < 0.1:
                        ents.append(f"{idx}:e")
                    elif x < 0.2:
                        hh = max(1, nxt - r.choice([1, 2]))                       # batch of a deposed leader (stale height)
                        ents.append(f"{idx}:{hh}")
                        if hh == nxt:
                            nxt += 1                                              # (at the very start it is the next height after all)
                        tags.add("entry:stale-height")
                    elif x < 0.25:
                        ents.append(f"{idx}:{nxt + r.choice([1, 3])}")             # future height (never valid)
                        tags.add("entry:future-height")
                    else:
                        ents.append(f"{idx}:{nxt}")
                        nxt += 1
                ops.append("ready " + " ".join(ents))
                if r.random() < 0.6:
                    ops.append("snapshot")
            elif k < 0.65:
                ops.append("exec")
                pending_reports.append(None)   # resolved by the monitor from outputs
                if r.random() < 0.7:
                    ops.append("report-last")
            elif k < 0.75:
                ops.append("report-last")
            elif k < 0.8:
                ops.append(f"report-back {r.choice([1, 1, 2, 3])}")          # late / repeated report of an executed height
                tags.add("report:out-of-order")
            elif k < 0.86:
                ops.append("snapshot")
            elif k < 0.92:
                # the follower fell behind: raft hands over a snapshot taken by the leader at a later index / height
                idx += r.choice([1, 2, 5])
                nxt += r.choice([0, 1, 3])
                ops.append(f"install {idx} {nxt - 1}")
                tags.add("install-snapshot")
            else:
                ops.append("restart")
                tags.add("restart")
        # drain: execute everything that is deliverable, restart once more, drain again
        ops += ["drain", "restart", "drain", "state"]
        hs.append(History(ops, tags=tags))
    return hs


def _expand_reports(h, obs):
    return h


MINT = _re.compile(r"mint=\[([0-9 ]*)\]")


def mon_order(h, obs):
    """model-free: the committed log (from the ready ops) defines the chain; the executor must see heights
    ledger+1, ledger+2, ... once each, and at the end every block of the chain must have been executed"""
    hits = []
    log = []          # (idx, height or None)
    ledger = None
    start = None
    snap_ahead = False
    queued_at_snapshot = 0
    tv = None          # (term, vote) last handed to the storage by a hard-state-only Ready
    for op, o in zip(h.ops, obs):
        ws = op.split()
        if ws[0] == "livefollower":
            # "identical content on every replica ... across crash/restart of any replica at any point": a replica that tells the
            # leader it holds log index k before its storage does forgets an entry the leader may already have committed
            m = _re.search(r"acked=(\d+) early=(\d) delivered=(\d+)", o or "")
            if not m:
                hits.append(Hit("C20/live-follower-run-failed", f"the scripted follower run did not complete: {o}", detail=op))
            else:
                if m.group(2) == "1":
                    hits.append(Hit("C20/acknowledged-before-durable",
                                    "the replica acknowledged the batch's log index to the leader while its log storage did not hold that index yet: "
                                    "a crash right then loses an entry the leader counts as replicated (another batch can be committed at that height)", detail=op))
                if m.group(1) != "1" or m.group(3) != "2":
                    hits.append(Hit("C20/live-follower-did-not-deliver", f"the follower did not acknowledge / deliver the committed batch: {o}", detail=op))
            continue
        if ws[0] == "hs" and o == "ok":
            tv = (int(ws[1]), int(ws[2]))
        elif ws[0] == "restart" and tv is not None:
            # a replica votes at most once per term, also after a crash: what it stored is what it starts from
            m = _re.search(r"hs=(\d+)/(\d+)/(\d+)", o or "")
            if m and (int(m.group(1)), int(m.group(2))) != tv:
                hits.append(Hit("C20/restart-forgets-term-or-vote", f"the replica stored term {tv[0]} / vote {tv[1]} before it went down and starts from term {m.group(1)} / vote {m.group(2)}: it can vote a second time in that term (two leaders, different batches at one height)", op))
                tv = None
        if ws[0] == "raft":
            m = _re.search(r"lastExec=(\d+)", op)
            ledger = start = int(m.group(1))
        elif ws[0] == "ready":
            for s in ws[1:]:
                i, hh = s.split(":")
                log.append((int(i), None if hh == "e" else int(hh)))
        elif ws[0] == "install" and o.startswith("mint="):
            # the snapshot stands for committed entries the follower never saw: the chain now reaches the snapshot's height
            e0 = start
            for (_, hh) in log:
                if hh is not None and hh == e0 + 1:
                    e0 += 1
            for hh in range(e0 + 1, int(ws[2]) + 1):
                log.append((int(ws[1]), hh))
        elif ws[0] == "exec":
            if o.startswith("executed="):
                v = int(o.split("=")[1])
                if v != ledger + 1:
                    kind = "repeat" if v <= ledger else "gap"
                    hits.append(Hit(f"C20/delivery-not-contiguous/{kind}", f"executor received height {v} while the ledger is at {ledger}", op))
                ledger = v
        elif ws[0] == "drain":
            m = _re.match(r"drained=\[([0-9 ]*)\]", o)
            for v in ([int(x) for x in m.group(1).split()] if m else []):
                if v != ledger + 1:
                    kind = "repeat" if v <= ledger else "gap"
                    hits.append(Hit(f"C20/delivery-not-contiguous/{kind}", f"executor received height {v} while the ledger is at {ledger}", op))
                ledger = v
        elif ws[0] == "snapshot":
            m = _re.search(r"snap=(\d+)", o)
        elif ws[0] == "state" or ws[0] == "restart":
            m = _re.search(r"snap=(\d+).*queued=(\d+) ledger=(\d+)", o)
            if m and ws[0] == "restart":
                pass
    # expected chain from the log: the first entry with height = next after the previous one was delivered
    exp = start
    for (_, hh) in log:
        if hh is not None and hh == exp + 1:
            exp += 1
    if ledger is not None and ledger < exp:
        # which mechanism lost it?  a snapshot index beyond the index of the last executed block at some restart
        fp = "C20/unexecuted-entry-skipped"
        snap = 0
        for op, o in zip(h.ops, obs):
            m = _re.search(r"snap=(\d+)", o)
            if m:
                snap = max(snap, int(m.group(1)))
        idx_of = {}
        e2 = start
        for (i, hh) in log:
            if hh is not None and hh == e2 + 1:
                e2 += 1
                idx_of[hh] = i
        # ... evaluated at every restart: the ledger height the node restarted with vs the snapshot index it restarted from
        ahead = snap >= idx_of.get(ledger + 1, 10 ** 9)
        for op, o in zip(h.ops, obs):
            if op.split()[0] == "restart":
                m = _re.search(r"snap=(\d+).*ledger=(\d+)", o)
                if m and int(m.group(1)) >= idx_of.get(int(m.group(2)) + 1, 10 ** 9):
                    ahead = True
        if ahead:
            fp = "C20/unexecuted-entry-skipped/snapshot-ahead-of-execution"
        hits.append(Hit(fp, f"the committed log holds blocks up to height {exp} but after draining and a restart the ledger is at {ledger}"))
    return hits


def tags_order(h, obs):
    t = set()
    for op, o in zip(h.ops, obs):
        if op == "restart" and "mint=[]" not in o:
            t.add("restart:replay-minted")
        if op.startswith("ready") and "mint=[]" not in o:
            t.add("ready:minted")
    return t


_register()
