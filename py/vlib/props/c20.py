"""C20 — ordering delivers each height once, in order."""
from ..core import History
from ..runner import EngineSpec, PropSpec, Hit
from . import register

U64 = 2 ** 64


def gen_sync(rng, n, tier):
    hs = []
    # exhaustive small triples, packed into a few histories
    lim = 14 if tier == "quick" else 40
    ops = []
    for f in range(0, 8 if tier == "quick" else 12):
        for b in range(0, lim):
            for e in range(0, lim):
                ops.append(f"ranges {b} {e} {f}")
    for i in range(0, len(ops), 400):
        hs.append(History(ops[i:i + 400], tags={"ranges:small-exhaustive"}))
    # random large ones (kept away from 2^64 wrap-around: end + fetch < 2^64)
    for _ in range(n):
        ops = []
        for _ in range(20):
            f = rng.choice([1, 2, 3, 5, 7, 10, 100, rng.randrange(1, 10 ** 6)])
            b = rng.choice([0, 1, rng.randrange(0, 10 ** 4), rng.randrange(0, 2 ** 40), f * rng.randrange(0, 1000)])
            span = rng.choice([0, 1, f - 1, f, f + 1, 2 * f, rng.randrange(0, 40 * f + 1)])
            if rng.random() < 0.1:
                e = max(0, b - rng.randrange(1, 5))
            else:
                e = b + min(span, 3000)
            ops.append(f"ranges {b} {e} {f}")
        hs.append(History(ops, tags={"ranges:random"}))
    return hs


def mon_sync(h, obs):
    hits = []
    for op, o in zip(h.ops, obs):
        ws = op.split()
        if ws[0] != "ranges":
            continue
        b, e, f = int(ws[1]), int(ws[2]), int(ws[3])
        if f == 0:
            f = 5
        if b > e:
            if o != "err":
                hits.append(Hit("C20/ranges/no-error", f"calcRangeHeight({b},{e}) with begin>end did not fail: {o}"))
            continue
        if not (o.startswith("[") and o.endswith("]")):
            hits.append(Hit("C20/ranges/bad-result", f"calcRangeHeight({b},{e},{f}) -> {o}", detail=op))
            continue
        rs = [tuple(int(x) for x in p.split("-")) for p in o[1:-1].split()]
        nxt = b
        ok = True
        for (rb, re_) in rs:
            if rb != nxt or re_ < rb or re_ > e:
                ok = False
                break
            nxt = re_ + 1
        if not ok or nxt != e + 1:
            hits.append(Hit("C20/ranges/not-a-partition",
                            f"sync ranges for [{b},{e}] fetch {f} do not cover every height exactly once in ascending order: {o}",
                            detail=op))
    return hits


def tags_sync(h, obs):
    t = set()
    for op, o in zip(h.ops, obs):
        if o == "err":
            t.add("ranges:refused")
        elif o.count("-") == 1:
            t.add("ranges:single")
        elif o.count("-") > 1:
            t.add("ranges:multi")
    return t


register(PropSpec(
    "C20",
    engines=[EngineSpec("sync", gen_sync, mon_sync, tags_sync, quick_n=150, thorough_n=5000)],
    rule="sync engine: every (begin,end,fetch) triple below a small bound exhaustively plus random large triples; "
         "a history is non-trivial when it produced a refused, single-range or multi-range result; distinct = distinct op-shape+tag set",
))
