"""C14 — transfers and fees never create value."""
import random as _r
import re

from ..core import History
from ..runner import EngineSpec, PropSpec, Hit
from .. import gen_exec, gen_gov, mon_exec
from . import register


def gen_grants(rng, n, tier):
    """the documented exception: a newly approved governance / audit admin is granted the genesis balance — once.  Histories in which
    an audit administrator (bound to a non-validator node) and a governance administrator are registered (approved or rejected) and the
    audit administrator then goes through what its life cycle offers: its node logs out (which pauses it), it is bound to another node,
    frozen, activated, logged out; the balance of every such account is read after every governance step"""
    hs = []
    for _ in range(max(6, n // 12)):
        r = _r.Random(rng.getrandbits(64))
        g = gen_gov.LcGen(r)
        g.tags = {"c14-grants"}
        g.ops.append(f"world audit={r.choice([0, 1])} price=1")
        watch = []

        def bals():
            for a in watch:
                g.ops.append(f"q bal {a}")

        def decide(ballot=None):
            ref, kind, mod, obj = g.props[-1]
            g.vote_all(ref, mod, obj, ballot or r.choice(["approve", "approve", "reject"]))
            bals()
        adm = lambda: r.choice(gen_gov.ADMINS)
        n1, n2, aud, gov = "n6", "n5", "g3", "g1"
        watch += [aud, gov]
        g.fund(aud)
        g.fund(gov)
        bals()
        g.submit(adm(), f"node RegisterNode s:@{n1} s:nvpNode s:~ u:0 s:nvp-{n1} s:c1 s:reason", "node-register-nvp", "node", "@" + n1)
        decide("approve")
        g.submit(adm(), f"node RegisterNode s:@{n2} s:nvpNode s:~ u:0 s:nvp-{n2} s:c1 s:reason", "node-register-nvp", "node", "@" + n2)
        decide("approve")
        g.submit(adm(), f"role RegisterRole s:@{aud} s:auditAdmin s:@{n1} s:reason", "role-register-audit", "role", "@" + aud)
        decide(r.choice(["approve"] * 6 + ["reject"]))
        if r.random() < 0.5:
            g.submit(adm(), f"role RegisterRole s:@{gov} s:governanceAdmin s:~ s:reason", "role-register", "role", "@" + gov)
            decide()
        # the cycle the life cycle offers an audit admin: its node logs out (the admin is paused), it is bound to another node
        cur, spare = n1, n2
        for _cyc in range(r.choice([1, 1, 2])):
            g.submit(adm(), f"node LogoutNode s:@{cur} s:reason", "node-logout", "node", "@" + cur)
            decide("approve")
            g.ops.append(f"q obj role @{aud}")
            g.submit(adm(), f"role BindRole s:@{aud} s:@{spare} s:reason", "role-bind", "role", "@" + aud)
            decide(r.choice(["approve", "approve", "reject"]))
            g.ops.append(f"q obj role @{aud}")
            g.tags.add("grant-walk:rebind")
            cur, spare = spare, "n4"
            if _cyc == 0 and r.random() < 0.6:
                g.submit(adm(), f"node RegisterNode s:@n4 s:nvpNode s:~ u:0 s:nvp-n4 s:c1 s:reason", "node-register-nvp", "node", "@n4")
                decide("approve")
        for _ in range(r.randint(1, 4)):
            k = r.choice(["node-logout", "bind", "bind", "freeze", "activate", "logout", "node-register"])
            if k == "node-logout":
                g.submit(adm(), f"node LogoutNode s:@{r.choice([n1, n2])} s:reason", "node-logout", "node", "@" + n1)
            elif k == "bind":
                g.submit(adm(), f"role BindRole s:@{aud} s:@{r.choice([n1, n2])} s:reason", "role-bind", "role", "@" + aud)
            elif k == "freeze":
                g.submit(adm(), f"role FreezeRole s:@{aud} s:reason", "role-freeze", "role", "@" + aud)
            elif k == "activate":
                g.submit(adm(), f"role ActivateRole s:@{aud} s:reason", "role-activate", "role", "@" + aud)
            elif k == "logout":
                g.submit(adm(), f"role LogoutRole s:@{r.choice([aud, gov])} s:reason", "role-logout", "role", "@" + aud)
            else:
                n3 = "n4"
                g.submit(adm(), f"node RegisterNode s:@{n3} s:nvpNode s:~ u:0 s:nvp-{n3} s:c1 s:reason", "node-register-nvp", "node", "@" + n3)
                n2 = n3
            g.ops.append(f"q obj role @{aud}")
            decide()
            g.ops.append(f"q obj role @{aud}")
            g.tags.add("grant-walk:" + k)
        hs.append(History(g.ops, tags=g.tags))
    return hs


def mon_grants(h, obs):
    """the balance of an account that is (to become) an administrator changes only by what it pays in fees, by transfers to it — and once by
    the grant, in the block whose vote approves its REGISTRATION; every other increase is value out of nothing"""
    hits = []
    last = {}
    granted = set()
    pending_credit = {}      # account -> amount transferred to it since its last reading
    reg_of = {}              # proposal reference -> account it registers
    approving = None
    for op, o in zip(h.ops, obs):
        ws = op.split()
        if ws[0] == "block" and len(ws) > 1 and ws[1] == "xfer":
            try:
                pending_credit[ws[3]] = pending_credit.get(ws[3], 0) + int(ws[4])
            except ValueError:
                pass
        if ws[0] == "block" and "RegisterRole" in op:
            m = re.search(r"bvm (\S+) role RegisterRole s:@(\S+)", op)
            if m:
                reg_of["pending"] = m.group(2)
        if ws[0] == "q" and ws[1] == "prop" and "pending" in reg_of and len(ws) > 2:
            reg_of[ws[2]] = reg_of.pop("pending")
        if ws[0] == "block" and " gov Vote " in op and " s:approve " in op:
            m = re.search(r"gov Vote s:(\S+) s:approve", op)
            if m and m.group(1) in reg_of:
                approving = reg_of[m.group(1)]
        if ws[0] == "q" and ws[1] == "bal" and len(ws) == 3 and re.fullmatch(r"-?\d+", o or ""):
            a, v = ws[2], int(o)
            if a in last:
                gain = v - last[a] - pending_credit.get(a, 0)
                if gain > 0:
                    if approving == a and a not in granted:
                        granted.add(a)       # the documented grant, once
                    else:
                        hits.append(Hit("C14/value-created/grant-paid-again" if a in granted else "C14/value-created/grant-without-registration",
                                        f"the balance of {a} grew by {gain} without a transfer to it and without its registration being approved in between", detail=op))
                        break
            last[a] = v
            pending_credit[a] = 0
            if approving == a:
                approving = None
    return hits


def tags_grants(h, obs):
    return {t for t in h.tags if t.startswith("grant-walk")} | {"grants"}


register(PropSpec(
    "C14",
    engines=[EngineSpec("exec", gen_exec.gen_fees, mon_exec.mon_c14, mon_exec.tags_c14, quick_n=250, thorough_n=6000, mask=mon_exec.mask_unmodelled),
             EngineSpec("exec", gen_grants, mon_grants, tags_grants, quick_n=120, thorough_n=1500, mask=mon_exec.mask_unmodelled)],
    rule="exec engine: transfers with amounts 0/1/exact balance/balance+1/huge/non-numeric/negative, self-transfers, transfers to admin and "
         "contract addresses, gas prices that put the fee below/at/above the balance, mixed with failing IBTP/BVM txs; all balances observed after "
         "every block; the documented grant: histories that register audit / governance administrators and walk the audit administrator through its life cycle "
         "(node logout, re-binding, freeze, activation, logout), the balance read after every governance step (it grows once, when the registration is approved); "
         "non-trivial = a transfer outcome or fee-failure tag / a grant walk; distinct = distinct op list + tag set",
))
