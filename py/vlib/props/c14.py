"""C14 — transfers and fees never create value."""
from ..runner import EngineSpec, PropSpec
from .. import gen_exec, mon_exec
from . import register

register(PropSpec(
    "C14",
    engines=[EngineSpec("exec", gen_exec.gen_fees, mon_exec.mon_c14, mon_exec.tags_c14, quick_n=250, thorough_n=6000, mask=mon_exec.mask_unmodelled)],
    rule="exec engine: transfers with amounts 0/1/exact balance/balance+1/huge/non-numeric/negative, self-transfers, transfers to admin and "
         "contract addresses, gas prices that put the fee below/at/above the balance, mixed with failing IBTP/BVM txs; all balances observed after "
         "every block; non-trivial = a transfer outcome or fee-failure tag; distinct = distinct op list + tag set",
))
