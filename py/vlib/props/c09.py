"""C09 — the stored chain is hash-linked and every index agrees with the executed blocks."""
import re

from ..core import History
from ..runner import EngineSpec, PropSpec, Hit
from .. import gen_store, gen_exec, mon_exec
from . import register


def gen_reorg(rng, n, tier):
    """the executor's own rollback / re-execute path: consensus delivers another block for a height the node has already
    executed (1 to 3 below the head, or the head itself); the node rolls its ledger back and executes the new block in place;
    ordinary interchain traffic before, in the replacing blocks and after"""
    import random as _r
    hs = []
    for _ in range(n):
        r = _r.Random(rng.getrandbits(64))
        g = gen_exec.ExecGen(r, focus="single", audit=False, price=1, hub=False)
        for _ in range(r.randint(3, 6)):
            g.block()
            g.observe()
        for _ in range(r.randint(1, 3)):
            depth = r.choice([0, 0, 1, 1, 2, 3])
            h = max(7, g.height - depth)
            g.height = h - 1
            g.block()
            g.ops[-1] = f"reorg {h} " + g.ops[-1][len("block"):].strip()
            g.observe()
            g.tags.add(f"reorg-depth:{depth}")
            for _ in range(r.randint(0, 3)):
                g.block()
                g.observe()
        hs.append(History(g.ops, tags=g.tags | {"reorg"}))
    return hs


def mon_reorg(h, obs):
    """the hash link and the chain meta, read back from the store after every block (the harness compares the parent hash of
    block h with the hash of the stored block h-1, and the chain meta with block h)"""
    hits = []
    # the stored interchain meta of a block names transactions of THAT block: positions inside it, of interchain transactions
    # that were accepted
    for st in mon_exec.parse_trace(h, obs):
        if st[0] == "block" and st[1].ok:
            b = st[1]
            for dest, entries in b.counter.items():
                for e in entries:
                    i = e[0]
                    if i >= len(b.txs) or i >= len(b.rcs) or b.txs[i].kind != "ibtp" or not b.rcs[i].ok:
                        hits.append(Hit("C09/interchain-meta-lists-what-the-block-does-not-hold",
                                        f"block {b.h} has {len(b.txs)} transactions but its stored interchain meta lists position {i} for {dest}", detail=b.op))
                        break
                if hits:
                    break
        if hits:
            break
    for op, o in zip(h.ops, obs):
        if op.split()[0] in ("block", "reorg"):
            m = re.search(r" plink=(\S+)", o)
            if m and m.group(1) != "ok":
                kind = "reorg" if op.startswith("reorg") else "block"
                roots = [x for x in m.group(1).split("+") if x in ("txroot", "receiptroot")]
                if roots and m.group(1).split("+")[0] == "ok" and "meta" not in m.group(1):
                    hits.append(Hit(f"C09/stored-root-not-the-merkle-root/{kind}/{'+'.join(roots)}",
                                    f"after `{op[:60]}`: the {' and the '.join(roots)} of the stored header is not the Merkle root recomputed from the stored "
                                    f"{'transactions' if roots == ['txroot'] else 'transactions / receipts'}", detail=op))
                    break
                hits.append(Hit(f"C09/hash-link-broken/{kind}/{m.group(1)}", f"after `{op[:60]}`: the stored block's parent hash is not the hash of the stored block below it, or the chain meta does not name it ({m.group(1)})", detail=op))
                break
    return hits


def tags_reorg(h, obs):
    return {"block"}

register(PropSpec(
    "C09",
    engines=[EngineSpec("store", gen_store.gen, gen_store.mon_c09, gen_store.tags_store, quick_n=200, thorough_n=5000, canon=gen_store.canon_store),
             EngineSpec("exec", gen_reorg, mon_reorg, tags_reorg, quick_n=60, thorough_n=1500, mask=mon_exec.mask_unmodelled)],
    rule="store engine: real ledger.New / PersistBlockData / Rollback on LevelDB + blockfile; block sequences with empty blocks, up to 6 transactions, "
         "interchain-heavy metadata, rollbacks to head-1/-2/random/0/above head, reopen; after rollbacks and at the end every getter (GetBlock both modes, "
         "GetBlockByHash, GetBlockHash, GetTransaction, GetTransactionMeta, GetReceipt, GetTransactionCount, GetInterchainMeta, GetChainMeta) is queried for "
         "every known height, hash and transaction and compared with the executed chain; exec engine: the executor's own rollback path "
         "(consensus replaces a block 0-3 below the head: rollbackBlocks + re-execution), the hash link and the chain meta read back after every block; non-trivial = rollback/reopen/interchain tags; distinct = distinct op list",
))
