"""C09 — the stored chain is hash-linked and every index agrees with the executed blocks."""
from ..runner import EngineSpec, PropSpec
from .. import gen_store
from . import register

register(PropSpec(
    "C09",
    engines=[EngineSpec("store", gen_store.gen, gen_store.mon_c09, gen_store.tags_store, quick_n=200, thorough_n=5000, canon=gen_store.canon_store)],
    rule="store engine: real ledger.New / PersistBlockData / Rollback on LevelDB + blockfile; block sequences with empty blocks, up to 6 transactions, "
         "interchain-heavy metadata, rollbacks to head-1/-2/random/0/above head, reopen; after rollbacks and at the end every getter (GetBlock both modes, "
         "GetBlockByHash, GetBlockHash, GetTransaction, GetTransactionMeta, GetReceipt, GetTransactionCount, GetInterchainMeta, GetChainMeta) is queried for "
         "every known height, hash and transaction and compared with the executed chain; non-trivial = rollback/reopen/interchain tags; distinct = distinct op list",
))
