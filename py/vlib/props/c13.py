"""C13 — reads return the latest write through dirty set, cache, database and reopen."""
from ..runner import EngineSpec, PropSpec
from .. import gen_ledger
from . import register


def gen(rng, n, tier):
    return gen_ledger.gen(rng, n, tier, deep=False)


register(PropSpec(
    "C13",
    engines=[EngineSpec("ledger", gen, gen_ledger.mon_c13, gen_ledger.tags_ledger, quick_n=300, thorough_n=8000)],
    rule="ledger engine: 3 accounts x 6 keys (prefixes of each other, the empty key) x values incl. empty; transactions of reads/writes/deletes/"
         "un-journaled adds with nested snapshots and reverts, flush, reads between flush and commit (served by the cache), commit, explicit cache "
         "evictions, reopen, rollback; every getter and QueryByPrefix is compared with a plain-map reference; non-trivial = tags (snap/revert/evict/reopen/"
         "query/rollback); distinct = distinct op list + tag set",
))
