"""C06 — timeout rollback fires exactly at the timeout height and never otherwise."""
from ..runner import EngineSpec, PropSpec
from .. import gen_exec, mon_exec
from . import register


def gen(rng, n, tier):
    # one-to-one traffic, plus a share of one-to-many groups ("the same holds for a one-to-many group as a whole")
    k = n // 4
    return gen_exec.gen(rng, n - k, tier, focus="single", blocks=(8, 18)) + gen_exec.gen(rng, k, tier, focus="group", blocks=(8, 18))


def mon(h, obs):
    return mon_exec.mon_c06(h, obs) + mon_exec.mon_c06_groups(h, obs)


register(PropSpec(
    "C06",
    engines=[EngineSpec("exec", gen, mon, mon_exec.tags_c04, quick_n=250, thorough_n=6000, mask=mon_exec.mask_unmodelled,
                        hyp_alarm={"listedfinal=1": ("C06/final-record-listed-when-the-timeout-step-runs",
                                                     "the model (which agrees with the node on this history) reaches a block whose timeout step finds a SUCCESS / FAILURE / "
                                                     "ROLLBACK record on the list of that height: the hypothesis of C04_block_final_stays fails and the step overwrites the final status"),
                                   "globals=0": ("C06/timeout-walk-abandoned-for-a-group-without-record",
                                                 "the model (which agrees with the node on this history) reaches a block whose timeout list names a group that has no record: "
                                                 "the hypothesis GlobalsPresent of C06_block_fires_due fails, the walk of the timeout step is abandoned and the ids behind it do not time out"),
                                   "wf=0": ("C06/stored-timeout-list-ill-formed",
                                            "the model (which agrees with the node on this history) ends a block with a stored timeout list that holds the emptied-list marker next to "
                                            "ids: the well-formedness part of Due fails (getTimeoutList would read such a list as empty or drop entries)")})],
    rule="exec engine: requests with timeouts 0/1/2/3/4/10/huge/negative, receipts before/at/after H+T, several requests sharing a deadline, "
         "restarts; a quarter of the histories carry one-to-many groups (children begun in different blocks, begin-failed and failed groups, group deadlines): a group is listed as timed out only in its deadline block and only if it has neither failed nor finished; per block the TimeoutCounter and per id the status are compared with the protocol; non-trivial = a timeout fired or a status edge was seen",
))
