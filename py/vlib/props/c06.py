"""C06 — timeout rollback fires exactly at the timeout height and never otherwise."""
from ..runner import EngineSpec, PropSpec
from .. import gen_exec, mon_exec
from . import register


def gen(rng, n, tier):
    return gen_exec.gen(rng, n, tier, focus="single", blocks=(8, 18))


register(PropSpec(
    "C06",
    engines=[EngineSpec("exec", gen, mon_exec.mon_c06, mon_exec.tags_c04, quick_n=250, thorough_n=6000, mask=mon_exec.mask_unmodelled)],
    rule="exec engine: requests with timeouts 0/1/2/3/4/10/huge/negative, receipts before/at/after H+T, several requests sharing a deadline, "
         "restarts; per block the TimeoutCounter and per id the status are compared with the protocol; non-trivial = a timeout fired or a status edge was seen",
))
