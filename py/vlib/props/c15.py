"""C15 — proposals conclude only by their voting rule, once, with one vote per admin."""
from ..core import History
from ..runner import EngineSpec, PropSpec, Hit
from .. import gen_gov, mon_exec
from . import register


def gen_strat(rng, n, tier):
    """the voting rule itself: repo.MakeStrategyDecision / CheckStrategyExpression against the Lean decision function,
    exhaustive over small tallies for a family of expressions whose coefficients are exact in binary floating point"""
    exprs = ["a_>_0.5_*_t", "a_>=_0.5_*_t", "a_==_t", "a_>=_2", "a_>=_1", "a_>_0.5_*_t_&&_r_<_2", "a_-_r_>=_2", "a_>=_3_||_r_==_0_&&_a_>=_2",
             "a_>_0.5_*_t_+_1", "2_*_a_>_t", "a_>_t", "a_>=_0.5_*_t_+_0.5", "a_+_r_>=_t_&&_a_>_r", "a_!=_0", "r_<_1_&&_a_>=_0.5_*_t"]
    hs = []
    for e in exprs:
        ops = []
        for t in range(0, 7):
            ops.append(f"adm {e} {t}")
            for av in range(0, t + 2):
                for a in range(0, t + 1):
                    for r in range(0, t + 1 - a):
                        ops.append(f"dec {e} {a} {r} {t} {av}")
        hs.append(History(ops, tags={"strat", "expr:" + e}))
    return hs


def mon_strat(h, obs):
    hits = []
    for op, o in zip(h.ops, obs):
        ws = op.split()
        if ws[0] != "dec":
            continue
        a, r, t, av = (int(x) for x in ws[2:6])
        hold = gen_gov.expr_holds(ws[1], a, r, t)
        reach = gen_gov.expr_holds(ws[1], gen_gov.max_approve(av, r), r, t)
        if hold is None:
            continue
        want = "approved" if hold else ("open" if reach else "rejected")
        if o != want:
            hits.append(Hit("C15/decision-differs-from-rule", f"{op} -> {o}, the rule says {want}"))
    return hits


register(PropSpec(
    "C15",
    engines=[EngineSpec("exec", gen_gov.gen_c15, gen_gov.mon_c15, gen_gov.tags_c15, quick_n=160, thorough_n=4000, mask=mon_exec.mask_unmodelled),
             EngineSpec("strat", gen_strat, mon_strat, None, quick_n=1, thorough_n=1)],
    rule="exec engine: governance proposals of seven kinds (appchain register / freeze / activate / logout, governance-admin register / freeze, "
         "service register; special and ordinary) created through the real manager contracts, then votes by the four admins (one super admin), outsiders "
         "and admin candidates, repeated votes, garbage ballots, withdrawals by the sponsor and by others, audit on/off; after every step the proposal "
         "(GetProposal) and the governed object's status are read back; a monitor written from the property text checks tallies = ballots, one ballot per "
         "admin, refusals change nothing, conclusion only by the recorded expression / unreachability, special proposals wait for the super admin, "
         "finality; every vote step is validated against the Lean ballot state machine (same pre-state, voter, role answer, ballot -> same post-state "
         "or the same refusal code).  strat engine: MakeStrategyDecision / CheckStrategyExpression vs the Lean decision function, exhaustive for t <= 6 "
         "over 15 expressions; non-trivial = at least one vote / one decision",
))
