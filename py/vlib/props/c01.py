"""C01 — block execution is deterministic across replicas, runs and restarts."""
import random as _r

from ..core import History
from ..runner import EngineSpec, PropSpec, Hit
from .. import gen_exec, gen_dispatch, gen_gov, mon_exec
from . import register


def with_replicas(h, r, reps=3):
    """the same history on `reps` independent replicas with different local tuning (proof verification serial / parallel); replica 0 is stopped and reopened at random places, the others never are"""
    ops = []
    # every second history also runs one more replica through the executor's own goroutine pipeline (pre-execution stage,
    # execution stage), handed each block without waiting for the previous one
    pipe = r.random() < 0.5
    mixed = False
    for o in h.ops:
        if o.startswith("world"):
            o = o + f" replicas={reps} mix=1" + (" pipe=1" if pipe else "")
        if o == "restart":
            o = "restart 0"
        if o.startswith("block ") and " | " in o and r.random() < 0.25:
            # a block whose transactions did not come in through this node: every signature is verified in the pre-execution
            # stage (one goroutine per transaction); some are forged (signed by another key, bit-flipped)
            txs = o[len("block "):].split(" | ")
            if not any(t.startswith(("raw", "sig:", "hdr:", "again")) for t in txs) and sum(1 for t in txs if not t.startswith("eth")) >= 2:
                # (the harness signs Ethereum transactions itself: they stay local)
                o = "block " + " | ".join(t if t.startswith("eth") else f"sig:{r.choice(['ok', 'ok', 'other', 'bad'])} {t}" for t in txs)
                mixed = True
        ops.append(o)
        if o.startswith("block") and r.random() < 0.12:
            ops.append("restart 0")
    if pipe:
        ops.append("q height")        # waits for the pipelined replica and compares its last block
    return History(ops, tags=set(h.tags) | {"replicas"} | ({"pipelined-replica"} if pipe else set()) | ({"mixed-signatures-block"} if mixed else set()))


def gen_evaluations(g, k, tier):
    """services are rated by many accounts with fractional scores (the score a service carries is an average over all its ratings: float
    arithmetic over a record set kept in a Go map), in one block and over several, with ordinary traffic in between"""
    hs = []
    for _ in range(k):
        r = _r.Random(g.getrandbits(64))
        ops = [f"world audit={r.choice([0, 1])} price=1"]
        raters = ["u0", "u1", "u2", "u3", "ca1", "ca2", "ca3", "ca4", "adm1", "adm2"]
        r.shuffle(raters)
        svc = r.choice(["c1:s1", "c2:s1", "c3:s1"])
        scores = [r.choice(["0.1", "0.2", "0.3", "0.7", "1.1", "2.9", "3.3", "4.6", "4.99", "0.01"]) for _ in raters]
        txs = [f"bvm {a} service EvaluateService s:{svc} s:fine f:{sc}" for a, sc in zip(raters, scores)]
        cut = r.choice([len(txs), 4, 6])
        ops.append("block " + " | ".join(txs[:cut]))
        ops.append(f"q obj service {svc}")
        if cut < len(txs):
            ops.append("block ibtp ca1 c1:s1 c2:s1 1 req 0 - ok")
            ops.append("block " + " | ".join(txs[cut:]))
            ops.append(f"q obj service {svc}")
        ops.append("block")
        hs.append(History(ops, tags={"evaluations"}))
    return hs


def gen_replayed_tx(g, k, tier):
    """a block carries, byte for byte, a transaction an earlier block carried already (the executor does not look at the nonce of a
    BitXHub transaction), and what decides about it has changed in between: an IBTP of chain c3 is accepted while the accept-everything
    rule is c3's master rule, the master rule is changed back to the rejecting one, and the same IBTP transaction comes again — with a
    stop and restart of one replica somewhere in between.  Whatever a node remembers about a transaction it has seen must not show"""
    hs = []
    for _ in range(k):
        r = _r.Random(g.getrandbits(64))
        ref = gen_dispatch.PRELUDE_PROPOSALS["ca3"]
        ops = [f"world audit={r.choice([0, 1])} price=1"]
        ntx = 0

        def blk(*txs):
            nonlocal ntx
            ops.append("block " + " | ".join(txs))
            ntx += len(txs)

        def update(rule, k):
            blk(f"bvm ca3 rule UpdateMasterRule s:c3 s:{gen_dispatch.RULES[rule]} s:reason")
            for v in ("adm0", "adm1", "adm2"):
                blk(f"bvm {v} gov Vote s:@ca3-{ref + k} s:approve s:r")
            ops.append("q obj rule c3")
        update("happy", 0)
        if r.random() < 0.3:
            ops.append("restart 0")
        kT = ntx
        blk("ibtp ca3 c3:s1 c4:s1 1 req 0 - ok")
        if r.random() < 0.5:
            blk("xfer u0 u1 1")
        if r.random() < 0.4:
            ops.append("restart 0")
        update("simfabric", 1)
        if r.random() < 0.6:
            ops.append("restart 0")
        blk(f"again {kT}")
        blk(f"again {kT}", "ibtp ca3 c3:s1 c4:s1 2 req 0 - ok")
        ops.append("q status 1356:c3:s1-1356:c4:s1-1")
        ops.append("block")
        hs.append(History(ops, tags={"replayed-transaction"}))
    return hs


def gen_listing_after_delete(g, k, tier):
    """a contract lists the records under a prefix (`GetAllServiceIDs`: the stub's Query) after an earlier block DELETED one of them
    (`DeleteInterchain`) — with a stop and restart of one replica between the delete and the listing, or not: a replica that has run
    since the delete still holds the deleted key in its account cache (as an empty value), a reopened one does not; the listing, its
    receipt and everything hashed over it must not tell them apart"""
    hs = []
    for _ in range(k):
        r = _r.Random(g.getrandbits(64))
        ops = [f"world audit={r.choice([0, 1])} price=1"]
        victims = r.sample(["1356:c1:s2", "1356:c2:s2", "1356:c2:s3", "1356:c4:s1"], r.choice([1, 2]))
        if r.random() < 0.5:
            ops.append("block ibtp ca1 c1:s1 c2:s1 1 req 0 - ok")
        ops.append(f"block bvm {r.choice(['u0', 'u1', 'ca1'])} interchain GetAllServiceIDs")
        for v in victims:
            ops.append(f"block bvm {r.choice(['u0', 'u2', 'adm1'])} interchain DeleteInterchain s:{v}")
            if r.random() < 0.4:
                ops.append("restart 0")
        if r.random() < 0.5:
            ops.append("block xfer u0 u1 1")
        if r.random() < 0.6:
            ops.append("restart 0")
        ops.append(f"block bvm {r.choice(['u0', 'u1', 'ca2'])} interchain GetAllServiceIDs")
        ops.append("block ibtp ca1 c1:s1 c2:s1 2 req 0 - ok | bvm u3 interchain GetAllServiceIDs")
        ops.append("block")
        hs.append(History(ops, tags={"listing-after-delete"}))
    return hs


def gen(rng, n, tier):
    hs = []
    kinds = [("mixed", lambda g, k: gen_exec.gen(g, k, tier, focus="mixed")),
             ("group", lambda g, k: gen_exec.gen(g, k, tier, focus="group")),
             ("c07", lambda g, k: gen_exec.gen_c07(g, k, tier)),
             ("c03", lambda g, k: gen_dispatch.gen_c03(g, k, tier)),
             ("c17", lambda g, k: gen_dispatch.gen_c17(g, k, tier)),
             ("c08", lambda g, k: gen_dispatch.gen_c08(g, k, tier)),
             ("c16", lambda g, k: gen_gov.gen_c16(g, k, tier)),
             ("replay", lambda g, k: gen_replayed_tx(g, max(4, k // 4), tier)),
             ("eval", lambda g, k: gen_evaluations(g, max(3, k // 5), tier)),
             ("listing", lambda g, k: gen_listing_after_delete(g, max(4, k // 4), tier))]
    per = max(1, n // len(kinds))
    for name, f in kinds:
        g = _r.Random(rng.getrandbits(64))
        for h in f(g, per):
            h2 = with_replicas(h, g)
            h2.tags.add("kind:" + name)
            hs.append(h2)
    return hs


def mon(h, obs):
    hits = []
    for i, (op, o) in enumerate(zip(h.ops, obs)):
        if "REPLICA-DIVERGED" in o:
            first, _, rest = o.partition(" REPLICA-DIVERGED")
            a = dict(x.split("=", 1) for x in first.split(" ## ")[-1].split() if "=" in x)
            b = dict(x.split("=", 1) for x in rest.split(" ## ")[-1].split() if "=" in x)
            diff = sorted(k for k in set(a) | set(b) if a.get(k) != b.get(k))
            head_differs = first.split(" ## ")[0] != rest.split("] ", 1)[-1].split(" ## ")[0]
            what = ",".join(diff[:4]) or ("receipts/metadata" if head_differs else "?")
            kind = "group" if "ibtp" in op and re_group(op) else "other"
            hits.append(Hit(f"C01/replicas-diverged/{kind}/{what}", f"op {i}: replicas computed different results ({what})", detail=op[:400]))
            break
    return hits


def re_group(op):
    import re
    return re.search(r"ibtp \S+ \S+ \S+ \d+ \S+ -?\d+ [^- ]\S*", op) is not None


def tags(h, obs):
    t = set()
    for op, o in zip(h.ops, obs):
        if op.startswith("restart"):
            t.add("restart")
        if op.startswith("block") and o.startswith("h="):
            t.add("block")
    return t


register(PropSpec(
    "C01",
    facts=["mapRanges"],
    engines=[EngineSpec("exec", gen, mon, tags, quick_n=180, thorough_n=3000, mask=mon_exec.mask_unmodelled, timeout=1800)],
    rule="exec engine, 3 replicas of one network with different local tuning (proof verification serial/parallel), the same "
         "ordered blocks on each; replica 0 is stopped and reopened at random places; in every second history one more replica runs the executor's own "
         "goroutine pipeline (Start / ExecuteBlock: pre-execution stage and execution stage overlap, two blocks in flight) and is compared one block later; traffic of every generator of the framework (mixed interchain, "
         "one-to-many groups, fee-starved failures, proof kinds, governance of appchains / services / rules / roles with the cascades onto a chain's services, every contract method by every role, malformed transactions); every block line "
         "(receipts, delivery / timeout / multi-tx metadata, block hash, state / tx / receipt / timeout roots) must be equal on all replicas and equal "
         "to the Lean model where the model covers it; non-trivial = at least one block on >= 2 replicas",
))
