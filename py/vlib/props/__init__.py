"""Registry of property specs."""
import importlib
import os

REGISTRY = {}


def register(spec):
    REGISTRY[spec.pid] = spec


def load_all():
    d = os.path.dirname(__file__)
    for f in sorted(os.listdir(d)):
        if f.startswith("c") and f.endswith(".py"):
            importlib.import_module("vlib.props." + f[:-3])
    return REGISTRY
