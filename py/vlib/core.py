"""Core of the ./check driver: builds, engine runs, diffing, shrinking, evidence."""
import hashlib
import json
import os
import random
import re
import shutil
import subprocess
import sys
import tempfile
import time
from concurrent.futures import ThreadPoolExecutor

VERIF = os.path.dirname(os.path.dirname(os.path.dirname(os.path.abspath(__file__))))
REPO = os.environ.get("VERIF_REPO", "/repo")
LEAN = os.path.join(VERIF, "lean")
CACHE = os.path.join(VERIF, ".cache")
HARNESS_SRC = os.path.join(VERIF, "go", "harness")
BXHDRIVE = os.path.join(CACHE, "bxhdrive")
BXHMODEL = os.path.join(LEAN, ".lake", "build", "bin", "bxhmodel")
NCPU = min(16, os.cpu_count() or 4)

ALLOWED_AXIOMS = {"propext", "Classical.choice", "Quot.sound"}
FORBIDDEN_RE = re.compile(r"\bsorry\b|\badmit\b|^\s*axiom\s|native_decide|bv_decide|implemented_by|\bunsafe\s|maxHeartbeats\s+0")

GOENV = dict(os.environ, GOFLAGS="-mod=mod", GOPROXY="off", GOSUMDB="off", GOTOOLCHAIN="local",
             CGO_ENABLED=os.environ.get("CGO_ENABLED", "1"))


def log(*a):
    print(*a, file=sys.stderr, flush=True)


def sh(cmd, cwd=None, env=None, timeout=None, input=None):
    p = subprocess.run(cmd, cwd=cwd, env=env, timeout=timeout, input=input,
                       stdout=subprocess.PIPE, stderr=subprocess.STDOUT, text=True)
    return p.returncode, p.stdout


# ----------------------------------------------------------------------------- Lean

def lean_strip_comments(src):
    src = re.sub(r"/-.*?-/", "", src, flags=re.S)
    src = re.sub(r"--[^\n]*", "", src)
    return src


def lean_forbidden_scan():
    hits = []
    for root, _, files in os.walk(os.path.join(LEAN, "Bxh")):
        for f in files:
            if f.endswith(".lean"):
                p = os.path.join(root, f)
                body = lean_strip_comments(open(p).read())
                for i, line in enumerate(body.split("\n")):
                    if FORBIDDEN_RE.search(line):
                        hits.append(f"{os.path.relpath(p, LEAN)}: {line.strip()[:100]}")
    return hits


def props_modules(pid):
    """Lean modules that hold the property theorems of <pid>: Props/<pid>.lean and, when it exists, Props/<pid>b.lean (theorems of the
    same namespace that need results of a property file further down the import order)."""
    mods = [f"Bxh.Props.{pid}"]
    if os.path.exists(os.path.join(LEAN, "Bxh", "Props", f"{pid}b.lean")):
        mods.append(f"Bxh.Props.{pid}b")
    return mods


def props_theorems(pid):
    """Names of the theorems stated in Props/<pid>.lean (and Props/<pid>b.lean): the property's obligations."""
    names = []
    for m in props_modules(pid):
        p = os.path.join(LEAN, *m.split(".")) + ".lean"
        src = lean_strip_comments(open(p).read())
        names += re.findall(r"^\s*theorem\s+([A-Za-z0-9_'.]+)", src, flags=re.M)
    return names


_lake_lock_done = {}


def lake_build(targets, timeout=3000):
    key = tuple(targets)
    if key in _lake_lock_done:
        return _lake_lock_done[key]
    t0 = time.time()
    rc, out = sh(["lake", "build"] + list(targets), cwd=LEAN, timeout=timeout)
    log(f"[lean] lake build {' '.join(targets)} rc={rc} {time.time()-t0:.1f}s")
    _lake_lock_done[key] = (rc, out)
    return rc, out


def lean_errors(out):
    errs = []
    for line in out.split("\n"):
        if line.startswith("error:") or ": error" in line:
            errs.append(line.strip()[:300])
    return errs


def audit_axioms(pid, theorems):
    """#print axioms for every theorem of the property; returns {thm: [axioms]} and raw output."""
    d = os.path.join(LEAN, "Bxh", "Audit")
    os.makedirs(d, exist_ok=True)
    p = os.path.join(d, f"{pid}.lean")
    body = "".join(f"import {m}\n" for m in props_modules(pid)) + "".join(f"#print axioms Bxh.Props.{pid}.{t}\n" for t in theorems)
    with open(p, "w") as f:
        f.write(body)
    rc, out = sh(["lake", "env", "lean", p], cwd=LEAN, timeout=1200)
    res = {}
    flat = re.sub(r"\s+", " ", out)
    for t in theorems:
        full = f"Bxh.Props.{pid}.{t}"
        m = re.search(r"'" + re.escape(full) + r"' depends on axioms: \[([^\]]*)\]", flat)
        if m:
            res[t] = [a.strip() for a in m.group(1).split(",") if a.strip()]
        elif re.search(r"'" + re.escape(full) + r"' does not depend on any axioms", flat):
            res[t] = []
        else:
            res[t] = None
    return rc, res, out


# ----------------------------------------------------------------------------- Go harness

def overlay_path():
    return os.path.join(CACHE, "overlay.json")


def write_overlay():
    os.makedirs(CACHE, exist_ok=True)
    rep = {}
    maind = os.path.join(HARNESS_SRC, "main")
    for f in sorted(os.listdir(maind)):
        if f.endswith(".go"):
            rep[os.path.join(REPO, "internal", "verifharness", f)] = os.path.join(maind, f)
    shims = os.path.join(HARNESS_SRC, "shims")
    for root, _, files in os.walk(shims):
        for f in files:
            if f.endswith(".go"):
                rel = os.path.relpath(root, shims)
                rep[os.path.join(REPO, rel, f)] = os.path.join(root, f)
    with open(overlay_path(), "w") as fh:
        json.dump({"Replace": rep}, fh, indent=1)


_harness_built = {}


def build_harness():
    if "rc" in _harness_built:
        return _harness_built["rc"], _harness_built["out"]
    write_overlay()
    t0 = time.time()
    if os.path.exists(BXHDRIVE):
        os.remove(BXHDRIVE)
    rc, out = sh(["go", "build", "-overlay", overlay_path(), "-tags", "verif", "-ldflags=-checklinkname=0",
                  "-o", BXHDRIVE, "./internal/verifharness"], cwd=REPO, env=GOENV, timeout=3000)
    log(f"[go] harness build rc={rc} {time.time()-t0:.1f}s")
    _harness_built["rc"], _harness_built["out"] = rc, out
    return rc, out


BXHDRIVE_RACE = os.path.join(CACHE, "bxhdrive-race")


def build_harness_race():
    """the same harness built with Go's race detector (for the searches that look at what goroutines share)"""
    if "rrc" in _harness_built:
        return _harness_built["rrc"], _harness_built["rout"]
    write_overlay()
    t0 = time.time()
    if os.path.exists(BXHDRIVE_RACE):
        os.remove(BXHDRIVE_RACE)
    rc, out = sh(["go", "build", "-race", "-overlay", overlay_path(), "-tags", "verif", "-ldflags=-checklinkname=0",
                  "-o", BXHDRIVE_RACE, "./internal/verifharness"], cwd=REPO, env=GOENV, timeout=3000)
    log(f"[go] race harness build rc={rc} {time.time()-t0:.1f}s")
    _harness_built["rrc"], _harness_built["rout"] = rc, out
    return rc, out


def build_model():
    return lake_build(["bxhmodel"])


# ----------------------------------------------------------------------------- running engines

class History:
    """One self-contained op sequence for an engine; `tags` are generator-side branch tags."""
    def __init__(self, ops, tags=None, name=None):
        self.ops = list(ops)
        self.tags = set(tags or [])
        self.name = name


STALL = float(os.environ.get("VERIF_STALL", "45"))


def _run_proc(cmd, lines, timeout, env=None, cwd=None, stall=None):
    """Feeds lines, returns output lines (may be shorter when the process died) and rc.
    The process is killed when it runs longer than `timeout` in all, or when it has printed nothing for `stall` seconds while
    input is still unanswered (every engine answers one line per op and flushes: a silent process is a hung one — a deadlock
    in the code under test must cost one stall period, not the whole timeout of every chunk that meets it)."""
    # every engine process gets a scratch directory of its own, removed when the process has ended — also when it died
    # (a crashing harness cannot clean up after itself) or was killed for a timeout
    base = (env or os.environ).get("VERIF_SCRATCH") or tempfile.gettempdir()
    scratch = tempfile.mkdtemp(prefix="bxhverif-run-", dir=base)
    env = dict(env or os.environ, VERIF_SCRATCH=scratch)
    stall = STALL if stall is None else stall
    import threading
    try:
        p = subprocess.Popen(cmd, stdin=subprocess.PIPE, stdout=subprocess.PIPE, stderr=subprocess.PIPE, text=True, env=env, cwd=cwd)
        out_chunks, err_chunks = [], []
        last = [time.time()]

        def feed():
            try:
                p.stdin.write("\n".join(lines) + "\n")
                p.stdin.close()
            except Exception:
                pass

        def rd_out():
            for ln in p.stdout:
                out_chunks.append(ln)
                last[0] = time.time()

        def rd_err():
            for ln in p.stderr:
                err_chunks.append(ln)
                if len(err_chunks) > 400:
                    del err_chunks[:200]

        ths = [threading.Thread(target=f, daemon=True) for f in (feed, rd_out, rd_err)]
        for t in ths:
            t.start()
        t0 = time.time()
        why = None
        while True:
            try:
                p.wait(timeout=0.5)
                break
            except subprocess.TimeoutExpired:
                now = time.time()
                if now - t0 > timeout:
                    why = "TIMEOUT"
                elif now - last[0] > stall:
                    why = f"TIMEOUT (no output for {int(stall)} s: hung)"
                if why:
                    p.kill()
                    p.wait()
                    break
        for t in ths[1:]:
            t.join(timeout=5)
        out = "".join(out_chunks)
        outl = out.split("\n")[:-1] if out.endswith("\n") else out.split("\n")
        if why:
            return (out.split("\n")[:-1]), -9, why
        return outl, p.returncode, "".join(err_chunks)[-2000:]
    finally:
        shutil.rmtree(scratch, ignore_errors=True)


def run_side(cmd, histories, timeout=600, env=None, stall=None):
    """Runs each history through `cmd` (one process per chunk, `reset` between histories).
    Returns list of output-line lists, one per history; a history whose process died gets the
    lines produced so far followed by 'DIED <rc>'."""
    n = len(histories)
    results = [None] * n
    if n == 0:
        return results
    nchunks = min(NCPU, n)
    chunks = [list(range(i, n, nchunks)) for i in range(nchunks)]

    def work(idxs):
        pending = list(idxs)
        while pending:
            lines = []
            spans = []
            for i in pending:
                lines.append("reset")
                start = len(lines)
                lines.extend(histories[i].ops)
                spans.append((i, start, len(lines)))
            out, rc, err = _run_proc(cmd, lines, timeout, env=env, stall=(stall if cmd and cmd[0] == BXHDRIVE else 10 ** 9))
            nxt = []
            for (i, a, b) in spans:
                if len(out) >= b:
                    results[i] = out[a:b]
                elif len(out) >= a:
                    # died inside this history
                    results[i] = out[a:] + [f"DIED rc={rc} {err.strip().splitlines()[-1][:200] if err.strip() else ''}"]
                    # re-run the histories after it
                    nxt = [j for (j, a2, _) in spans if a2 > a]
                    break
                else:
                    results[i] = [f"DIED rc={rc}"]
                    nxt = [j for (j, a2, _) in spans if a2 > a]
                    break
            pending = nxt

    with ThreadPoolExecutor(max_workers=nchunks) as ex:
        list(ex.map(work, chunks))
    return results


def impl_cmd(engine):
    return [BXHDRIVE, engine]


def model_cmd(engine):
    return [BXHMODEL, engine]


def compared(lines):
    """The part of each implementation observation that is compared with the model
    (everything after ' ## ' is implementation-only information for the monitors)."""
    return [x.split(" ## ")[0] for x in lines]


def first_diff(a, b):
    for i in range(max(len(a), len(b))):
        x = a[i] if i < len(a) else "<missing>"
        y = b[i] if i < len(b) else "<missing>"
        if x != y:
            return i, x, y
    return None


def shrink(engine, hist, still_fails, budget=150):
    """Delta debugging on the op list; `still_fails(ops)` re-runs both sides.
    A leading `world`/`new`/`open` op (engine set-up) is never removed."""
    head = []
    ops = list(hist.ops)
    if ops and ops[0].split(" ")[0] in ("world", "new", "open"):
        head, ops = ops[:1], ops[1:]
        inner = still_fails
        still_fails = lambda cand: inner(head + cand)  # noqa: E731
    ops = _shrink(ops, still_fails, budget)
    return head + ops


def _shrink(ops, still_fails, budget, wall=None):
    n = 2
    calls = 0
    wall = float(os.environ.get("VERIF_SHRINK_WALL", "240")) if wall is None else wall
    t0 = time.time()
    while len(ops) >= 2 and calls < budget and time.time() - t0 < wall:
        chunk = max(1, len(ops) // n)
        reduced = False
        for i in range(0, len(ops), chunk):
            cand = ops[:i] + ops[i + chunk:]
            if not cand:
                continue
            calls += 1
            if still_fails(cand):
                ops = cand
                n = max(n - 1, 2)
                reduced = True
                break
            if calls >= budget or time.time() - t0 >= wall:
                break
        if not reduced:
            if chunk == 1:
                break
            n = min(len(ops), n * 2)
    return ops


# ----------------------------------------------------------------------------- evidence / replay

def write_json(path, obj):
    os.makedirs(os.path.dirname(path), exist_ok=True)
    tmp = path + ".tmp"
    with open(tmp, "w") as f:
        json.dump(obj, f, indent=1, sort_keys=False)
    os.replace(tmp, path)


def load_known_findings():
    p = os.path.join(VERIF, "known_findings.json")
    if not os.path.exists(p):
        return []
    return json.load(open(p)).get("findings", [])


def shape_of(ops):
    """Identity of a history for distinctness counting (hash of its full op list)."""
    return hashlib.sha1("\n".join(ops).encode()).hexdigest()[:12]
