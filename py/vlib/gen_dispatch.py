import re
"""C17 / C08: every exported method of every registered built-in contract, invoked directly by external accounts of every
role with well-typed arguments (C17) or with ill-typed / truncated / extreme argument vectors (C08), audit on and off.

The method table is regenerated from /repo on every run (go/extract: item `contractMethods`); the policy below is the
hand-written reading of the property text ("entry points that exist only for contract-to-contract use ...")."""
import json
import os

from . import core
from .core import History
from .runner import Hit
from . import mon_exec

SHORT = {"InterchainManager": "interchain", "Store": "store", "RuleManager": "rule", "RoleManager": "role",
         "AppchainManager": "appchain", "TransactionManager": "txmgr", "Governance": "gov", "NodeManager": "node",
         "InterBroker": "broker", "ServiceManager": "service", "DappManager": "dapp", "GovStrategy": "strategy",
         "ServiceRegistry": "registry", "ServiceResolver": "resolver"}

# Entry points that exist only for contract-to-contract use (property text, first sentence).
INTERNAL = {
    "txmgr": {"Begin", "BeginMultiTXs", "BeginInterBitXHub", "Report"},
    "gov": {"SubmitProposal", "LockLowPriorityProposal", "UnLockLowPriorityProposal", "EndObjProposal", "UpdateAvailableElectorateNum", "ZeroPermission"},
    "appchain": {"Manage", "PauseAppchain", "UnPauseAppchain"},
    "service": {"Manage", "PauseChainService", "UnPauseChainService", "ClearChainService", "RecordInvokeService"},
    "rule": {"Manage", "ClearRule", "RegisterRuleFirst"},
    "role": {"Manage", "UpdateAppchainAdmin", "FreeAccount", "OccupyAccount", "PauseAuditAdmin", "PauseAuditAdminBinding", "RestoreAuditAdminBinding"},
    "node": {"Manage", "ManageBindNode", "BindNode", "UnbindNode"},
    "dapp": {"Manage"},
    "strategy": {"Manage", "UpdateProposalStrategyByRolesChange"},
    "interchain": {"HandleIBTP", "HandleIBTPData", "DeleteInterchain", "Register"},
}
# the embedded Stub's toolbox: never part of the callable surface
STUB = {"Caller", "Callee", "CurrentCaller", "Logger", "GetTxHash", "GetTxTimeStamp", "GetTxIndex", "GetCurrentHeight", "Has", "Get", "Delete",
        "GetObject", "Set", "Add", "SetObject", "AddObject", "Query", "PostEvent", "PostInterchainEvent", "Validator", "CrossInvoke",
        "CrossInvokeEVM", "GetAccount", "EnableAudit", "GetIBTPByID"}

# operations that are open to every account by design and legitimately update an existing object (a rating)
OPEN_WRITERS = {("service", "EvaluateService"), ("dapp", "EvaluateDapp")}

CALLERS = {"outsider": ["u0", "u1"], "other-chain-admin": ["ca2"], "gov-admin": ["adm1", "adm2"], "super-admin": ["adm0"]}

STR_POOL = ["c1", "c2", "c3", "c9", "c1:s1", "c2:s1", "c1:s2", "1356:c1:s1", "1356:c2:s1", "1356:c1:s1-1356:c2:s1-1",
            "@ca1", "@ca2", "@u0", "@adm1", "@adm0", "@interchain", "@service", "@appchain", "@gov",
            "@ca1-0", "@ca2-1", "0x00000000000000000000000000000000000000a2", "0x00000000000000000000000000000000000000a0",
            "reason", "~", "approve", "reject", "register", "update", "freeze", "activate", "logout", "pause", "unpause",
            "appchainAdmin", "governanceAdmin", "auditAdmin", "appchain_mgr", "service_mgr", "rule_mgr", "role_mgr", "node_mgr", "dapp_mgr", "proposal_strategy_mgr",
            "available", "SimpleMajority", "ZeroPermission", "a\\_==\\_t", "n1", "vpNode", "nvpNode", "Fabric_V1.4.3", "CallContract", "name"]


def load_methods():
    """[(short contract, method, [param types], declared, out)] from the facts regenerated on this run (baseline as fall-back)"""
    for p in (os.path.join(core.CACHE, "facts.json"), os.path.join(core.VERIF, "facts.baseline.json")):
        if os.path.exists(p):
            items = json.load(open(p)).get("items", {})
            if "contractMethods" in items:
                out = []
                for tn, ms in sorted(items["contractMethods"].items()):
                    if tn not in SHORT:
                        continue
                    for m in ms:
                        out.append((SHORT[tn], m["name"], m["in"], m.get("declared", False), m.get("out", [])))
                return out
    return []


def typed_arg(r, t, obj=None):
    if t == "string":
        if obj is not None and r.random() < 0.5:
            return "s:" + obj
        return "s:" + r.choice(STR_POOL)
    if t in ("uint64", "uint32"):
        return "u:" + str(r.choice([0, 1, 2, 3, 7, 100, 2 ** 63, 2 ** 64 - 1]))
    if t == "int32":
        return "i:" + str(r.choice([0, 1, 2, 3, -1, 2 ** 31 - 1]))
    if t == "bool":
        return "b:" + r.choice("01")
    if t == "float64":
        return "f:" + r.choice(["0", "1.5", "4.99", "5", "-1", "1e308"])
    if t == "[]byte":
        k = r.random()
        if k < 0.3:
            # (ibtpc: the IBTP carries a Content payload with a function name and arguments, as a pier's would)
            return "%s:c1:s1,c2:s1,%d,%s,0" % (r.choice(["ibtp", "ibtp", "ibtpc"]), r.choice([1, 2]), r.choice(["req", "ok", "fail"]))
        if k < 0.6:
            return "addrs:" + ",".join(r.sample(["u0", "u1", "ca1", "ca2", "adm1", "interchain", "service", "appchain", "gov"], r.choice([0, 1, 2])))
        return "x:" + r.choice(["", "00", "7b7d", "5b5d", "ff" * 40])
    return None


def warmup(r):
    """traffic that creates interchain counters, tx records and a timeout entry, so that resets/deletes are visible"""
    return ["block ibtp ca1 c1:s1 c2:s1 1 req 0 - ok | ibtp ca2 c2:s1 c1:s1 1 req 1000 - ok",
            "block ibtp ca2 c1:s1 c2:s1 1 ok 0 - ok"]


def load_reserved():
    """[(short contract, method, [param types], 1-based position of the chain parameter)]: methods whose only permission is
    PermissionSelf over a chain id they take as a parameter (facts regenerated on this run): reserved to that chain's own admin"""
    for p in (os.path.join(core.CACHE, "facts.json"), os.path.join(core.VERIF, "facts.baseline.json")):
        if os.path.exists(p):
            items = json.load(open(p)).get("items", {})
            if "contractMethods" in items:
                out = []
                for tn, ms in sorted(items["contractMethods"].items()):
                    if tn not in SHORT:
                        continue
                    for m in ms:
                        for g in m.get("guards", []):
                            if g.get("kind") == "perm" and g.get("perms") == ["PermissionSelf"] and g.get("selfArg"):
                                out.append((SHORT[tn], m["name"], m["in"], g["selfArg"]))
                return out
    return []


CHAIN_ADMIN = {"c1": "ca1", "c2": "ca2", "c3": "ca3", "c4": "ca4"}


def reserved_probe(r, ops, tags, T=None, callers=None):
    """an operation reserved to a chain's own admin, about chain T, called with the same arguments by an outsider, by the admin
    of another chain, by a governance admin and finally by T's own admin; each call bracketed by dumps"""
    res = load_reserved()
    if not res:
        return
    c, m, ins, pos = r.choice(res)
    if T is None:
        T = r.choice(["c1", "c2", "c2", "c4", "c4", "c3"])
    args = []
    for i, t in enumerate(ins):
        if i == pos - 1:
            args.append("s:" + T)
        elif (c, m) == ("service", "RegisterService"):
            args.append(["", "s:s%d" % r.randint(5, 9), "s:svc-%s-%d" % (T, r.randint(0, 99)), "s:CallContract", "s:intro", "u:1", "s:~", "s:details", "s:reason"][i])
        elif (c, m) in (("rule", "UpdateMasterRule"), ("rule", "RegisterRule"), ("rule", "LogoutRule")) and i == 1:
            args.append("s:" + r.choice(["0x00000000000000000000000000000000000000a2", "0x00000000000000000000000000000000000000a1", "0x00000000000000000000000000000000000000a0"]))
        else:
            a = typed_arg(r, t)
            if a is None:
                return
            args.append(a)
    others = [a for ch, a in CHAIN_ADMIN.items() if ch != T]
    if callers is None:
        callers = ["u0", r.choice(others), r.choice(others), "adm1", CHAIN_ADMIN[T]]
    for who in callers:
        ops.append("q dump")
        ops.append(f"block bvm {who} {c} {m} " + " ".join(args))
        ops.append("q dump")
    tags.add(f"reserved:{c}.{m}:{T}")


HAPPY_RULE = "0x00000000000000000000000000000000000000a2"


def rejected_applicant_probe(r, ops, tags):
    """ownership that changes hands: an appchain id is applied for by one account and the application is rejected (or
    withdrawn), then another account applies for the same id and is approved; operations reserved to that chain's own admin
    are then called by an outsider, by the rejected applicant, by another chain's admin and by the owner"""
    T = "c%d" % r.randint(5, 7)
    first, second = r.sample(["ca5", "ca6", "ca7"], 2)
    for who in (first, second):
        ops.append(f"block xfer adm0 {who} 100000000000")

    def apply(who, suffix):
        return (f"block bvm {who} appchain RegisterAppchain s:{T} s:name-{T}-{suffix} x: s:ETH x: s:0xbroker s:desc s:{HAPPY_RULE} s:url s:@{who} s:reason")
    ops.append(apply(first, "a"))
    ops.append(f"q prop @{first}-0")
    if r.random() < 0.25:
        ops.append(f"block bvm {first} gov WithdrawProposal s:@{first}-0 s:reason")
    else:
        for v in ("adm0", "adm1", "adm2"):
            ops.append(f"block bvm {v} gov Vote s:@{first}-0 s:reject s:r")
    ops.append(f"q prop @{first}-0")
    ops.append(f"q obj appchain {T}")
    ops.append(apply(second, "b"))
    ops.append(f"q prop @{second}-0")
    for v in ("adm0", "adm1", "adm2"):
        ops.append(f"block bvm {v} gov Vote s:@{second}-0 s:approve s:r")
    ops.append(f"q prop @{second}-0")
    ops.append(f"q obj appchain {T}")
    tags.add(f"owner:{T}={second}")
    tags.add("rejected-applicant-scenario")
    for _ in range(r.choice([2, 3])):
        reserved_probe(r, ops, tags, T=T, callers=["u0", first, r.choice(["ca1", "ca2"]), first, second])


def dropped_admin_probe(r, ops, tags):
    """ownership that changes hands by an approved update: chain c1 takes a second admin, then the new admin has the old one removed
    from the admin list; operations reserved to the chain's own admin are then called by an outsider, by the removed admin, by another
    chain's admin and by the remaining admin"""
    new = r.choice(["ca5", "ca6"])
    ops.append(f"block xfer adm0 {new} 100000000000")
    if r.random() < 0.7:
        # the admin-to-be-dropped uses the managers that ask "is the caller an admin of this chain" while it still is one (calls that
        # pass the permission check and fail on their arguments): whatever a contract object remembers from these calls must not count later
        ops.append("block bvm ca1 rule LogoutRule s:c1 s:0x00000000000000000000000000000000000000ff")
        ops.append("block bvm ca1 service LogoutService s:c1:nosuch s:reason")
        ops.append("block bvm ca1 rule RegisterRule s:c1 s:0x00000000000000000000000000000000000000ff s:url")
        tags.add("dropped-admin:warmed-up")
    ops.append(f"block bvm ca1 appchain UpdateAppchain s:c1 s:name-c1 s:desc x: al:ca1,{new} s:reason")
    for v in ("adm0", "adm1", "adm2"):
        ops.append(f"block bvm {v} gov Vote s:@ca1-{PRELUDE_PROPOSALS['ca1']} s:approve s:r")
    ops.append(f"q prop @ca1-{PRELUDE_PROPOSALS['ca1']}")
    ops.append(f"q obj role @{new}")
    ops.append(f"block bvm {new} appchain UpdateAppchain s:c1 s:name-c1 s:desc x: al:{new} s:reason")
    for v in ("adm0", "adm1", "adm2"):
        ops.append(f"block bvm {v} gov Vote s:@{new}-0 s:approve s:r")
    ops.append(f"q prop @{new}-0")
    ops.append("q obj appchain c1")
    ops.append("q obj role @ca1")
    ops.append(f"q obj role @{new}")
    tags.add(f"owner:c1={new}")
    tags.add("dropped-admin-scenario")
    calls = [f"appchain UpdateAppchain s:c1 s:name-c1 s:desc-{r.randint(0, 9)} x: al:ca1,{new} s:reason",
             "appchain LogoutAppchain s:c1 s:reason",
             "rule LogoutRule s:c1 s:0x00000000000000000000000000000000000000a1"]
    for call in r.sample(calls, 2):
        for who in ("u0", "ca1", "ca2", new):
            ops.append("q dump")
            ops.append(f"block bvm {who} {call}")
            ops.append("q dump")
    ops.append("q obj appchain c1")


def prefixed_chain_probe(r, ops, tags):
    """two appchains whose ids are one a prefix of the other up to a colon (`c5` and `c5:x`, ids are free text), each with its own
    admin; the second registers a service (`c5:x:s1`).  Operations on that service reserved to its chain's admin are then called by an
    outsider, by the admin of the prefix chain, by another chain's admin and by the owner"""
    P = "c%d" % r.randint(5, 7)
    Q = P + ":x"
    pa, qa = r.sample(["ca5", "ca6", "ca7"], 2)
    ops.append(f"block xfer adm0 {pa} 100000000000 | xfer adm0 {qa} 100000000000")
    for chain, who in ((P, pa), (Q, qa)):
        ops.append(f"block bvm {who} appchain RegisterAppchain s:{chain} s:name-{chain.replace(':', '')} x: s:ETH x: s:0xbroker s:desc s:{HAPPY_RULE} s:url s:@{who} s:reason")
        for v in ("adm0", "adm1", "adm2"):
            ops.append(f"block bvm {v} gov Vote s:@{who}-0 s:approve s:r")
        ops.append(f"q obj appchain {chain}")
        tags.add(f"owner:{chain}={who}")
    ops.append(f"block bvm {qa} service RegisterService s:{Q} s:s1 s:svc-{Q.replace(':', '')}-s1 s:CallContract s:intro u:1 s:~ s:details s:reason")
    for v in ("adm0", "adm1", "adm2"):
        ops.append(f"block bvm {v} gov Vote s:@{qa}-1 s:approve s:r")
    ops.append(f"q obj service {Q}:s1")
    call = r.choice(["LogoutService", "LogoutService", "FreezeService"])
    callers = ["u0", pa, r.choice(["ca1", "ca2"])] + ([qa] if call == "LogoutService" else ["adm1"])
    for who in callers:
        ops.append("q dump")
        ops.append(f"block bvm {who} service {call} s:{Q}:s1 s:reason")
        ops.append("q dump")
        ops.append(f"q obj service {Q}:s1")
    tags.add("prefixed-chain-scenario:" + call)


def respelled_booked_account_probe(r, ops, tags):
    """an outsider applies for a new appchain and names, next to itself, an account that is already the admin of chain c1 —
    spelled in lower case, not in the checksummed spelling the node uses; then takes the application back (or has it rejected /
    approved).  Whatever the node makes of that spelling, the records of c1's admin are c1's: nobody else's call may touch them"""
    T = "c%d" % r.randint(5, 7)
    who = r.choice(["u0", "ca5"])
    ops.append(f"block xfer adm0 {who} 100000000000")
    ops.append("q dump")
    ops.append(f"block bvm {who} appchain RegisterAppchain s:{T} s:name-{T}-x x: s:ETH x: s:0xbroker s:desc s:{HAPPY_RULE} s:url al:{who},~ca1 s:reason")
    ops.append("q dump")
    ops.append(f"q prop @{who}-0")
    end = r.choice(["withdraw", "withdraw", "reject", "approve"])
    if end == "withdraw":
        ops.append("q dump")
        ops.append(f"block bvm {who} gov WithdrawProposal s:@{who}-0 s:reason")
        ops.append("q dump")
    else:
        for v in ("adm0", "adm1", "adm2"):
            ops.append("q dump")
            ops.append(f"block bvm {v} gov Vote s:@{who}-0 s:{end} s:r")
            ops.append("q dump")
    ops.append(f"q prop @{who}-0")
    ops.append(f"q obj role @ca1")
    # c1's admin still is c1's admin: an operation reserved to it still works for it
    ops.append("q dump")
    ops.append("block bvm ca1 appchain UpdateAppchain s:c1 s:name-c1 s:desc-after x: s:@ca1 s:reason")
    ops.append("q dump")
    tags.add("respelled-booked-account:" + end)


ADMIN_OPS = [
    "appchain FreezeAppchain s:c2 s:reason",
    "appchain ActivateAppchain s:c2 s:reason",
    "service FreezeService s:c2:s1 s:reason",
    "role RegisterRole s:@g1 s:governanceAdmin s:~ s:reason",
    "role FreezeRole s:@adm2 s:reason",
    "strategy UpdateProposalStrategy s:appchain_mgr s:SimpleMajority s:a\\_==\\_t s:reason",
    "node RegisterNode s:@n9 s:nvpNode s:0 u:0 s:n9 s:~ s:reason",
]


def former_admin_probe(r, ops, tags):
    """an account that holds a governance-admin role record without being an available admin: an administrator who was frozen
    or logged out by an approved proposal, or a candidate whose registration was voted down (or is still pending).
    Operations reserved to governance admins are then called with the same arguments by an outsider, by that account and
    finally by a real administrator; a vote of that account on an open proposal is tried too"""
    kind = r.choice(["frozen", "frozen", "logged-out", "rejected-candidate", "pending-candidate"])
    # the proposal the account will try to vote on: opened AFTER it lost its role (it is no elector of it) or — seeding round 29 —
    # BEFORE (it is in the proposal's electorate list, which is a snapshot of the moment of submission and is never trimmed)
    early = kind in ("frozen", "logged-out") and r.random() < 0.6
    if early:
        ops.append("block bvm adm2 appchain FreezeAppchain s:c4 s:reason")
        ops.append("q prop @adm2-0")
        tags.add("former-admin:elector-of-an-open-proposal")
    if kind in ("frozen", "logged-out"):
        x = "adm3"
        call = "FreezeRole" if kind == "frozen" else "LogoutRole"
        ops.append(f"block bvm adm1 role {call} s:@{x} s:reason")
        ops.append("q prop @adm1-0")
        for v in ("adm0", "adm1", "adm2"):
            ops.append(f"block bvm {v} gov Vote s:@adm1-0 s:approve s:r")
        ops.append("q prop @adm1-0")
    else:
        x = "g2"
        ops.append(f"block xfer adm0 {x} 100000000000")
        ops.append(f"block bvm adm1 role RegisterRole s:@{x} s:governanceAdmin s:~ s:reason")
        ops.append("q prop @adm1-0")
        if kind == "rejected-candidate":
            for v in ("adm0", "adm1", "adm2"):
                ops.append(f"block bvm {v} gov Vote s:@adm1-0 s:reject s:r")
            ops.append("q prop @adm1-0")
    ops.append(f"q obj role @{x}")
    if kind == "frozen" and r.random() < 0.6:
        # the frozen administrator asks for its own logout and takes the request back (or has it voted down): it must be
        # frozen again afterwards, not available
        ops.append(f"block bvm {x} role LogoutRole s:@{x} s:reason")
        ops.append(f"q prop @{x}-0")
        ops.append(f"q obj role @{x}")
        if r.random() < 0.6:
            ops.append(f"block bvm {x} gov WithdrawProposal s:@{x}-0 s:reason")
        else:
            for v in ("adm0", "adm1", "adm2"):
                ops.append(f"block bvm {v} gov Vote s:@{x}-0 s:reject s:r")
        ops.append(f"q prop @{x}-0")
        ops.append(f"q obj role @{x}")
        tags.add("former-admin:own-logout-taken-back")
    # an open proposal to vote on
    if not early:
        ops.append("block bvm adm2 appchain FreezeAppchain s:c4 s:reason")
    ops.append("q prop @adm2-0")
    for who in ("u0", x):
        ops.append("q dump")
        ops.append(f"block bvm {who} gov Vote s:@adm2-0 s:approve s:r")
        ops.append("q dump")
    for call in r.sample(ADMIN_OPS, 3):
        for who in ("u0", x, "adm1"):
            ops.append("q dump")
            ops.append(f"block bvm {who} {call}")
            ops.append("q dump")
    tags.add(f"former-admin:{kind}")
    tags.add(f"nonadmin:{x}")


def gen_c17(rng, n, tier):
    import random as _r
    methods = [m for m in load_methods() if m[4] == ["*boltvm.Response"] or m[1] in STUB]
    hs = []
    if not methods:
        return hs
    # round-robin over (method, caller class, audit) so that every method is exercised on every run
    combos = []
    r0 = _r.Random(rng.getrandbits(64))
    for m in methods:
        if not m[3]:
            combos.append((m, r0.choice(list(CALLERS))))     # promoted method: one caller class per run
            continue
        for cls in CALLERS:
            combos.append((m, cls))
    r0.shuffle(combos)
    per = max(1, (len(combos) + n - 1) // n) if n < len(combos) else 1
    idx = 0
    count = max(n, 1)
    for hno in range(count):
        r = _r.Random(rng.getrandbits(64))
        audit = r.choice([0, 1])
        ops = [f"world audit={audit} price=1"] + warmup(r)
        tags = {"c17", f"audit:{audit}"}
        k = per if n < len(combos) else r.choice([1, 2, 3])
        for _ in range(k):
            (c, m, ins, declared, out), cls = combos[idx % len(combos)]
            idx += 1
            caller = r.choice(CALLERS[cls])
            # the object the call is about: an object of chain c1, or the caller itself ("self" permissions)
            obj = r.choice(["c1", "c1:s1", "1356:c1:s1", "@ca1", "@ca1-0", "@" + caller, "@" + caller])
            args = []
            ok = True
            for t in ins:
                if t.startswith("..."):
                    continue
                a = typed_arg(r, t, obj)
                if a is None:
                    ok = False
                    break
                args.append(a)
            if not ok:
                tags.add("untypable:" + c + "." + m)
                continue
            if (c, m) == ("interchain", "HandleIBTPData") and r.random() < 0.7:
                # an IBTP that would be accepted right now if it came the proper way (after the warm-up traffic): the next
                # request of the pair c1:s1 -> c2:s1, or the receipt of the open request c2:s1 -> c1:s1
                args = [r.choice(["ibtp:c1:s1,c2:s1,2,req,0", "ibtp:c2:s1,c1:s1,1,ok,0", "ibtp:c2:s1,c1:s1,1,fail,0", "ibtp:c1:s2,c2:s1,1,req,0"])]
                tags.add("internal:acceptable-ibtp")
            if c == "txmgr" and m in ("BeginInterBitXHub", "Begin", "Report") and r.random() < 0.7:
                # the transaction manager's entries with the id of a record that EXISTS (the open request c2:s1 -> c1:s1 of the warm-up
                # traffic, or the answered one): a guard that only the new-record path still passes through must not be the only one
                # (seeding round 26); the bytes are a BxhProof naming BEGIN_FAILURE / BEGIN_ROLLBACK
                tid = r.choice(["1356:c2:s1-1356:c1:s1-1", "1356:c2:s1-1356:c1:s1-1", "1356:c1:s1-1356:c2:s1-1"])
                if m == "BeginInterBitXHub":
                    args = [f"s:{tid}", "u:0", r.choice(["x:0801", "x:0802"]), "b:0"]
                elif m == "Begin":
                    args = [f"s:{tid}", r.choice(["u:0", "u:5"]), r.choice(["b:0", "b:1"])]
                else:
                    args = [f"s:{tid}", r.choice(["i:0", "i:1", "i:2"])]
                tags.add("internal:existing-record")
            ops.append("q dump")
            ops.append(f"block bvm {caller} {c} {m} " + " ".join(args))
            ops.append("q dump")
            tags.add(f"call:{cls}")
            tags.add(f"m:{c}.{m}")
        k1 = r.random()
        if k1 < 0.5:
            reserved_probe(r, ops, tags)
        elif k1 < 0.62:
            rejected_applicant_probe(r, ops, tags)
        elif k1 < 0.74:
            former_admin_probe(r, ops, tags)
        elif k1 < 0.84:
            respelled_booked_account_probe(r, ops, tags)
        elif k1 < 0.92:
            prefixed_chain_probe(r, ops, tags)
        elif k1 < 1.0:
            dropped_admin_probe(r, ops, tags)
        ops += ["q ic c1:s1", "q ic c2:s1", "q status 1356:c1:s1-1356:c2:s1-1", "q status 1356:c2:s1-1356:c1:s1-1"]
        hs.append(History(ops, tags=tags))
    return hs


_decl = {}


def declared():
    if "d" not in _decl:
        _decl["d"] = {(c, m) for (c, m, _i, d, _o) in load_methods() if d}
    return _decl["d"]


def caller_class(name):
    for k, v in CALLERS.items():
        if name in v:
            return k
    if name.startswith("ca"):
        return "other-chain-admin"
    return "outsider"


FOREIGN = ("c1",)   # the probes act on objects of chain c1; ca2 / outsiders have no right over them


def mon_c17(h, obs):
    hits = []
    steps = mon_exec.parse_trace(h, obs)
    reserved = {(c, m): pos for (c, m, _ins, pos) in load_reserved()}
    # (their permission list is passed down to a helper, out of the extractor's sight: the property text names them)
    reserved.setdefault(("appchain", "LogoutAppchain"), 1)
    outsider_class = {}      # (contract, method, args) -> error class an outsider got for exactly this call
    owners = dict(CHAIN_ADMIN)
    nonadmins = {t[9:] for t in h.tags if t.startswith("nonadmin:")}
    outsider5 = {}
    for t in h.tags:
        if t.startswith("owner:"):
            ch, _, who = t[6:].partition("=")
            owners[ch] = who
    # the scenario that hands chain c1 over to a new admin says what it TRIED; whether the chain changed hands is read off what
    # happened: the two `UpdateAppchain` proposals of the scenario (`q prop` right after each round of votes) — an earlier random call
    # may have frozen the chain, so that the updates were refused and nothing changed hands: then ca1 is still the admin and its
    # calls are the owner's calls.  (The role records are NOT the authority here: a removed admin that keeps its record is exactly
    # what the scenario is there to catch.)
    also_owner = {}          # chain -> accounts that are (still / also) admins of it
    if "dropped-admin-scenario" in h.tags and owners.get("c1") != CHAIN_ADMIN["c1"]:
        newadm = owners["c1"]
        approved = []
        for st in steps:
            if st[0] == "q" and st[1] == "prop" and len(st[4]) > 2 and (st[4][2].startswith("@" + CHAIN_ADMIN["c1"] + "-") or st[4][2].startswith("@" + newadm + "-")):
                m = re.search(r"status=(\S+) .*ev=(\S+) obj=(\S+)", st[3] or "")
                approved.append(bool(m and m.group(1) == "approve" and m.group(2) == "update" and m.group(3) == "c1"))
                if len(approved) == 2:
                    break
        approved += [False] * (2 - len(approved))
        if not approved[0]:
            owners["c1"] = CHAIN_ADMIN["c1"]           # the new admin never joined: nothing changed hands
        elif not approved[1]:
            also_owner["c1"] = {CHAIN_ADMIN["c1"]}     # the new admin joined, the old one was not removed: both are admins
    role_status = {}         # account -> status of its role record as last read back (`q obj role @x`)
    before_logout = {}       # account -> status it had when its logout was requested
    for i, st in enumerate(steps):
        if st[0] == "q" and st[1] == "obj" and st[2] == "role" and len(st[4]) > 3:
            m = re.search(r"status=(\S+)", st[3] or "")
            acc, new = st[4][3].lstrip("@"), (m.group(1) if m else "none")
            old = role_status.get(acc)
            if new == "logouting" and old not in (None, "logouting"):
                before_logout[acc] = old
            # R7: a logout request that is voted down or taken back gives nobody administrator rights he did not have: the role
            # returns to the status it had (an approved one ends in forbidden)
            if old == "logouting" and new in ("available", "freezing") and before_logout.get(acc) not in (None, "available", "freezing"):
                hits.append(Hit("C17/unavailable-admin-made-available-by-withdrawn-logout",
                                f"the role of {acc} was {before_logout[acc]} when its logout was requested; the request was voted down / taken back and the role is now {new}: the account has the rights of an available administrator again",
                                detail=" ".join(st[4])))
            role_status[acc] = new
            continue
        if st[0] != "block" or not st[1].ok:
            continue
        b = st[1]
        if len(b.txs) != 1 or b.txs[0].kind != "bvm" or len(b.rcs) != 1:
            continue
        if not (i > 0 and i + 1 < len(steps) and steps[i - 1][0] == "q" and steps[i - 1][1] == "dump" and steps[i + 1][0] == "q" and steps[i + 1][1] == "dump"):
            continue
        tx, rc = b.txs[0], b.rcs[0]
        d0, d1 = mon_exec.parse_dump(steps[i - 1][3]), mon_exec.parse_dump(steps[i + 1][3])
        if d0 is None or d1 is None:
            continue
        cls = caller_class(tx.signer)
        changed = [k for k in sorted(set(d0) | set(d1)) if d0.get(k) != d1.get(k)
                   and not k.startswith("bal/") and not k.startswith("nonce/")]
        c, m = tx.contract, tx.method
        # R0: the Stub toolbox is not callable (a contract's own method of the same name, e.g. Store.Set, is)
        if m in STUB and (c, m) not in declared() and rc.ok:
            hits.append(Hit(f"C17/stub-method-callable/{m}", f"{c}.{m} called by {tx.signer} succeeded", detail=b.op))
        # R1: contract-to-contract entry points fail for every external caller and change nothing
        if m in INTERNAL.get(c, ()):
            if rc.ok:
                hits.append(Hit(f"C17/internal-entry-callable/{c}.{m}", f"{c}.{m} called directly by {tx.signer} ({cls}) succeeded", detail=b.op))
            if changed:
                hits.append(Hit(f"C17/internal-entry-changed-state/{c}.{m}", f"{c}.{m} called directly by {tx.signer} ({cls}) changed {changed[:4]}", detail=b.op))
        # R2: nobody resets / deletes / rewrites existing interchain counters or transaction records by a direct call
        for k in changed:
            if (k.startswith("interchain/") or k.startswith("txmgr/")) and k in d0:
                hits.append(Hit(f"C17/foreign-interchain-record-changed/{c}.{m}", f"{c}.{m} by {tx.signer} ({cls}) changed {k}", detail=b.op))
                break
        # R3: objects of chain c1 are not modified by outsiders or by another chain's admin
        if cls in ("outsider", "other-chain-admin") and tx.signer != owners.get("c1", CHAIN_ADMIN["c1"]) and tx.signer not in also_owner.get("c1", ()) and (c, m) not in OPEN_WRITERS:
            for k in changed:
                if k in d0 and re_c1(k):
                    hits.append(Hit(f"C17/foreign-object-changed/{c}.{m}", f"{c}.{m} by {tx.signer} ({cls}) changed {k}", detail=b.op))
                    break
        # R4: an operation reserved to a chain's own admin fails for everyone else — and in the same way as for an outsider
        if (c, m) in reserved and len(tx.args) >= reserved[(c, m)]:
            a = tx.args[reserved[(c, m)] - 1]
            chain = a[2:] if a.startswith("s:") else None
            if chain in owners and tx.signer != owners[chain] and tx.signer not in also_owner.get(chain, ()):
                key = (c, m, tuple(tx.args))
                if rc.ok:
                    hits.append(Hit(f"C17/reserved-operation-open-to-others/{c}.{m}", f"{c}.{m} about chain {chain} called by {tx.signer} ({cls}) succeeded; it is reserved to {owners[chain]}", detail=b.op))
                elif cls == "outsider":
                    outsider_class[key] = rc.ret
                elif key in outsider_class and rc.ret != outsider_class[key]:
                    hits.append(Hit(f"C17/reserved-operation-passed-permission-check/{c}.{m}",
                                    f"{c}.{m} about chain {chain}: {tx.signer} ({cls}) was refused with {rc.ret}, an outsider with {outsider_class[key]}: the caller got past the owner check", detail=b.op))
        # R6: the logout of a service is reserved to the admin of the service's own appchain (the id up to the last colon); a
        # freeze to governance admins
        if (c, m) in (("service", "LogoutService"), ("service", "FreezeService")) and tx.args and tx.args[0].startswith("s:") and tx.args[0].count(":") >= 2:
            chain = tx.args[0][2:].rsplit(":", 1)[0]
            if chain in owners and rc.ok:
                allowed = ({owners[chain]} | set(also_owner.get(chain, ()))) if m == "LogoutService" else set(CALLERS.get("governance-admin", []) or ["adm0", "adm1", "adm2", "adm3"])
                if tx.signer not in allowed:
                    hits.append(Hit(f"C17/reserved-operation-open-to-others/{c}.{m}", f"{c}.{m} about a service of chain {chain} called by {tx.signer} ({cls}) succeeded; the chain's admin is {owners[chain]}", detail=b.op))
        # R5: an operation reserved to governance admins (or a vote) called by an account that holds an admin role record
        # without being an available admin fails — and in the same way as for an outsider
        # (the set-up that was to take the admin's availability away can itself be refused — the random calls before it may
        # have changed who may propose: the account counts as "no available admin" only if its role record, read back after
        # the set-up, says so)
        is_nonadmin = tx.signer in nonadmins and role_status.get(tx.signer) not in (None, "available", "freezing")
        if is_nonadmin or cls == "outsider":
            key5 = (c, m, tuple(tx.args))
            if cls == "outsider" and not rc.ok:
                outsider5[key5] = rc.ret
            elif is_nonadmin and key5 in outsider5:
                if rc.ok:
                    hits.append(Hit(f"C17/admin-operation-open-to-unavailable-admin/{c}.{m}", f"{c}.{m} called by {tx.signer}, who is no available governance admin, succeeded; an outsider is refused with {outsider5[key5]}", detail=b.op))
                elif rc.ret != outsider5[key5]:
                    hits.append(Hit(f"C17/admin-operation-passed-admin-check/{c}.{m}", f"{c}.{m}: {tx.signer}, who is no available governance admin, was refused with {rc.ret}, an outsider with {outsider5[key5]}: the caller got past the admin check", detail=b.op))
        # a failed call changes nothing (C07 restated for this traffic)
        if not rc.ok and changed:
            hits.append(Hit(f"C17/failed-call-changed-state/{c}.{m}", f"failed {c}.{m} changed {changed[:4]}", detail=b.op))
    return hits


def re_c1(k):
    import re
    c, _, rest = k.partition("/")
    if c not in ("appchain", "service", "rule", "role", "interchain", "txmgr", "gov"):
        return False
    if c == "gov":
        return False
    return re.search(r"(^|[-:])c1($|[-:])", rest) is not None or "0x369c3c8E1eCeD420057047Ed2e7a85B2cF04e744" in rest and c == "role"


def tags_c17(h, obs):
    t = set()
    for st in mon_exec.parse_trace(h, obs):
        if st[0] == "block" and st[1].ok and len(st[1].txs) == 1 and st[1].txs[0].kind == "bvm" and st[1].rcs:
            tx, rc = st[1].txs[0], st[1].rcs[0]
            t.add(f"outcome:{caller_class(tx.signer)}:{'ok' if rc.ok else rc.ret}")
    return t


# ------------------------------------------------------------------------------------------ perm engine (checkPermission)

def gen_perm(rng, n, tier):
    """exhaustive: every permission list up to length 3 over {self, admin, specific, bogus} x regulated x regulator x
    specific-address data x role-contract answer (one history per permission list)"""
    import itertools
    syms = ["self", "admin", "specific", "bogus"]
    lists = [[]]
    for k in (1, 2, 3):
        lists += [list(p) for p in itertools.product(syms, repeat=k)]
    hs = []
    for pl in lists:
        ops = []
        for regulated in ("a", "b"):
            for regulator in ("a", "b", "c"):
                for sp in ("-", "bad", "[]", "a", "b,c"):
                    for adm in ("0", "1", "e"):
                        ops.append(f"perm {','.join(pl) or '-'} {regulated} {regulator} {sp} {adm}")
        hs.append(History(ops, tags={"perm", "len:%d" % len(pl)}))
    return hs


def mon_perm(h, obs):
    hits = []
    for op, o in zip(h.ops, obs):
        ws = op.split()
        if ws[0] != "perm":
            continue
        perms = [] if ws[1] == "-" else ws[1].split(",")
        regulated, regulator, sp, adm = ws[2:6]
        lst = None if sp in ("-", "bad") else ([] if sp == "[]" else sp.split(","))
        if perms == ["specific"] and lst is not None:
            if (o == "allowed") != (regulator in lst):
                hits.append(Hit("C17/specific-gate-wrong", f"{op} -> {o}"))
        if not perms and o != "denied":
            hits.append(Hit("C17/empty-gate-not-denied", f"{op} -> {o}"))
        # nobody is admitted without a reason: not self, not admin, not listed
        if o == "allowed" and not (("self" in perms and regulated == regulator) or ("admin" in perms and adm == "1")
                                   or ("specific" in perms and lst is not None and regulator in lst)):
            hits.append(Hit("C17/gate-admits-without-reason", f"{op} -> {o}"))
    return hits


# ------------------------------------------------------------------------------------------ C08: totality

BAD_IDS = ["~", "a", "a:b:c:d", "::", ":c1:s1", "1356::s1", "1356:c1:", "x" * 300, "1356:c1:s1-extra", "1356:c1:s\\_1", "9999:c1:s1",
           "1356:c9:s9", "c1:s1:", "-", "1356:c1:s1:", "ü:ü:ü", "1356:C1:S1", "0:0:0"]
HEX_JUNK = ["empty", "00", "ff", "0a", "0a00", "0aff", "08", "0801", "1200", "ffffffffffffffffffff", "0a0548656c6c6f", "7b7d", "12ff01", "0a" + "80" * 10 + "01"]


def bad_args(r, ins):
    """an argument vector that does not fit the signature: wrong count, wrong types, unknown type tags, unparsable numbers"""
    k = r.random()
    good = []
    for t in ins:
        if t.startswith("..."):
            continue
        a = typed_arg(r, t)
        good.append(a if a is not None else "s:x")
    if k < 0.2:
        return good[:-1] if good else ["s:extra"]
    if k < 0.4:
        return good + [r.choice(["s:extra", "u:1", "b:1", "x:00"])]
    if k < 0.55:
        return []
    if k < 0.8:
        out = list(good)
        if out:
            i = r.randrange(len(out))
            out[i] = r.choice(["u:abc", "i:99999999999", "i:x", "b:1", "u:1", "s:1", "x:ff", "f:nan", "f:abc", "raw:99:00", "raw:7:", "raw:3:ffffffffffffffffffff", "raw:0:78"])
        return out
    return [r.choice(["raw:99:00", "raw:-1:00", "u:18446744073709551616", "i:-2147483649", "f:1e400"]) for _ in range(r.randint(1, 4))]


def gen_c08(rng, n, tier):
    import random as _r
    methods = [m for m in load_methods()]
    hs = []
    for _ in range(n):
        r = _r.Random(rng.getrandbits(64))
        g_audit = r.choice([0, 1])
        ops = [f"world audit={g_audit} price=1"]
        tags = {"c08"}
        nb = r.randint(2, 7)
        expect_h = 6
        if r.random() < 0.15:
            # the bridge into the EVM (InterBroker.InvokeInterchain / InvokeReceipt hand the IBTP's payload to an EVM call inside
            # the contract call): by senders who can and who cannot pay for the transaction, alone and between other transactions
            call = f"broker {r.choice(['InvokeInterchain', 'InvokeInterchain', 'InvokeReceipt'])} ibtpc:c1:s1,c2:s1,{r.choice([1, 2])},{r.choice(['req', 'ok', 'fail'])},0"
            who = r.choice(["u0", "p0", "p1", "p0"])
            txs = [f"bvm {who} {call}"]
            if r.random() < 0.5:
                txs = [f"xfer u1 u2 {r.choice([1, 5])}"] + txs + [f"bvm u1 store Set s:k s:v"]
            ops.append("block " + " | ".join(txs))
            tags.add("evm-bridge:" + ("unfunded" if who.startswith("p") else "funded"))
        if r.random() < 0.2:
            # well-formed traffic that makes the executor's own bookkeeping (outside every recover) edit its lists: several requests
            # of different pairs pending under ONE deadline, answered in every order (the first, a middle one, the last, all at once)
            pairs = r.sample([("c1:s1", "c2:s1"), ("c2:s1", "c1:s1"), ("c1:s2", "c2:s3"), ("c4:s1", "c2:s1"), ("c2:s3", "c4:s1"), ("c1:s1", "c4:s1")], r.choice([2, 3, 4]))
            T = r.choice([4, 5, 9])
            adm = lambda s: "ca" + s.split(":")[0][1:]
            ops.append("block " + " | ".join(f"ibtp {adm(f)} {f} {t} 1 req {T} - ok" for f, t in pairs))
            order = list(pairs)
            r.shuffle(order)
            if r.random() < 0.4:
                ops.append("block " + " | ".join(f"ibtp {adm(t)} {f} {t} 1 {r.choice(['ok', 'fail'])} 0 - ok" for f, t in order[:-1]))
            else:
                for f, t in order[:r.choice([1, 2, len(order)])]:
                    ops.append(f"block ibtp {adm(t)} {f} {t} 1 {r.choice(['ok', 'fail'])} 0 - ok")
            tags.add("shared-deadline-answered-in-any-order")
        for _b in range(nb):
            txs = []
            for _t in range(r.choice([1, 1, 2, 3, 5])):
                k = r.random()
                # p0 / p1 hold nothing: every transaction of theirs also fails to pay its fee
                signer = r.choice(["u0", "u1", "ca1", "ca2", "adm1", "p0", "p1"])
                if k < 0.35 and methods:
                    c, m, ins, declared, out = r.choice(methods)
                    args = bad_args(r, ins)
                    if r.random() < 0.1:
                        m = r.choice(["", "nope", m.lower(), m + "X"]) or "~"
                    txs.append(f"bvm {signer} {c} {m} " + " ".join(args))
                    tags.add("mal:bvm-args")
                elif k < 0.5:
                    to = r.choice(["interchain", "txmgr", "store", "u1", "nil", "0x0000000000000000000000000000000000000abc"])
                    txs.append(f"raw {signer} {to} {r.choice(HEX_JUNK + ['nil'])}")
                    tags.add("mal:raw-payload")
                elif k < 0.65:
                    # (vm type 1 = XVM: deploy to the zero address, invoke of a code-less address, no receiver at all)
                    to = r.choice(["interchain", "txmgr", "store", "u1", "0x0000000000000000000000000000000000000abc", "nil", "nil",
                                   "0x0000000000000000000000000000000000000000"])
                    typ = r.choice([0, 1, 2, 3, 99])
                    vmt = r.choice([0, 1, 2, 99])
                    amt = r.choice(["~", "0", "1", "abc", "-1", "1" + "0" * 80])
                    txs.append(f"rawtd {signer} {to} {typ} {vmt} {amt} {r.choice(HEX_JUNK + ['nil'])}")
                    tags.add("mal:raw-txdata")
                elif k < 0.9:
                    f = r.choice(BAD_IDS + ["c1:s1", "c2:s1"])
                    t = r.choice(BAD_IDS + ["c1:s1", "c2:s1"])
                    idx = r.choice([0, 1, 2, 2 ** 63, 2 ** 64 - 1])
                    typ = r.choice(["req", "ok", "fail", "rb", "4", "7", "100"])
                    tmo = r.choice([0, 1, -1, 2 ** 63 - 1, -2 ** 63])
                    grp = r.choice(["-", "-", "c2:s1=1", "c2:s1=1,c2:s1=2", "~=0", "a=18446744073709551615"])
                    pk = r.choice(["ok", "none", "bad"])
                    txs.append(f"ibtp {signer} {f} {t} {idx} {typ} {tmo} {grp} {pk}")
                    tags.add("mal:ibtp")
                else:
                    txs.append(f"ibtp ca1 c1:s1 c2:s1 1 req 0 - ok" if r.random() < 0.5 else f"xfer u0 u1 {r.choice(['1', 'abc', '-1'])}")
                # header mutation: an IBTP / contract call without a receiver (To == nil) or to the zero address — also for a
                # well-formed IBTP whose proof is accepted, so that it reaches the VM
                if r.random() < 0.12 and txs[-1].startswith(("ibtp ", "bvm ")):
                    kind = r.choice(["noto", "noto", "tozero"])
                    if r.random() < 0.4:
                        txs[-1] = "ibtp ca1 c1:s1 c2:s1 1 req 0 - ok"
                    txs[-1] = f"hdr:{kind} " + txs[-1]
                    tags.add("mal:hdr-" + kind)
                # a transaction that is not marked local gets its signature verified: valid, flipped, truncated, empty,
                # by another key, or without a sender
                if r.random() < 0.2 and not txs[-1].startswith(("raw", "sig:", "hdr:")):
                    kind = r.choice(["ok", "bad", "short", "empty", "other", "nofrom", "ethtyp", "ethshort", "ethlong", "ethone"])
                    txs[-1] = f"sig:{kind} " + txs[-1]
                    tags.add("mal:sig-" + kind)
                if r.random() < 0.06:
                    # an Ethereum transaction whose signature was damaged after signing (its sender may not be recoverable at all)
                    txs.append(f"ethx {r.choice(['flipr', 'zeror', 'highs', 'chain'])} {r.choice(['u0', 'u1', 'p0'])} {r.choice(['u2', 'n0'])} {r.choice([0, 7])} 21000 {r.choice([1, 1000])}")
                    tags.add("mal:eth-signature")
                if r.random() < 0.05:
                    txs.append(f"rawtd {signer} nil {r.choice([0, 0, 1, 1, 2])} {r.choice([0, 0, 1, 1, 2])} {r.choice(['1', '0', '~', '5'])} {r.choice(['nil', 'nil', '00', '0061736d'])}")
                    tags.add("mal:no-receiver")
            ops.append("block " + " | ".join(txs))
        ops.append("q height")
        hs.append(History(ops, tags=tags))
    return hs


def mon_c08(h, obs):
    hits = []
    height = None
    for i, (op, o) in enumerate(zip(h.ops, obs)):
        if o.startswith("PANIC") or o.startswith("DIED"):
            hits.append(Hit(f"C08/node-crash/{o.split(' ')[1][:40] if ' ' in o else o}", f"op {i} `{op[:160]}` -> {o[:200]}", detail=op))
            break
        ws = op.split()
        if ws[0] == "world":
            m = mon_exec.re.match(r"ok h=(\d+)", o)
            height = int(m.group(1)) if m else None
        elif ws[0] == "block":
            m = mon_exec.BLK.match(o)
            if not m:
                hits.append(Hit("C08/block-not-committed", f"op {i} `{op[:160]}` -> {o[:200]}", detail=op))
                break
            ntx = len([w for w in op.split(" | ")]) if len(ws) > 1 else 0
            rcs = m.group(2).split() if m.group(2) else []
            if len(rcs) != ntx:
                hits.append(Hit("C08/receipt-count", f"block with {ntx} txs has {len(rcs)} receipts: {o[:160]}", detail=op))
            if any(x == "noreceipt" for x in rcs):
                hits.append(Hit("C08/missing-receipt", f"{o[:160]}", detail=op))
            if height is not None and int(m.group(1)) != height + 1:
                hits.append(Hit("C08/height-not-next", f"expected {height + 1}: {o[:80]}", detail=op))
            height = int(m.group(1))
    if len(obs) < len(h.ops) and not hits:
        hits.append(Hit("C08/node-crash/eof", f"process stopped after {len(obs)} of {len(h.ops)} ops", detail=h.ops[len(obs)] if len(obs) < len(h.ops) else None))
    return hits


def tags_c08(h, obs):
    t = set()
    for st in mon_exec.parse_trace(h, obs):
        if st[0] == "block" and st[1].ok:
            for rc in st[1].rcs:
                t.add("rc:" + ("ok" if rc.ok else rc.ret))
    return t


# ------------------------------------------------------------------------------------------ C03: proof gate

ORIGIN_OK = {"c1": True, "c2": True, "c3": False, "c4": True}     # rule verdict for a well-formed proof (HappyRule / SimFabric rule of the world)


RULES = {"happy": "0x00000000000000000000000000000000000000a2", "simfabric": "0x00000000000000000000000000000000000000a1"}
PRELUDE_PROPOSALS = {"ca1": 3, "ca2": 4, "ca3": 2, "ca4": 2}


def rule_update(g, r):
    """an appchain admin proposes another master rule ("against appchains whose rule was changed"): c3 (rule rejects) asks for
    the accept-everything rule, or c1 / c2 ask for the rejecting one; governance approves or rejects; IBTPs of that chain are
    probed before, while the proposal is open, and afterwards, each bracketed by dumps and by a read of the bound master rule"""
    # only c3 has a second bindable rule in the world (for c1 / c2 the update is refused: "rule does not exist"); one history in
    # five still asks for it on c1 / c2 — a refused update must change nothing either
    c = r.choice(["c3", "c3", "c3", "c3", "c1", "c2"])
    new = RULES["happy"] if c == "c3" else RULES["simfabric"]
    ca = "ca" + c[1]
    svc = {"c1": "c1:s1", "c2": "c2:s1", "c3": "c3:s1"}[c]
    peer = "c4:s1"
    ref = f"@{ca}-{PRELUDE_PROPOSALS[ca]}"
    state = {"idx": 1}

    def probe():
        g.ops.append(f"q obj rule {c}")
        g.ops.append("q dump")
        g.ops.append(f"block ibtp {ca} {svc} {peer} {state['idx']} req 0 - ok")
        g.ops.append("q dump")
        state["idx"] += 1      # optimistic; a rejected probe makes the next index wrong, which is a rejection as well
    probe()
    g.ops.append(f"block bvm {ca} rule UpdateMasterRule s:{c} s:{new} s:reason")
    g.ops.append(f"q prop {ref}")
    g.ops.append(f"q obj rule {c}")
    if r.random() < 0.5:
        probe()
    ballot = r.choice(["approve", "reject", "reject"])
    for v in ["adm0", "adm1", "adm2"]:
        g.ops.append(f"block bvm {v} gov Vote s:{ref} s:{ballot} s:r")
    g.ops.append(f"q prop {ref}")
    state["idx"] = 1 if state["idx"] > 1 and c == "c3" else state["idx"]
    for _ in range(2):
        probe()
    if c == "c3" and ballot == "approve" and r.random() < 0.5:
        # and back again: the rejecting rule becomes the master rule once more
        ref2 = f"@{ca}-{PRELUDE_PROPOSALS[ca] + 1}"
        g.ops.append(f"block bvm {ca} rule UpdateMasterRule s:{c} s:{RULES['simfabric']} s:reason")
        g.ops.append(f"q prop {ref2}")
        for v in ["adm0", "adm1", "adm2"]:
            g.ops.append(f"block bvm {v} gov Vote s:{ref2} s:approve s:r")
        g.ops.append(f"q prop {ref2}")
        for _ in range(2):
            probe()
        g.tags.add("rule-update:back-again")
    g.tags.add(f"rule-update:{c}:{ballot}")


def logged_out_origin(g, r):
    """ "against appchains whose rule was … logged out": a request towards chain X is pending, X's admin logs the chain out (approved
    or rejected), then X answers the request with a receipt and sends a request of its own, each with a well-formed proof: after an
    approved logout X has no master rule any more, nothing X sends may be accepted"""
    c = r.choice(["c2", "c4", "c1"])
    ca = "ca" + c[1]
    dst = {"c1": "c1:s1", "c2": "c2:s1", "c4": "c4:s1"}[c]
    src = "c1:s2" if c != "c1" else "c2:s1"
    sca = "ca" + src[1]
    ref = f"@{ca}-{PRELUDE_PROPOSALS[ca]}"
    i = g.next_req.get((src, dst), 1)
    g.ops.append(f"block ibtp {sca} {src} {dst} {i} req 0 - ok")
    g.ops.append(f"q status 1356:{src}-1356:{dst}-{i}")
    g.ops.append(f"block bvm {ca} appchain LogoutAppchain s:{c} s:reason")
    g.ops.append(f"q prop {ref}")
    ballot = r.choice(["approve", "approve", "reject"])
    for v in ["adm0", "adm1", "adm2"]:
        g.ops.append(f"block bvm {v} gov Vote s:{ref} s:{ballot} s:r")
    g.ops.append(f"q prop {ref}")
    g.ops.append(f"q obj appchain {c}")
    g.ops.append(f"q obj rule {c}")
    for tx in [f"ibtp {ca} {src} {dst} {i} {r.choice(['ok', 'fail'])} 0 - ok", f"ibtp {ca} {dst} {src} {g.next_req.get((dst, src), 1)} req 0 - ok"]:
        g.ops.append("q dump")
        g.ops.append("block " + tx)
        g.ops.append("q dump")
    g.ops.append(f"q status 1356:{src}-1356:{dst}-{i}")
    g.next_req[(src, dst)] = i + 1
    g.next_rcpt[(src, dst)] = i + 1
    g.tags.add(f"logged-out-origin:{ballot}")
    return c


def gen_c03(rng, n, tier):
    """IBTP requests and receipts with every proof kind (ok / absent / hash mismatch / plain false) from chains whose rule
    accepts, rejects with an error, or that were never registered; every such single-IBTP block is bracketed by state dumps;
    the same IBTPs offered through the contract entry points HandleIBTPData / HandleIBTP by direct calls."""
    import random as _r
    from .gen_exec import ExecGen, SERVICES
    hs = []
    for _ in range(n):
        r = _r.Random(rng.getrandbits(64))
        g = ExecGen(r, focus="single", price=1)
        tags = g.tags
        tags.add("c03")
        chains = SERVICES + ["c9:s1", "c1:s9"]
        k0 = r.random()
        if k0 < 0.2:
            rule_update(g, r)
        elif k0 < 0.32:
            for _ in range(r.randint(0, 2)):
                g.block()
            logged_out_origin(g, r)
        elif k0 < 0.45 and not g.hub:
            # every receipt type is judged by the rule of the chain it claims to come from — the DESTINATION: a request to a service
            # of c3 (whose rule refuses every proof) is accepted, answered in time or left to time out, and then the receipt that
            # would be acceptable right now (success / failure while it is open, rollback once it has timed out) is offered with
            # a proof only the SOURCE chain's rule would accept
            from .gen_exec import ADMIN
            f = r.choice(["c2:s1", "c1:s1", "c4:s1", "c2:s3"])
            idx = g.next_req.get((f, "c3:s1"), 1)
            g.next_req[(f, "c3:s1")] = idx + 1
            late = r.random() < 0.6
            g.ops.append(f"block ibtp {ADMIN[f.split(':')[0]]} {f} c3:s1 {idx} req {2 if late else r.choice([0, 6])} - ok")
            if late:
                g.ops.append("block")
                g.ops.append("block")
            typ = "rb" if late else r.choice(["ok", "fail"])
            g.ops.append("q dump")
            g.ops.append(f"block ibtp {r.choice(['ca3', ADMIN[f.split(':')[0]]])} {f} c3:s1 {idx} {typ} 0 - ok")
            g.ops.append("q dump")
            g.ops.append(f"q status {f if f.count(':') == 2 else '1356:' + f}-1356:c3:s1-{idx}")
            tags.add("receipt-of-unverifiable-destination:" + typ)
        if g.hub and r.random() < 0.3:
            # seeding round 29: a LOCAL appchain is registered under the name a service id of the other BitXHub carries as its chain
            # segment (c5), with ONE validator of that hub in its trust root; then an IBTP relayed from 9999:c5:s1 comes with the
            # signature of that one validator.  It is judged by the four registered validators of BitXHub 9999 (one signature is not
            # more than (4-1)/3), not by the local record that happens to share the name
            g.ops.append("block xfer adm0 ca5 100000000000")
            g.ops.append("propose ca5")
            g.ops.append(f"block bvm ca5 appchain RegisterAppchain s:c5 s:name-c5 x: s:ETH trust:1 s:0xbroker s:desc s:{RULES['happy']} s:url s:@ca5 s:reason")
            g.ops.append("q prop @ca5-0")
            for v in ("adm0", "adm1", "adm2"):
                g.ops.append(f"block bvm {v} gov Vote s:@ca5-0 s:approve s:r")
            g.ops.append("q prop @ca5-0")
            g.ops.append("q obj appchain c5")
            idx = g.hub_next.get(("9999:c5:s1", "c1:s1"), 1)
            g.ops.append("q dump")
            g.ops.append(f"block ibtp ca9 9999:c5:s1 c1:s1 {idx} req 0 - msig1")
            g.ops.append("q dump")
            g.ops.append("q ic 9999:c5:s1")
            tags.add("local-chain-named-like-a-foreign-chain-segment")
        for _b in range(r.randint(4, 10)):
            k = r.random()
            if k < 0.3:
                g.block()
                continue
            if k < 0.45 and g.hub and r.random() < 0.6:
                # the entry points an account can call directly, offered what only a verified IBTP transaction may bring: in a hub
                # world the receipt for a request relayed from the other BitXHub (no look-up of a local service stands in the way),
                # a request of a service over there to a hub-level service here, and the inter-broker's EmitInterchain with a
                # source id that is not the caller's to use
                who = r.choice(['u0', 'ca1', 'ca2', 'adm1', 'ca9'])
                local = r.choice(["c1:s1", "c2:s1", "c4:s1"])
                kind = r.choice(["receipt", "receipt", "hub-level", "emit", "emit-local"])
                if kind == "receipt":
                    idx = g.hub_next.get(("9999:c5:s1", local), 1)
                    g.ops.append(f"block ibtp ca9 9999:c5:s1 {local} {idx} req {r.choice([0, 0, 5])} - msig3")
                    g.hub_next[("9999:c5:s1", local)] = idx + 1
                    g.ops.append("q dump")
                    g.ops.append(f"block bvm {who} interchain HandleIBTPData ibtp:9999:c5:s1,{local},{idx},{r.choice(['ok', 'ok', 'fail', 'rb'])},0")
                elif kind == "hub-level":
                    g.ops.append("q dump")
                    g.ops.append(f"block bvm {who} interchain HandleIBTPData ibtp:{r.choice(['9999:c5:s1', '9999:9999:svc'])},1356:1356:x,{r.choice([1, 1, 2])},req,0")
                elif kind == "emit":
                    g.ops.append("q dump")
                    # (a source that is no service of THIS hub: an appchain service over there, a hub-level service over there — `X:X:svc`
                    # looks like "a service of the hub itself" only as long as nobody asks which hub)
                    src = r.choice(["9999:c5:s1", "9999:9999:svc", "9999:9999:svc", "7777:7777:svc"])
                    g.ops.append(f"block bvm {who} broker EmitInterchain s:{src} s:{r.choice(['1356:1356:x', '1356:1356:x', '1356:c1:s1'])} s:a,b,c s:x s:y s:z")
                else:
                    g.ops.append("q dump")
                    g.ops.append(f"block bvm {who} broker EmitInterchain s:{r.choice(['1356:c1:s1', '1356:1356:0xabc', '9999:c5:s1'])} s:{r.choice(['1356:c2:s1', '9999:c5:s1', '1356:1356:y'])} s:a,b,c s:x s:y s:z")
                g.ops.append("q dump")
                g.ops.append("q ic 9999:c5:s1")
                tags.add("entry:direct:" + kind)
                continue
            if k < 0.45:
                f, t = r.sample(SERVICES, 2)
                idx = g.next_req.get((f, t), 1)
                g.ops.append("q dump")
                g.ops.append(f"block bvm {r.choice(['u0', 'ca1', 'ca2', 'adm1'])} interchain HandleIBTPData ibtp:{f},{t},{idx},{r.choice(['req', 'ok', 'fail'])},0")
                g.ops.append("q dump")
                tags.add("entry:HandleIBTPData")
                continue
            # one IBTP with a chosen proof kind
            if g.hub and r.random() < 0.5:
                # world option hub=1: traffic with the registered BitXHub 9999 (and the unregistered 7777), the proof kinds
                # tx_hub picks (signatures of too few / enough / unregistered validators, a plain proof, a hash mismatch)
                ws = g.tx_hub().split()
                if r.random() < 0.3:
                    ws[8] = r.choice(["msig1", "msig2", "msig5", "msigd2", "msigd4", "none", "false", "ok"])
            else:
                if r.random() < 0.6:
                    tx = g.tx_req()
                else:
                    tx = g.tx_rcpt()
                ws = tx.split()
                if r.random() < 0.25:
                    ws[2 if ws[5] == "req" else 3] = r.choice(["c9:s1", "c1:s9", "9999:c1:s1"])
                ws[8] = r.choices(["ok", "none", "bad", "false"], [0.35, 0.2, 0.2, 0.25])[0]
            g.ops.append("q dump")
            if r.random() < 0.35:
                # the verdict must not depend on where in a block the IBTP stands: proofs are checked in up to five groups, by one
                # loop for the last group and another for the others (seeding round 26) — the IBTP among 1..10 plain transfers, at
                # any position
                others = [g.tx_xfer() for _ in range(r.randint(1, 10))]
                pos = r.randint(0, len(others))
                # (first the executor's proof-verification fan-out alone over the very transactions of the block — compared with the
                # Lean model of the fan-out, `Bxh.ProofGroups.verifyProofs` —, then the block itself)
                g.ops.append("q proofs " + " | ".join(others[:pos] + [" ".join(ws)] + others[pos:]))
                g.ops.append("block " + " | ".join(others[:pos] + [" ".join(ws)] + others[pos:]))
                tags.add("proof-in-a-full-block:" + ws[8] + (":last" if pos == len(others) else ":not-last"))
            else:
                g.ops.append("block " + " ".join(ws))
            g.ops.append("q dump")
            tags.add("proof:" + ws[8])
            g.observe()
        hs.append(History(g.ops, tags=tags))
    return hs


def mon_c03(h, obs):
    hits = []
    steps = mon_exec.parse_trace(h, obs)
    master = {}        # chain -> verdict of the master rule as last read back (GetMasterRule), overriding the world's default
    forbidden = set()  # chains whose logout was approved
    interhub = any("s:relaychain" in o and "trust:1,2,3,4" in o for o in h.ops) or " hub=1" in h.ops[0]
    for i, st in enumerate(steps):
        if st[0] == "q" and st[1] == "obj" and st[2] == "appchain" and len(st[4]) > 3:
            m = re.search(r"status=(\S+)", st[3] or "")
            if m and m.group(1) == "forbidden":
                forbidden.add(st[4][3])        # a logged-out appchain has no master rule: nothing it sends is verified
            continue
        if st[0] == "q" and st[1] == "obj" and st[2] == "rule" and len(st[4]) > 3:
            m = re.search(r"status=(\S+) addr=(\S+)", st[3])
            if m:
                master[st[4][3]] = (m.group(2).lower() == RULES["happy"]) and m.group(1) == "available"
                if st[4][3] in forbidden and m.group(1) == "available":
                    hits.append(Hit("C03/logged-out-appchain-keeps-its-master-rule", f"appchain {st[4][3]} is logged out (forbidden) but {m.group(2)} is still bound to it as an available master rule: its IBTPs keep passing the proof check", detail=" ".join(st[4])))
            continue
        if st[0] != "block" or not st[1].ok:
            continue
        b = st[1]
        bracket = i > 0 and i + 1 < len(steps) and steps[i - 1][0] == "q" and steps[i - 1][1] == "dump" and steps[i + 1][0] == "q" and steps[i + 1][1] == "dump"
        d0 = mon_exec.parse_dump(steps[i - 1][3]) if bracket else None
        d1 = mon_exec.parse_dump(steps[i + 1][3]) if bracket else None
        for j, (tx, rc) in enumerate(zip(b.txs, b.rcs)):
            if tx.kind == "ibtp":
                origin = (tx.frm if tx.typ == "req" else tx.to)
                parts = origin.split(":")
                chain = parts[0] if len(parts) == 2 else (parts[1] if len(parts) == 3 and parts[0] == "1356" else None)
                # (the bytes of another hub's multi-signature proof are bytes like any others to a local chain's rule)
                verified = (tx.proof == "ok" or tx.proof.startswith("msig")) and chain not in forbidden and master.get(chain, ORIGIN_OK.get(chain, False)) and tx.typ in ("req", "ok", "fail", "rb")
                if len(parts) == 3 and parts[0] != "1356":
                    # relayed from another BitXHub: verified by more than (n-1)/3 signatures of that hub's registered validators —
                    # the only such hub of these histories is 9999 with four validators (proof kind msig<k>: k valid signatures)
                    verified = interhub and parts[0] == "9999" and tx.proof.startswith("msig") and tx.proof[4:].isdigit() and int(tx.proof[4:]) >= 2   # (msigd<k>: one signer k times, never enough)
                if rc.ok and not verified:
                    hits.append(Hit(f"C03/unverified-ibtp-accepted/{tx.proof}", f"tx {j} of block {b.h}: proof={tx.proof} origin={origin} got a successful receipt", detail=b.op))
                if not verified and j in {v[0] for vs in b.counter.values() for v in vs}:
                    hits.append(Hit(f"C03/unverified-ibtp-listed/{tx.proof}", f"tx {j} of block {b.h} is listed in the delivery set", detail=b.op))
                if not verified and len(b.txs) == 1 and d0 is not None and d1 is not None and not b.rawtimeout:
                    ch = [k for k in sorted(set(d0) | set(d1)) if d0.get(k) != d1.get(k) and not k.startswith("bal/") and not k.startswith("nonce/")]
                    if ch:
                        hits.append(Hit(f"C03/unverified-ibtp-changed-state/{mon_exec.key_class(ch[0])}", f"block {b.h}: proof={tx.proof} origin={origin} changed {ch[:4]}", detail=b.op))
            elif tx.kind == "bvm" and ((tx.contract == "interchain" and tx.method in ("HandleIBTPData", "HandleIBTP")) or
                                       (tx.contract == "broker" and tx.method == "EmitInterchain" and tx.args and not tx.args[0].startswith("s:1356:1356:"))):
                # (EmitInterchain: the interchain request of one of the hub's own hub-level services; any other source id is a forged one)
                if rc.ok:
                    hits.append(Hit("C03/ibtp-processed-without-proof-check/" + tx.method, f"direct call by {tx.signer} succeeded", detail=b.op))
                if len(b.txs) == 1 and d0 is not None and d1 is not None and not b.rawtimeout:
                    ch = [k for k in sorted(set(d0) | set(d1)) if d0.get(k) != d1.get(k) and (k.startswith("interchain/") or k.startswith("txmgr/"))]
                    if ch:
                        hits.append(Hit("C03/ibtp-processed-without-proof-check/state", f"direct call by {tx.signer} changed {ch[:4]}", detail=b.op))
    return hits


def tags_c03(h, obs):
    t = set()
    for st in mon_exec.parse_trace(h, obs):
        if st[0] == "block" and st[1].ok:
            for tx, rc in zip(st[1].txs, st[1].rcs):
                if tx.kind == "ibtp":
                    t.add(f"ibtp:{tx.proof}:{'ok' if rc.ok else rc.ret}")
    return t


def gen_msig(rng, n, tier):
    import random as _r
    hs = []
    names = list("abcdefghijkl")
    # exhaustive small part: up to 4 validators, up to 3 signatures over {a, b, x(unregistered), junk}
    import itertools
    ops = []
    for nv in range(0, 5):
        vs = names[:nv]
        for k in range(0, 4):
            for sg in itertools.product(["a", "b", "z", "junk", "w:a", "m:a"], repeat=k):
                ops.append(f"msig {','.join(vs) or '[]'} {','.join(sg) or '-'}")
    ops += ["msig nil a", "msig bad a", "msig nil -"]
    hs.append(History(ops, tags={"msig", "exhaustive-small"}))
    for _ in range(n):
        r = _r.Random(rng.getrandbits(64))
        ops = []
        for _ in range(40):
            nv = r.choice([0, 1, 2, 3, 4, 5, 6, 7, 8, 10, 12])
            vs = [r.choice(names[:max(nv, 1)]) if r.random() < 0.15 else names[i] for i in range(nv)]
            th = (max(len(vs), 1) - 1) // 3
            k = r.choice([0, 1, th, th + 1, th + 1, th + 2, nv, nv + 2])
            sg = []
            for _ in range(k):
                q = r.random()
                if q < 0.5 and vs:
                    sg.append(r.choice(vs))
                elif q < 0.6 and vs:
                    sg.append("m:" + r.choice(vs))
                elif q < 0.75:
                    sg.append(r.choice(["x0", "x1", "y"]))
                elif q < 0.85:
                    sg.append(r.choice(["junk", "short"]))
                else:
                    sg.append("w:" + r.choice(names[:max(nv, 1)]))
            ops.append(f"msig {','.join(vs) or '[]'} {','.join(sg) or '-'}")
        hs.append(History(ops, tags={"msig"}))
    return hs


def mon_msig(h, obs):
    hits = []
    for op, o in zip(h.ops, obs):
        ws = op.split()
        if ws[0] != "msig" or ws[1] in ("nil", "bad"):
            continue
        vs = [] if ws[1] == "[]" else ws[1].split(",")
        sg = [] if ws[2] == "-" else ws[2].split(",")
        # junk / short / w:<k> / unregistered names never equal a validator name; m:<k> is another signature by k
        good = {(s[2:] if s.startswith("m:") else s) for s in sg if (s[2:] if s.startswith("m:") else s) in vs}
        need = (len(vs) - 1) // 3 if vs else 0
        want_ok = len(good) > need
        if (o == "ok") != want_ok:
            hits.append(Hit("C03/multisign-threshold-wrong", f"{op}: {len(good)} distinct registered signers, threshold {need} -> {o}"))
        if o == "false-nil":
            hits.append(Hit("C03/multisign-false-without-error", op))
    return hits
