"""Generator + model-free monitors for the `pool` engine (C18, C19)."""
import re

from .core import History
from .runner import Hit

ACCTS = ["a0", "a1", "a2", "a3"]
FOREIGN = "a3"   # account whose transactions are committed by blocks of other leaders


class PoolGen:
    def __init__(self, rng, timed=None):
        r = self.r = rng
        self.batch = r.choice([1, 2, 2, 3, 4])
        self.poolsz = r.choice([3, 6, 10, 50])
        self.timed = (r.random() < 0.15) if timed is None else timed
        self.seq = r.choice([0, 5])
        self.ledger = {a: r.choice([0, 0, 1, 3]) for a in ACCTS}
        self.ops = [f"new batch={self.batch} pool={self.poolsz} timed={int(self.timed)} seq={self.seq} ledger=" +
                    ",".join(f"{a}:{n}" for a, n in self.ledger.items())]
        self.tags = set()
        self.hctr = 0
        self.group = 0
        self.next_nonce = dict(self.ledger)   # next fresh nonce per account (generator's view)
        self.foreign_next = self.ledger[FOREIGN]
        self.hashes = []                      # all hash names handed out
        self.given = []                       # (a, n, h)
        self.uncommitted = []                 # hashes returned in batches, not yet committed (filled by obs? no: generator cannot see) -> commit by guess
        self.batched_guess = []

    def newhash(self):
        self.hctr += 1
        h = f"h{self.hctr}"
        self.hashes.append(h)
        return h

    def tx(self):
        r = self.r
        a = r.choice(ACCTS)
        k = r.random()
        if a == FOREIGN:
            # resend of an old tx of the foreign account (stale w.r.t. the chain) or a far-future one
            n = r.choice([max(0, self.foreign_next - 1), max(0, self.foreign_next - 2), self.foreign_next + 5])
            h = self.newhash()
            self.given.append((a, n, h))
            self.tags.add("tx:foreign-account")
            return f"{a}:{n}:{h}:{r.randrange(1, 40)}"
        base = self.next_nonce[a]
        if k < 0.55:
            n = base
            self.next_nonce[a] = base + 1
        elif k < 0.7:
            n = base + r.choice([1, 2, 3])          # gap (parked)
            self.tags.add("tx:gap")
        elif k < 0.8:
            n = max(0, base - r.choice([1, 2]))     # stale or conflicting nonce
            self.tags.add("tx:stale-or-conflict")
        elif k < 0.9 and self.given:
            a, n, _ = r.choice(self.given)          # same (account, nonce), new hash: supersede attempt
            self.tags.add("tx:same-pointer")
        else:
            n = base
            self.next_nonce[a] = base + 1
        if self.given and r.random() < 0.06:
            a, n, h = r.choice(self.given)          # true duplicate: same hash, same pointer
            self.tags.add("tx:dup-hash")
        else:
            h = self.newhash()
        ts = r.choice([1, 2, 3, 5, 8, 13, 21, r.randrange(1, 40)])
        self.given.append((a, n, h))
        return f"{a}:{n}:{h}:{ts}"

    def obs(self):
        self.ops.append("obs accounts=" + ",".join(ACCTS) + " hashes=" + ",".join(self.hashes))

    def step(self):
        r = self.r
        k = r.random()
        if k < 0.5:
            self.group += 1
            leader = int(r.random() < 0.6)
            local = int(r.random() < 0.5)
            txs = [self.tx() for _ in range(r.choice([1, 1, 2, 3, 5]))]
            self.ops.append(f"proc leader={leader} local={local} g={self.group} " + " ".join(txs))
        elif k < 0.66:
            self.ops.append("gen")
        elif k < 0.84:
            r2 = r.random()
            if r2 < 0.7:
                self.ops.append("commitlast all")
            elif r2 < 0.8:
                self.ops.append(f"commitlast first:{r.choice([1, 1, 2])}")
                self.tags.add("commit:partial")
            elif r2 < 0.88:
                self.ops.append(f"commitlast last:{r.choice([1, 1, 2])}")
                self.tags.add("commit:partial-skipping-lower-nonces")
            elif r2 < 0.94:
                self.ops.append("commitlast second")
                self.tags.add("commit:batches-out-of-order")
            else:
                self.ops.append("commitlast rev")
                self.tags.add("commit:out-of-order")
        elif k < 0.88:
            # a block of another leader commits the next nonce of the foreign account; this node never had that tx
            self.ops.append(f"fcommit {FOREIGN} {self.foreign_next}")
            self.foreign_next += 1
            self.tags.add("commit:foreign")
        elif k < 0.9:
            self.ops.append("commit " + self.newhash())          # unknown hash
        elif k < 0.92:
            # the follower case: a block of another leader commits ready transactions this pool holds but never batched
            # itself (of an account with nothing batched here), while batches of its own may still be uncommitted; then the
            # pool is asked for a batch.  Which transactions those are depends on the pool state: the op lets the harness
            # and the model pick them by the same rule
            self.ops.append(f"commitready {r.choice([1, 2, 2, 3])}")
            self.tags.add("commit:held-never-batched")
            self.obs()
            self.ops.append("gen")
        elif k < 0.95:
            if r.random() < 0.2:
                # the age rule with a tolerance nothing can reach: "never" (the largest duration) or centuries (seeding round 28:
                # arrival time + tolerance must not be computed in 64 bits)
                tol = r.choice(["max", "250y"])
                self.ops.append(f"evict cut=0 tol={tol}")
                self.tags.add("evict:tolerance-" + tol)
            else:
                self.ops.append(f"evict cut={r.choice([self.group, max(0, self.group - 1), max(0, self.group - 3), 0])}")
            self.tags.add("evict")
        elif k < 0.98:
            self.ops.append(f"setseq {r.choice([0, 3, 9])}")
        else:
            # restart: the ledger holds what the chain committed; the generator cannot know it exactly, the op carries a
            # plausible value (>= the initial ledger), and the monitor takes the op's value as the truth
            self.ledger = {a: max(self.ledger[a], r.choice([self.ledger[a], self.next_nonce[a]])) for a in ACCTS}
            self.ledger[FOREIGN] = self.foreign_next
            self.next_nonce = {a: max(self.next_nonce[a], self.ledger[a]) for a in ACCTS}
            self.ops.append(f"restart seq={r.choice([0, 7])} ledger=" + ",".join(f"{a}:{n}" for a, n in self.ledger.items()))
            self.tags.add("restart")
        self.obs()

    def history(self, n):
        self.obs()
        for _ in range(n):
            self.step()
        # finite continuation of C19: generate and commit what was generated
        self.ops.append("mark continuation")
        for _ in range(60):
            self.ops.append("gen")
            self.ops.append("commitlast all")
        self.obs()
        return History(self.ops, tags=self.tags)


def scripted_partial_commits_timed(r):
    """timed block generation (the batch timer, not the ready counter, asks for batches): one account's transactions fill several
    batches, each of which is committed by a notification that names only part of it (the last transaction, or the first), while
    another account's transactions wait; then the timer fires again: the batch for the waiting account keeps to the configured size"""
    g = PoolGen(r, timed=True)
    while g.batch not in (2, 3):
        g = PoolGen(r, timed=True)
    bs = g.batch
    a, b = r.sample([x for x in ACCTS if x != FOREIGN], 2)
    nb = r.choice([2, 3, 3, 4])                 # batches of account a
    left = nb * (bs - 1)                        # transactions of those batches no notification will have named
    g.group += 1
    txs = []
    for acct, cnt in ((a, nb * bs), (b, r.choice([left, left, left, left + 1, max(1, left - 1), bs + 1]))):
        for _ in range(cnt):
            n = g.next_nonce[acct]
            g.next_nonce[acct] = n + 1
            h = g.newhash()
            g.given.append((acct, n, h))
            txs.append(f"{acct}:{n}:{h}:{len(txs) + 1}")
    g.ops.append(f"proc leader=1 local=1 g={g.group} " + " ".join(txs))
    g.obs()
    part = r.choice(["last", "last", "first"])
    a_hashes = [h for (acct, n, h) in g.given if acct == a]        # in nonce order = the order they are batched in
    for i in range(nb):
        g.ops.append("gen")
        # the notification names one transaction of the batch just built (and none of any older batch)
        g.ops.append("commit " + (a_hashes[(i + 1) * bs - 1] if part == "last" else a_hashes[i * bs]))
        g.obs()
    for _ in range(3):
        g.ops.append("gen")
        g.obs()
    g.tags.add("scripted-partial-commits-timed:" + part)
    return g.history(r.randint(0, 6))


def gen(rng, n, tier, steps=(8, 40)):
    import random as _r
    hs = [PoolGen(_r.Random(rng.getrandbits(64))).history(rng.randint(*steps)) for _ in range(n)]
    for _ in range(max(3, n // 40)):
        hs.append(scripted_partial_commits_timed(_r.Random(rng.getrandbits(64))))
    return hs


# --------------------------------------------------------------------------------------------- monitors

BATCH = re.compile(r"^batch=\[(.*)\]@(\d+)$")
OBS = re.compile(r"^pending=(\d) full=(\d) pn=\{(.*?)\} has=\{(.*?)\} prio=(\d+) park=(\d+) batched=(\d+) hashes=(\d+) nonbatch=(\d+)$")


def mon_pool(h, obs, prop):
    hits = []

    def hit(p, fp, msg, detail=None):
        if p == prop:
            hits.append(Hit(fp, msg, detail=detail))

    given = {}          # (a,n) -> hashes given, in order
    by_hash = {}        # hash -> (a,n)
    chain_commit = {}   # account -> committed nonce on the chain
    batched = {}        # (a,n) -> hash batched by this node and not committed yet
    committed = set()   # hashes committed
    ever_batched = set()
    admitted = {}       # hash -> True once GetTransaction returned it under its own hash
    evict_since = {}    # hash -> an evict op ran since it was last seen
    group_of = {}       # hash -> logical arrival time (group of the proc op that first offered it)
    evict_cut = {}      # hash -> largest age cut of the evict ops since it was last seen
    last_seq = None
    timed = False
    batch_size = 0
    in_continuation = False
    rounds = 0
    ready_at_mark = 0
    foreign_seen = False
    for op, o in zip(h.ops, obs):
        ws = op.split()
        k = ws[0]
        if k in ("new", "restart"):
            kvs = dict(x.split("=", 1) for x in ws[1:] if "=" in x)
            if k == "new":
                batch_size = int(kvs["batch"]) or 500
                timed = kvs.get("timed") == "1"
            chain_commit = {p.split(":")[0]: int(p.split(":")[1]) for p in kvs["ledger"].split(",") if ":" in p}
            batched = {}
            given, by_hash, admitted = {}, {}, {}
            committed, ever_batched, evict_since = set(), set(), {}
            last_seq = int(kvs.get("seq", 0))
            continue
        if k == "mark":
            in_continuation = True
            rounds = 0
            continue
        if k == "gen" and in_continuation:
            rounds += 1
        if k == "setseq":
            last_seq = int(ws[1])
            continue
        if k == "proc":
            for s in ws[4:]:
                a, n, hh, ts = s.split(":")
                given.setdefault((a, int(n)), []).append(hh)
                by_hash.setdefault(hh, (a, int(n)))
                gkv = [w for w in ws[1:4] if w.startswith("g=")]
                if gkv:
                    group_of.setdefault(hh, int(gkv[0][2:]))
        if k in ("commitlast", "commitready", "commit") and o.startswith("ok"):
            # (`commit h…` names the hashes itself; the other two answer with the hashes they picked)
            for hh in (ws[1:] if k == "commit" else (o[3:].split(",") if len(o) > 3 else [])):
                ptr = by_hash.get(hh)
                committed.add(hh)
                if ptr:
                    batched.pop(ptr, None)
                    chain_commit[ptr[0]] = max(chain_commit.get(ptr[0], 0), ptr[1] + 1)
                    # a commit of nonce n implies everything below is committed too (blocks are gap-free)
                    for (aa, nn) in list(batched):
                        if aa == ptr[0] and nn <= ptr[1]:
                            del batched[(aa, nn)]
        if k == "fcommit":
            chain_commit[ws[1]] = max(chain_commit.get(ws[1], 0), int(ws[2]) + 1)
            foreign_seen = True
        if k == "evict":
            cut = int(ws[1].split("=")[1]) if len(ws) > 1 and "=" in ws[1] else 0
            for hh in admitted:
                evict_since[hh] = True
                evict_cut[hh] = max(evict_cut.get(hh, -1), cut)
        m = BATCH.match(o) if k in ("proc", "gen") else None
        if m:
            items = m.group(1).split()
            seq = int(m.group(2))
            if last_seq is not None and seq != last_seq + 1:
                hit("C18", "C18/seqno-not-consecutive", f"batch height {seq} after {last_seq}", op)
            last_seq = seq
            if len(items) > batch_size:
                fp = "C18/batch-exceeds-size/timed-zero-counter" if timed else "C18/batch-exceeds-size"
                hit("C18", fp, f"batch of {len(items)} transactions exceeds the configured size {batch_size}", o)
            per_acct = {}
            for it in items:
                if it == "nil":
                    hit("C18", "C18/nil-in-batch", "a batch contains a nil transaction", o)
                    continue
                a, n, hh = it.split(":")
                n = int(n)
                g = given.get((a, n), [])
                if hh not in g:
                    hit("C18", "C18/batched-tx-not-given", f"batched {it} was never given for that account and nonce", o)
                elif g and hh != g[-1] and hh not in admitted:
                    pass
                if (a, n) in batched:
                    hit("C18", "C18/batched-twice", f"({a},{n}) batched again before it was committed", o)
                if n < chain_commit.get(a, 0):
                    fp = "C18/batched-below-committed-nonce/after-foreign-commit" if (a == FOREIGN and foreign_seen) else "C18/batched-below-committed-nonce"
                    hit("C18", fp, f"({a},{n}) batched although nonce {chain_commit.get(a, 0)} is committed on the chain", o)
                per_acct.setdefault(a, []).append(n)
                batched[(a, n)] = hh
                ever_batched.add(hh)
            for a, ns in per_acct.items():
                allb = sorted(n for (aa, n) in batched if aa == a)
                c = chain_commit.get(a, 0)
                if a == FOREIGN and foreign_seen:
                    continue   # already reported above; gap analysis is meaningless on a stale view
                if allb and allb != list(range(allb[0], allb[0] + len(allb))):
                    hit("C18", "C18/nonce-gap-in-batches", f"account {a}: batched-uncommitted nonces {allb} are not consecutive", o)
                elif allb and allb[0] > c:
                    hit("C18", "C18/nonce-gap-in-batches", f"account {a}: batched nonces start at {allb[0]} but the committed nonce is {c}", o)
                if ns != sorted(ns):
                    hit("C18", "C18/nonce-order-in-batch", f"account {a}: nonces in the batch are out of order: {ns}", o)
        mo = OBS.match(o) if k == "obs" else None
        if mo:
            pending, full = mo.group(1) == "1", mo.group(2) == "1"
            pn = {x.split(":")[0]: int(x.split(":")[1]) for x in mo.group(3).split()}
            has = {}
            for x in mo.group(4).split():
                hh, v = x.split(":", 1)
                has[hh] = None if v == "-" else v.split("/")
            prio, park, nbatched, nhashes, nonbatch = (int(mo.group(i)) for i in range(5, 10))
            present = {}
            for hh, v in has.items():
                if v is not None and v[2] == hh:
                    admitted[hh] = True
            for hh, v in has.items():
                ptr = by_hash.get(hh)
                if v is not None:
                    if v[2] != hh:
                        hit("C19", "C19/get-returns-other-tx", f"GetTransaction({hh}) returned transaction {v[2]} (account {v[0]} nonce {v[1]})", o)
                    else:
                        admitted[hh] = True
                        evict_since[hh] = False
                        evict_cut.pop(hh, None)
                    present.setdefault(v[0], set()).add(int(v[1]))
                elif hh in admitted and ptr:
                    a, n = ptr
                    later = given.get(ptr, [])[given.get(ptr, []).index(hh) + 1:]
                    sup = any(x != hh and x in admitted for x in later)
                    gone_ok = hh in committed or n < chain_commit.get(a, 0) or sup
                    if not gone_ok:
                        if evict_since.get(hh) and hh not in ever_batched:
                            # evicted by the age rule (only allowed for non-ready, non-batched txs; readiness is checked by the pn
                            # clause) — and only if the transaction itself is old enough
                            if hh in group_of and group_of[hh] > evict_cut.get(hh, -1):
                                hit("C19", "C19/tx-evicted-before-its-age", f"transaction {hh} ({a},{n}) arrived at time {group_of[hh]} and was removed by an eviction "
                                    f"of transactions up to time {evict_cut.get(hh)}", o)
                        else:
                            hit("C19", "C19/admitted-tx-lost", f"transaction {hh} ({a},{n}) was held by the pool and is gone without commit, supersession or eviction", o)
                    del admitted[hh]
            # the same count without trusting the pool's own marks: held transactions in the gap-free run from the committed nonce that
            # no observed batch has carried since (a mark without a batch hides a transaction from every later batch)
            true_unbatched = 0
            for a, held in present.items():
                if a == FOREIGN and foreign_seen:
                    continue
                nn = chain_commit.get(a, 0)
                while nn in held:
                    if (a, nn) not in batched:
                        true_unbatched += 1
                    nn += 1
            if true_unbatched > 0 and not pending and not timed and prio - nbatched <= 0:
                hit("C19", "C19/pending-flag-missed/marked-batched-but-in-no-batch", f"{true_unbatched} ready transactions were in no batch since their last commit, yet HasPendingRequest is false "
                    f"(the pool counts {prio} ready, {nbatched} batched)", o)
            if in_continuation and rounds * batch_size >= ready_at_mark + batch_size and true_unbatched > 0 and prio - nbatched <= 0 and not foreign_seen:
                hit("C19", "C19/ready-tx-never-batched/marked-batched-but-in-no-batch", f"after {rounds} rounds of generate+commit {true_unbatched} ready transactions are still in no batch", o)
            # pending flag: a ready, not yet batched transaction exists  =>  HasPendingRequest
            if prio - nbatched > 0 and not pending and not timed:
                hit("C19", "C19/pending-flag-missed", f"{prio - nbatched} ready unbatched transactions but HasPendingRequest is false (counter {nonbatch})", o)
            # pending nonce = least nonce >= committed nonce that is not held
            for a, v in pn.items():
                c = chain_commit.get(a, 0)
                exp = c
                while exp in present.get(a, set()):
                    exp += 1
                if v != exp:
                    if a == FOREIGN and foreign_seen:
                        hit("C19", "C19/pending-nonce-stale-after-foreign-commit", f"pending nonce of {a} is {v} but the chain committed up to {c}", o)
                    else:
                        hit("C19", "C19/pending-nonce-wrong", f"pending nonce of {a} is {v}, expected {exp} (committed {c}, held {sorted(present.get(a, set()))})", o)
            if not in_continuation:
                ready_at_mark = prio
            if in_continuation and rounds * batch_size >= ready_at_mark + batch_size and prio - nbatched > 0 and not foreign_seen:
                hit("C19", "C19/ready-tx-never-batched", f"after {rounds} rounds of generate+commit {prio - nbatched} ready transactions are still unbatched", o)
    return hits


def mon_c18(h, obs):
    return mon_pool(h, obs, "C18")


def mon_c19(h, obs):
    return mon_pool(h, obs, "C19")


def tags_pool(h, obs):
    t = set()
    for op, o in zip(h.ops, obs):
        if o.startswith("batch="):
            t.add("batch")
        if o.startswith("removed=") and o != "removed=0":
            t.add("evicted")
    return t
