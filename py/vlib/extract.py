"""Tie (A): regenerate lean/Bxh/Gen from the current /repo tree and diff the facts against the
committed baseline."""
import json
import os
import time

from . import core
from .core import log

EXTRACT_SRC = os.path.join(core.VERIF, "go", "extract")
EXTRACT_BIN = os.path.join(core.CACHE, "extract")
GEN_DIR = os.path.join(core.LEAN, "Bxh", "Gen")
FACTS = os.path.join(core.CACHE, "facts.json")
BASELINE = os.path.join(core.VERIF, "facts.baseline.json")

_done = {}


def _run_extractor():
    if "facts" in _done:
        return _done["facts"], _done["err"]
    os.makedirs(core.CACHE, exist_ok=True)
    t0 = time.time()
    rc, out = core.sh(["go", "build", "-o", EXTRACT_BIN, "."], cwd=EXTRACT_SRC, env=core.GOENV, timeout=1200)
    if rc != 0:
        _done["facts"], _done["err"] = None, "extractor build failed: " + out[-800:]
        return _done["facts"], _done["err"]
    rc, out = core.sh([EXTRACT_BIN, core.REPO, GEN_DIR, FACTS], env=core.GOENV, timeout=1200)
    log(f"[extract] rc={rc} {time.time()-t0:.1f}s")
    if rc != 0:
        _done["facts"], _done["err"] = None, "extractor failed: " + out[-800:]
    else:
        _done["facts"], _done["err"] = json.load(open(FACTS)), None
    return _done["facts"], _done["err"]


def diff_items(base, cur):
    d = []
    for k in sorted(set(base) | set(cur)):
        if base.get(k) != cur.get(k):
            d.append({"item": k, "baseline": base.get(k), "current": cur.get(k)})
    return d


def run(spec):
    """Returns (ok, info) where info = {broken: [...], diff: [...], summary: {...}}"""
    if not spec.facts:
        return True, {}
    facts, err = _run_extractor()
    info = {"broken": [], "diff": None, "summary": None}
    if facts is None:
        info["broken"].append({"name": "fact-extractor", "text": err})
        return False, info
    used = set(spec.facts)
    for b in facts.get("broken") or []:
        if b["name"] in used or b["name"].split("/")[0] in used:
            info["broken"].append(b)
    base = json.load(open(BASELINE)) if os.path.exists(BASELINE) else {"items": {}}
    items = {k: v for k, v in facts["items"].items() if k in used}
    bitems = {k: v for k, v in base.get("items", {}).items() if k in used}
    info["diff"] = diff_items(bitems, items)
    info["summary"] = {k: (len(v) if hasattr(v, "__len__") else v) for k, v in items.items()}
    return not info["broken"], info


def setup():
    facts, err = _run_extractor()
    if facts is None:
        print(err)
        return 1
    return 0


def write_baseline():
    facts, err = _run_extractor()
    if facts is None:
        raise SystemExit(err)
    with open(BASELINE, "w") as f:
        json.dump(facts, f, indent=1, sort_keys=True)
