"""C15: governance proposals and votes on the real contracts (exec engine), a monitor written from the property text, and
trace validation of every vote step against the Lean ballot state machine (`bxhmodel govstep`)."""
import re
import subprocess

from . import core
from .core import History
from .runner import Hit
from . import mon_exec

ADMINS = ["adm0", "adm1", "adm2", "adm3"]
# a role counts as available while it is `available` or while a freeze of it is only proposed (`freezing`): roleAvailableMap in role.go
ROLE_AVAILABLE = {"available", "freezing"}
PRELUDE_COUNTS = {"ca1": 3, "ca2": 4, "ca3": 2, "ca4": 2}     # proposals each creator already made in the world prelude
HAPPY = "0x00000000000000000000000000000000000000a2"


class GovGen:
    def __init__(self, r):
        self.r = r
        self.ops = []
        self.tags = {"c15"}
        self.counts = dict(PRELUDE_COUNTS)
        self.props = []        # (ref, kind, obj-module, obj-id)
        self.newchain = 5
        self.funded = set()

    def fund(self, who):
        if who not in self.funded and not who.startswith("adm") and who not in ("ca1", "ca2", "ca3", "ca4", "u0", "u1", "u2", "u3"):
            self.ops.append(f"block xfer adm0 {who} 100000000000")
            self.funded.add(who)

    def submit(self, creator, call, kind, mod, obj):
        self.fund(creator)
        k = self.counts.get(creator, 0)
        ref = f"@{creator}-{k}"
        for a in ADMINS:
            self.ops.append(f"q obj role @{a}")      # who is an available governance admin when the proposal is created
        self.ops.append(f"propose {creator}")      # lets the harness tie this attempt's number to the proposal it creates (if any)
        self.ops.append(f"block bvm {creator} {call}")
        self.ops.append(f"q prop {ref}")
        self.ops.append(f"q obj {mod} {obj}")
        self.counts[creator] = k + 1      # a failed submission makes later refs of this creator point at nothing: harmless
        self.props.append((ref, kind, mod, obj))
        self.tags.add("propose:" + kind)

    def propose(self):
        r = self.r
        k = r.random()
        if k < 0.35:
            c = f"c{self.newchain}"
            ca = f"ca{self.newchain}"
            self.newchain += 1
            self.submit(ca, f"appchain RegisterAppchain s:{c} s:name-{c} x: s:ETH x: s:0xbroker s:desc s:{HAPPY} s:url s:@{ca} s:reason",
                        "appchain-register", "appchain", c)
        elif k < 0.5:
            c = r.choice(["c1", "c2", "c4"])
            self.submit(r.choice(ADMINS), f"appchain FreezeAppchain s:{c} s:reason", "appchain-freeze", "appchain", c)
        elif k < 0.6:
            c = r.choice(["c2", "c4"])
            self.submit("ca" + c[1:], f"appchain LogoutAppchain s:{c} s:reason", "appchain-logout", "appchain", c)
        elif k < 0.64:
            # the chain's own admin changes the chain's name: an update that needs a vote (the chain is `updating`, its services
            # are paused meanwhile; approved: the new name and `available`, rejected: back)
            c = r.choice(["c1", "c2", "c4"])
            self.upd = getattr(self, "upd", 0) + 1
            self.submit("ca" + c[1:], f"appchain UpdateAppchain s:{c} s:name-{c}-v{self.upd} s:desc x: s:@ca{c[1:]} s:reason", "appchain-update", "appchain", c)
        elif k < 0.7:
            c = r.choice(["c1", "c2", "c4"])
            self.submit(r.choice(ADMINS), f"appchain ActivateAppchain s:{c} s:reason", "appchain-activate", "appchain", c)
        elif k < 0.8:
            g = r.choice(["g1", "g2"])
            self.fund(g)
            self.submit(r.choice(ADMINS), f"role RegisterRole s:@{g} s:governanceAdmin s:~ s:reason", "role-register", "role", "@" + g)
        elif k < 0.9:
            a = r.choice(["adm1", "adm2", "adm3"])
            op = r.choice(["FreezeRole", "FreezeRole", "ActivateRole", "LogoutRole"])
            self.submit(r.choice([x for x in ADMINS if x != a]), f"role {op} s:@{a} s:reason", "role-" + op[:-4].lower(), "role", "@" + a)
        else:
            sid = f"s{r.randint(5, 9)}"
            self.submit("ca1", f"service RegisterService s:c1 s:{sid} s:svc-c1-{sid} s:CallContract s:intro u:1 s:~ s:details s:reason",
                        "service-register", "service", f"c1:{sid}")

    def vote(self):
        r = self.r
        if not self.props:
            return
        ref, kind, mod, obj = r.choice(self.props[-3:])
        k = r.random()
        if k < 0.8:
            voter = r.choice(ADMINS)
        elif k < 0.9:
            voter = r.choice(["u0", "ca1", "ca2"])
            self.tags.add("vote:outsider")
        else:
            voter = r.choice(["g1", "g2"])
            self.fund(voter)
            self.tags.add("vote:candidate")
        b = r.choices(["approve", "reject", "garbage", "Approve"], [0.6, 0.3, 0.05, 0.05])[0]
        self.ops.append(f"q prop {ref}")
        self.ops.append(f"q obj role @{voter}")
        self.ops.append(f"q obj {mod} {obj}")
        self.ops.append(f"block bvm {voter} gov Vote s:{ref} s:{b} s:r")
        self.ops.append(f"q prop {ref}")
        self.ops.append(f"q obj {mod} {obj}")
        for (ref2, _, _, _) in self.props[-3:]:
            if ref2 != ref:
                self.ops.append(f"q prop {ref2}")

    def withdraw(self):
        r = self.r
        if not self.props:
            return
        ref, kind, mod, obj = r.choice(self.props[-3:])
        creator = ref[1:].rsplit("-", 1)[0]
        who = creator if r.random() < 0.8 else r.choice(ADMINS + ["u0"])
        self.ops.append(f"q prop {ref}")
        self.ops.append(f"block bvm {who} gov WithdrawProposal s:{ref} s:reason")
        self.ops.append(f"q prop {ref}")
        self.ops.append(f"q obj {mod} {obj}")
        self.tags.add("withdraw")


def scripted_frozen_admin(g):
    """an administrator is frozen (approved), proposals are created while he is unavailable, he is activated again and votes
    on them: only administrators who were eligible when a proposal was created may vote on it"""
    r = g.r
    x = r.choice(["adm1", "adm2", "adm3"])
    others = [a for a in ADMINS if a != x]
    g.submit(others[0], f"role FreezeRole s:@{x} s:reason", "role-freeze", "role", "@" + x)
    ref = g.props[-1][0]
    for v in others:
        g.ops.append(f"q prop {ref}")
        g.ops.append(f"q obj role @{v}")
        g.ops.append(f"block bvm {v} gov Vote s:{ref} s:approve s:r")
    g.ops.append(f"q prop {ref}")
    g.ops.append(f"q obj role @{x}")
    c = r.choice(["c1", "c2", "c4"])
    g.submit(others[1], f"appchain FreezeAppchain s:{c} s:reason", "appchain-freeze", "appchain", c)
    p_ref, _, p_mod, p_obj = g.props[-1]
    g.submit(others[0], f"role ActivateRole s:@{x} s:reason", "role-activate", "role", "@" + x)
    a_ref = g.props[-1][0]
    for v in others:
        g.ops.append(f"q prop {a_ref}")
        g.ops.append(f"q obj role @{v}")
        g.ops.append(f"block bvm {v} gov Vote s:{a_ref} s:approve s:r")
    g.ops.append(f"q prop {a_ref}")
    g.ops.append(f"q obj role @{x}")
    # the re-activated administrator and one other vote on the proposal created while he was frozen
    for v in (x, others[2]):
        g.ops.append(f"q prop {p_ref}")
        g.ops.append(f"q obj role @{v}")
        g.ops.append(f"q obj {p_mod} {p_obj}")
        g.ops.append(f"block bvm {v} gov Vote s:{p_ref} s:approve s:r")
        g.ops.append(f"q prop {p_ref}")
        g.ops.append(f"q obj {p_mod} {p_obj}")
    g.tags.add("frozen-admin-scenario")


def scripted_paused_electorate(g):
    """the electorate changes while a proposal is paused: a low-priority proposal about an appchain is open, one of its
    electors is frozen (before or after the pause), a higher-priority proposal pauses it, the elector is activated again,
    the higher-priority proposal is rejected (the paused one is re-opened) and the re-opened proposal is voted on with one
    early rejection: it may be rejected by the tally only if the electors available NOW cannot approve it any more"""
    r = g.r
    c = r.choice(["c1", "c2", "c4"])
    x = r.choice(["adm1", "adm2", "adm3"])
    others = [a for a in ADMINS if a != x]

    def roles():
        for a in ADMINS:
            g.ops.append(f"q obj role @{a}")

    def role_op(call, kind):
        g.submit(others[0], f"role {call} s:@{x} s:reason", kind, "role", "@" + x)
        ref = g.props[-1][0]
        for v in others:
            roles()
            g.ops.append(f"q prop {ref}")
            g.ops.append(f"block bvm {v} gov Vote s:{ref} s:approve s:r")
        g.ops.append(f"q prop {ref}")
        roles()
        g.ops.append(f"q prop {p1}")

    g.submit(r.choice(others), f"appchain FreezeAppchain s:{c} s:reason", "appchain-freeze", "appchain", c)
    p1 = g.props[-1][0]
    early = r.random() < 0.6
    if early:
        role_op("FreezeRole", "role-freeze")
    g.submit(f"ca{c[1]}", f"appchain LogoutAppchain s:{c} s:reason", "appchain-logout", "appchain", c)
    p2 = g.props[-1][0]
    g.ops.append(f"q prop {p1}")
    if not early:
        role_op("FreezeRole", "role-freeze")
    role_op("ActivateRole", "role-activate")
    for v in ["adm0"] + [a for a in others if a != "adm0"][:2]:
        roles()
        g.ops.append(f"q prop {p2}")
        g.ops.append(f"block bvm {v} gov Vote s:{p2} s:reject s:r")
        g.ops.append(f"q prop {p2}")
        g.ops.append(f"q prop {p1}")
    g.ops.append(f"q obj appchain {c}")
    # the re-opened proposal: one approval, one rejection, then the rest approve
    order = ["adm0"] + [a for a in ADMINS if a != "adm0" and a != x] + [x]
    ballots = ["approve", "reject", "approve", "approve"]
    if r.random() < 0.3:
        r.shuffle(ballots)
    for v, b in zip(order, ballots):
        roles()
        g.ops.append(f"q prop {p1}")
        g.ops.append(f"q obj appchain {c}")
        g.ops.append(f"block bvm {v} gov Vote s:{p1} s:{b} s:r")
        g.ops.append(f"q prop {p1}")
        g.ops.append(f"q obj appchain {c}")
    g.tags.add("paused-electorate-scenario")


def scripted_logout_of_unavailable_admin(g):
    """an elector of an open proposal is frozen (or frozen and being re-activated), then his logout is requested: he was
    already counted out once; the open proposal must stay decidable by the electors who are still available"""
    r = g.r
    c = r.choice(["c1", "c2", "c4"])
    x = r.choice(["adm1", "adm2", "adm3"])
    others = [a for a in ADMINS if a != x]

    def roles():
        for a in ADMINS:
            g.ops.append(f"q obj role @{a}")

    g.submit(r.choice(others), f"appchain FreezeAppchain s:{c} s:reason", "appchain-freeze", "appchain", c)
    p1 = g.props[-1][0]
    g.submit(others[0], f"role FreezeRole s:@{x} s:reason", "role-freeze", "role", "@" + x)
    ref = g.props[-1][0]
    for v in others:
        roles()
        g.ops.append(f"q prop {ref}")
        g.ops.append(f"block bvm {v} gov Vote s:{ref} s:approve s:r")
    g.ops.append(f"q prop {ref}")
    roles()
    g.ops.append(f"q prop {p1}")
    if r.random() < 0.3:
        g.submit(others[1], f"role ActivateRole s:@{x} s:reason", "role-activate", "role", "@" + x)
        roles()
        g.ops.append(f"q prop {p1}")
    g.submit(r.choice([others[0], x]), f"role LogoutRole s:@{x} s:reason", "role-logout", "role", "@" + x)
    roles()
    g.ops.append(f"q prop {p1}")
    ballots = ["approve", "approve", "approve"]
    if r.random() < 0.3:
        ballots[r.randrange(3)] = "reject"
    for v, b in zip(["adm0"] + [a for a in others if a != "adm0"], ballots):
        roles()
        g.ops.append(f"q prop {p1}")
        g.ops.append(f"q obj appchain {c}")
        g.ops.append(f"block bvm {v} gov Vote s:{p1} s:{b} s:r")
        g.ops.append(f"q prop {p1}")
        g.ops.append(f"q obj appchain {c}")
    g.tags.add("logout-of-unavailable-admin-scenario")


def scripted_special_won_then_electorate_change(g):
    """a special proposal (freeze / activate / logout of any object, role and strategy proposals) has enough ordinary approvals
    but the super administrator has not voted, so it stays open; then one of its electors changes status (freeze, or a logout
    request), which makes the governance contract re-evaluate it: it may not be rejected while its rule is satisfied"""
    r = g.r
    c = r.choice(["c1", "c2", "c4"])
    call, kind, mod, obj = r.choice([
        (f"appchain FreezeAppchain s:{c} s:reason", "appchain-freeze", "appchain", c),
        (f"service FreezeService s:{c}:s1 s:reason", "service-freeze", "service", f"{c}:s1"),
        ("strategy UpdateProposalStrategy s:appchain_mgr s:SimpleMajority s:a\\_>=\\_3 s:reason", "strategy-update", "strategy", "appchain_mgr"),
    ])
    g.submit("adm1", call, kind, mod, obj)
    p1 = g.props[-1][0]

    def roles():
        for a in ADMINS:
            g.ops.append(f"q obj role @{a}")
    for v in ["adm1", "adm2", "adm3"]:
        roles()
        g.ops.append(f"q prop {p1}")
        g.ops.append(f"block bvm {v} gov Vote s:{p1} s:approve s:r")
        g.ops.append(f"q prop {p1}")
    x = r.choice(["adm2", "adm3"])
    op = r.choice(["FreezeRole", "FreezeRole", "LogoutRole"])
    g.submit("adm0", f"role {op} s:@{x} s:reason", "role-" + op[:-4].lower(), "role", "@" + x)
    ref = g.props[-1][0]
    roles()
    g.ops.append(f"q prop {p1}")
    for v in [a for a in ADMINS if a != x]:
        roles()
        g.ops.append(f"q prop {ref}")
        g.ops.append(f"block bvm {v} gov Vote s:{ref} s:approve s:r")
        g.ops.append(f"q prop {ref}")
        roles()
        g.ops.append(f"q prop {p1}")
    if mod != "strategy":
        g.ops.append(f"q obj {mod} {obj}")
    g.tags.add("special-won-then-electorate-change")


def scripted_withdraw_concluded(g):
    """a concluded (rejected or approved) proposal is withdrawn by its sponsor while another proposal about the same object
    is open, i.e. while the object is in an in-progress status that would accept a `reject`: nothing may happen"""
    r = g.r
    c = r.choice(["c1", "c2", "c4"])
    sponsor = r.choice(["adm1", "adm2"])
    ballot = r.choice(["reject", "reject", "approve"])
    first = "FreezeAppchain" if ballot == "reject" else r.choice(["FreezeAppchain", "FreezeAppchain"])
    g.submit(sponsor, f"appchain {first} s:{c} s:reason", "appchain-freeze", "appchain", c)
    p1 = g.props[-1][0]
    for v in ["adm0", "adm3", "adm2" if sponsor != "adm2" else "adm1"]:
        g.ops.append(f"q prop {p1}")
        g.ops.append(f"q obj role @{v}")
        g.ops.append(f"block bvm {v} gov Vote s:{p1} s:{ballot} s:r")
    g.ops.append(f"q prop {p1}")
    g.ops.append(f"q obj appchain {c}")
    second = "LogoutAppchain" if ballot == "reject" else "ActivateAppchain"
    g.submit(f"ca{c[1]}" if second == "LogoutAppchain" else "adm3", f"appchain {second} s:{c} s:reason", "appchain-" + second[:-8].lower(), "appchain", c)
    p2 = g.props[-1][0]
    g.ops.append(f"q obj appchain {c}")
    g.ops.append(f"q prop {p1}")
    g.ops.append(f"block bvm {sponsor} gov WithdrawProposal s:{p1} s:reason")
    g.ops.append(f"q prop {p1}")
    g.ops.append(f"q prop {p2}")
    g.ops.append(f"q obj appchain {c}")
    for v in ["adm0", "adm1", "adm2"]:
        g.ops.append(f"q prop {p2}")
        g.ops.append(f"q obj role @{v}")
        g.ops.append(f"block bvm {v} gov Vote s:{p2} s:approve s:r")
        g.ops.append(f"q prop {p2}")
        g.ops.append(f"q obj appchain {c}")
    g.tags.add("withdraw-concluded-scenario:" + ballot)


def scripted_priority(g):
    """concurrent proposals on one object with different priorities: a freeze (priority 2) is proposed, then a logout
    (priority 3) of the same object pauses it; the paused proposal is withdrawn / voted on / left alone; the logout is
    concluded either way; every proposal and the object are read after every step"""
    r = g.r
    c = r.choice(["c1", "c2", "c4"])
    if r.random() < 0.5:
        mod, obj, lo, hi = "appchain", c, f"appchain FreezeAppchain s:{c} s:reason", f"appchain LogoutAppchain s:{c} s:reason"
    else:
        obj = r.choice([x for x in ["c1:s1", "c1:s2", "c2:s1", "c2:s3", "c4:s1"] if x.startswith(c + ":")])
        mod, lo, hi = "service", f"service FreezeService s:{obj} s:reason", f"service LogoutService s:{obj} s:reason"
    lo_creator = r.choice(ADMINS)
    g.submit(lo_creator, lo, mod + "-freeze", mod, obj)
    lo_ref = g.props[-1][0]
    for v in r.sample(ADMINS, r.choice([0, 0, 1])):
        g.ops.append(f"q prop {lo_ref}")
        g.ops.append(f"q obj role @{v}")
        g.ops.append(f"block bvm {v} gov Vote s:{lo_ref} s:{r.choice(['approve', 'reject'])} s:r")
        g.ops.append(f"q prop {lo_ref}")
    g.submit(f"ca{c[1]}", hi, mod + "-logout", mod, obj)
    hi_ref = g.props[-1][0]

    def look():
        g.ops.append(f"q prop {lo_ref}")
        g.ops.append(f"q prop {hi_ref}")
        g.ops.append(f"q obj {mod} {obj}")
    look()
    k = r.random()
    if k < 0.5:
        g.ops.append(f"block bvm {lo_creator} gov WithdrawProposal s:{lo_ref} s:reason")
        g.tags.add("priority:paused-withdrawn")
        look()
    elif k < 0.75:
        v = r.choice(ADMINS)
        g.ops.append(f"q prop {lo_ref}")
        g.ops.append(f"q obj role @{v}")
        g.ops.append(f"block bvm {v} gov Vote s:{lo_ref} s:approve s:r")
        g.tags.add("priority:vote-on-paused")
        look()
    ballot = r.choice(["approve", "reject", "reject"])
    if r.random() < 0.2:
        g.ops.append(f"block bvm ca{c[1]} gov WithdrawProposal s:{hi_ref} s:reason")
        g.tags.add("priority:high-withdrawn")
        look()
    else:
        for v in ["adm0", "adm1", "adm2"]:
            g.ops.append(f"q prop {hi_ref}")
            g.ops.append(f"q obj role @{v}")
            g.ops.append(f"block bvm {v} gov Vote s:{hi_ref} s:{ballot} s:r")
            look()
        g.tags.add("priority:high-" + ballot)


def scripted_closed_proposal_after_first_pause(g):
    """seeding round 25 (`C15-status-index-merge-relists-closed-proposals`): a proposal P1 is open while ANOTHER object sees the
    first pause of the history (a freeze paused by a logout of the same chain); P1 is then approved by three administrators; after
    that the fourth administrator — an elector of P1 who never voted — is frozen by an approved proposal, which makes the role
    manager walk over the proposals it still believes open.  P1, its tallies, its end reason and its object are read before and
    after: a concluded proposal never changes again and manages its object once."""
    r = g.r
    c1, c2 = r.choice([("c4", "c2"), ("c2", "c4"), ("c1", "c2")])
    # the super administrator (adm0) cannot be frozen and a special proposal needs its ballot: it votes, one of the others is frozen
    x = r.choice(["adm1", "adm2", "adm3"])
    voters = [a for a in ADMINS if a != x]
    r.shuffle(voters)
    g.submit(voters[0], f"appchain FreezeAppchain s:{c1} s:reason", "appchain-freeze", "appchain", c1)
    p1 = g.props[-1][0]
    g.submit(voters[1], f"appchain FreezeAppchain s:{c2} s:reason", "appchain-freeze", "appchain", c2)
    lo = g.props[-1][0]
    g.submit(f"ca{c2[1]}", f"appchain LogoutAppchain s:{c2} s:reason", "appchain-logout", "appchain", c2)
    hi = g.props[-1][0]

    def look():
        for ref in (p1, lo, hi):
            g.ops.append(f"q prop {ref}")
        g.ops.append(f"q obj appchain {c1}")
        g.ops.append(f"q obj appchain {c2}")
    look()
    for v in voters:
        g.ops.append(f"q prop {p1}")
        g.ops.append(f"q obj role @{v}")
        g.ops.append(f"block bvm {v} gov Vote s:{p1} s:approve s:r")
        look()
    # the chain P1 froze is asked to be activated again and that proposal stays open: the object is now in a status from which a
    # second (stale) "approve" of P1 would be a legal life-cycle step — it must not happen
    g.submit(voters[1], f"appchain ActivateAppchain s:{c1} s:reason", "appchain-activate", "appchain", c1)
    act = g.props[-1][0]
    g.submit(voters[0], f"role FreezeRole s:@{x} s:reason", "role-freeze", "role", "@" + x)
    fz = g.props[-1][0]
    for v in voters:
        g.ops.append(f"q prop {act}")
        g.ops.append(f"q prop {fz}")
        g.ops.append(f"q obj role @{v}")
        g.ops.append(f"block bvm {v} gov Vote s:{fz} s:approve s:r")
        g.ops.append(f"q prop {fz}")
        g.ops.append(f"q prop {act}")
        g.ops.append(f"q obj role @{x}")
        look()
    g.tags.add("closed-proposal-after-first-pause")


def gen_c15(rng, n, tier):
    import random as _r
    hs = []
    # forced, not drawn: one history per run with the scenario alone
    g0 = GovGen(_r.Random(rng.getrandbits(64)))
    g0.ops.append("world audit=0 price=1")
    scripted_closed_proposal_after_first_pause(g0)
    hs.append(History(g0.ops, tags=g0.tags))
    for _ in range(n):
        r = _r.Random(rng.getrandbits(64))
        g = GovGen(r)
        g.ops.append(f"world audit={r.choice([0, 0, 1])} price=1")
        k0 = r.random()
        if k0 < 0.2:
            scripted_priority(g)
        elif k0 < 0.35:
            scripted_frozen_admin(g)
        elif k0 < 0.47:
            scripted_paused_electorate(g)
        elif k0 < 0.57:
            scripted_logout_of_unavailable_admin(g)
        elif k0 < 0.66:
            scripted_special_won_then_electorate_change(g)
        elif k0 < 0.74:
            scripted_withdraw_concluded(g)
        elif k0 < 0.80:
            scripted_closed_proposal_after_first_pause(g)
        g.propose()
        for _ in range(r.randint(6, 22)):
            k = r.random()
            if k < 0.15 and len(g.props) < 4:
                g.propose()
            elif k < 0.2:
                g.withdraw()
            else:
                g.vote()
        for (ref, _, mod, obj) in g.props:
            g.ops.append(f"q prop {ref}")
            g.ops.append(f"q obj {mod} {obj}")
        hs.append(History(g.ops, tags=g.tags))
    return hs


def parse_prop(o):
    if " ## " not in o:
        return None
    body = o.split(" ## ", 1)[1]
    if body in ("none", "undecodable"):
        return None
    d = {}
    for tok in body.split():
        if "=" in tok:
            k, v = tok.split("=", 1)
            d[k] = v
    for k in ("a", "r", "init", "avail", "special", "super"):
        d[k] = int(d.get(k, 0))
    d["voters"] = [x for x in d.get("voters", "[]").strip("[]").split(",") if x]
    d["electorate"] = [x for x in d.get("electorate", "[]").strip("[]").split(",") if x]
    d["raw"] = body
    return d


def expr_holds(expr, a, r, t):
    e = expr.replace("_", " ").replace("&&", " and ").replace("||", " or ")
    if not re.fullmatch(r"[art0-9.\s<>=!*+\-()andor]+", e):
        return None
    try:
        return bool(eval(e, {"__builtins__": {}}, {"a": a, "r": r, "t": t}))
    except Exception:
        return None


def max_approve(avail, rej):
    return avail - rej if rej <= avail else 2 ** 64 - (rej - avail)


def mon_c15(h, obs):
    hits = []
    last = {}          # ref -> parsed proposal (latest observation)
    final = {}         # ref -> raw line once concluded
    role = {}          # account -> role status (latest observation)
    role_fresh = set() # accounts whose role status was read since the last block that can change a role
    vsteps = []        # (model input line, expected answer, description)
    steps = list(zip(h.ops, obs))
    i = 0
    while i < len(steps):
        op, o = steps[i]
        ws = op.split()
        if ws[0] == "q" and ws[1] == "prop":
            p = parse_prop(o)
            ref = ws[2]
            if p is not None:
                # tallies are the ballots
                na = sum(1 for v in p["voters"] if v.endswith(":approve"))
                nr = sum(1 for v in p["voters"] if v.endswith(":reject"))
                if (p["a"], p["r"]) != (na, nr):
                    hits.append(Hit("C15/tally-differs-from-ballots", f"{ref}: approve={p['a']} reject={p['r']} but ballots are {p['voters']}", detail=op))
                names = [v.split(":")[0] for v in p["voters"]]
                if len(set(names)) != len(names):
                    hits.append(Hit("C15/admin-voted-twice", f"{ref}: ballots {p['voters']}", detail=op))
                if p["super"] == 1 and "adm0" not in names:
                    # model-free: the flag that lets a special proposal conclude is only set by the super administrator's ballot
                    hits.append(Hit("C15/super-admin-flag-without-super-admin-ballot", f"{ref}: IsSuperAdminVoted is set but the ballots are {p['voters']}", detail=op))
                el = {e.split(":")[0] for e in p["electorate"]}
                if any(nm not in el for nm in names):
                    hits.append(Hit("C15/ballot-of-non-elector", f"{ref}: ballots {p['voters']} electorate {sorted(el)}", detail=op))
                created_now = False
                if ref not in last and i > 0:
                    # first sight right after the submitting transaction of the proposal's creator (a reference that is read for
                    # the first time later — the generator's numbering slips when an earlier submission of that creator was
                    # refused — says nothing about the moment of creation)
                    pop, pobs = steps[i - 1]
                    pw = pop.split()
                    mm = mon_exec.BLK.match(pobs) if pw and pw[0] == "block" else None
                    created_now = bool(mm and mm.group(2) and mm.group(2).split()[0].startswith("S:") and len(pw) > 2
                                       and pw[1] == "bvm" and "@" + pw[2] == ref.rsplit("-", 1)[0] and " | " not in pop)
                if created_now:
                    # first sight = creation: the electorate is the set of administrators available at that moment
                    bad = sorted(e.split(":")[0] for e in p["electorate"] if role.get(e.split(":")[0]) is not None and role[e.split(":")[0]] not in ROLE_AVAILABLE)
                    miss = sorted(a for a in ADMINS if role.get(a) in ROLE_AVAILABLE and a not in {e.split(":")[0] for e in p["electorate"]})
                    if bad and p["status"] == "proposed" and not p["voters"]:
                        hits.append(Hit("C15/unavailable-admin-in-electorate", f"{ref} was created with electorate {p['electorate']} although {bad} had role status {[role[b] for b in bad]}", detail=op))
                    if miss and p["status"] == "proposed" and not p["voters"]:
                        hits.append(Hit("C15/available-admin-missing-from-electorate", f"{ref} was created with electorate {p['electorate']} although {miss} were available governance admins", detail=op))
                if ref in final and p["raw"] != final[ref]:
                    hits.append(Hit("C15/concluded-proposal-changed", f"{ref} was concluded as `{final[ref][:80]}` and now reads `{p['raw'][:80]}`", detail=op))
                if p["status"] in ("approve", "reject") and ref not in final:
                    final[ref] = p["raw"]
                    hold = expr_holds(p["expr"], p["a"], p["r"], p["init"])
                    if p["status"] == "approve" and p["end"] in ("end_of_normal_voting", "not_enough_valid_electorate") and hold is False:
                        hits.append(Hit("C15/approved-without-rule", f"{ref} approved with a={p['a']} r={p['r']} t={p['init']} under {p['expr']}", detail=op))
                    if p["status"] == "reject" and p["end"] in ("end_of_normal_voting", "not_enough_valid_electorate"):
                        reach = expr_holds(p["expr"], max_approve(p["avail"], p["r"]), p["r"], p["init"])
                        if hold or reach:
                            hits.append(Hit("C15/rejected-while-reachable", f"{ref} rejected with a={p['a']} r={p['r']} t={p['init']} avail={p['avail']} under {p['expr']}", detail=op))
                        else:
                            # ... against the CURRENT number of available electors, read from the role contract (model-free): only
                            # when every elector's role status was read after the last operation that can change a role
                            els = [e.split(":")[0] for e in p["electorate"]]
                            if els and all(e in role_fresh for e in els):
                                cur = sum(1 for e in els if role.get(e) in ROLE_AVAILABLE)
                                if cur != p["avail"] and expr_holds(p["expr"], max_approve(cur, p["r"]), p["r"], p["init"]):
                                    hits.append(Hit("C15/rejected-while-reachable/current-electorate",
                                                    f"{ref} rejected by the tally with a={p['a']} r={p['r']} t={p['init']} under {p['expr']}: the proposal records {p['avail']} available "
                                                    f"electors, but {cur} of its electors {els} are available administrators now and could still approve it", detail=op))
                    if p["special"] == 1 and p["super"] == 0 and p["end"] == "end_of_normal_voting":
                        hits.append(Hit("C15/special-concluded-without-super-admin", f"{ref}: {p['raw'][:120]}", detail=op))
                last[ref] = p
        elif ws[0] == "q" and ws[1] == "obj" and ws[2] == "role":
            # the role contract's answer to IsAnyAvailableAdmin(voter, governanceAdmin): an available role of that type
            m2 = re.search(r"status=(\S+) type=(\S+)", o)
            role[ws[3].lstrip("@")] = (m2.group(1) if m2 and m2.group(2) == "governanceAdmin" else "none")
            role_fresh.add(ws[3].lstrip("@"))
        elif ws[0] == "block" and " gov WithdrawProposal " in op and " | " not in op:
            m = mon_exec.BLK.match(o)
            t = op.split()
            ref = t[5][2:]
            pre = last.get(ref)
            rc = m.group(2).split()[0] if m and m.group(2) else ""
            if pre is not None and pre["status"] in ("approve", "reject") and rc.startswith("S:"):
                hits.append(Hit("C15/withdraw-of-concluded-proposal-accepted",
                                f"{ref} was concluded ({pre['status']}) and its withdrawal by {t[2]} succeeded ({rc}): its effect on the governed object is applied once more", detail=op))
        elif ws[0] == "block" and " gov Vote " in op and " | " not in op:
            m = mon_exec.BLK.match(o)
            t = op.split()
            voter, ref, ballot = t[2], t[5][2:], t[6][2:]
            pre = last.get(ref)
            if pre is None or "role" in str(pre.get("typ", "role")).lower():
                role_fresh.clear()       # the conclusion of a proposal about a role changes role statuses
            rc = m.group(2).split()[0] if m and m.group(2) else ""
            ok = rc.startswith("S:")
            # the observation right after
            post = None
            if i + 1 < len(steps) and steps[i + 1][0] == f"q prop {ref}":
                post = parse_prop(steps[i + 1][1])
            if post is None:
                last.pop(ref, None)      # a vote whose effect was not read back: the proposal's state is unknown until the next read
            if pre is not None and post is not None:
                if not ok and post["raw"] != pre["raw"]:
                    hits.append(Hit("C15/refused-vote-changed-proposal", f"vote of {voter} on {ref} was refused ({rc}) but the proposal changed", detail=op))
                if ok:
                    el = {e.split(":")[0] for e in pre["electorate"]}
                    if voter not in el:
                        hits.append(Hit("C15/vote-of-non-elector-accepted", f"{voter} is not in the electorate of {ref}", detail=op))
                    if any(v.split(":")[0] == voter for v in pre["voters"]):
                        hits.append(Hit("C15/second-vote-accepted", f"{voter} had already voted on {ref}", detail=op))
                    if pre["status"] != "proposed":
                        hits.append(Hit("C15/vote-on-closed-proposal-accepted", f"{ref} was {pre['status']}", detail=op))
                    if ballot not in ("approve", "reject"):
                        hits.append(Hit("C15/garbage-ballot-accepted", f"ballot {ballot!r}", detail=op))
                    if role.get(voter, "none") not in ROLE_AVAILABLE:
                        hits.append(Hit("C15/vote-of-unavailable-admin-accepted", f"{voter} has role status {role.get(voter)}", detail=op))
                # trace validation against the Lean ballot machine: same pre-state, voter, role answer and ballot
                adm = "1" if role.get(voter, "none") in ROLE_AVAILABLE else "0"
                line = (f"vstep status={pre['status']} a={pre['a']} r={pre['r']} init={pre['init']} avail={pre['avail']} special={pre['special']} "
                        f"super={pre['super']} expr={pre['expr']} voters=[{','.join(pre['voters'])}] electorate=[{','.join(pre['electorate'])}] "
                        f"{voter} {adm} {ballot}")
                if ok:
                    exp = (f"ok status={post['status']} a={post['a']} r={post['r']} super={post['super']} voters=[{','.join(sorted(post['voters']))}]")
                else:
                    code = rc.split(":")[1] if ":" in rc else rc
                    exp = "err " + code
                vsteps.append((line, exp, op))
        if ws[0] in ("block", "restart") and not (" gov Vote " in op and " | " not in op):
            if ws[0] == "restart" or " role " in op or " gov " in op or " | " in op:
                role_fresh.clear()
        i += 1
    tsteps, thits = table_steps(h, obs)
    hits.extend(thits)
    if tsteps:
        try:
            out = subprocess.run(core.model_cmd("govstep"), input="\n".join(x[0] for x in tsteps) + "\n", capture_output=True, text=True, timeout=60).stdout.splitlines()
        except Exception as e:      # noqa: BLE001
            out = []
            hits.append(Hit("C15/model-driver-failed", str(e)))
        for (line, exp, op), got in zip(tsteps, out):
            if got.startswith("bad-"):
                continue
            if got != exp:
                hits.append(Hit("C15/table-step-differs-from-model", f"real contract: `{exp}`; Lean proposal table: `{got}`; input `{line[:240]}`", detail=op))
    if vsteps:
        try:
            out = subprocess.run(core.model_cmd("govstep"), input="\n".join(x[0] for x in vsteps) + "\n", capture_output=True, text=True, timeout=60).stdout.splitlines()
        except Exception as e:      # noqa: BLE001
            out = []
            hits.append(Hit("C15/model-driver-failed", str(e)))
        for (line, exp, op), got in zip(vsteps, out):
            if got.startswith("bad-state"):
                continue       # a strategy expression outside the modelled fragment
            if exp == "err 2010000" and re.match(r"ok status=(approve|reject) ", got):
                # the ballot concludes the proposal in both, but the object manager then refused the resulting transition
                # (handleResult error -> GovernanceInternalErrCode): the whole vote transaction is reverted.  That refusal lies
                # outside the ballot machine; that nothing changed is checked by C15/refused-vote-changed-proposal.
                continue
            if got != exp:
                hits.append(Hit("C15/vote-step-differs-from-model", f"real contract: `{exp}`; Lean ballot machine: `{got}`; input `{line[:200]}`", detail=op))
    return hits


def table_steps(h, obs):
    """Trace validation of the proposal TABLE (Bxh.GovTable): for every single-transaction block that submits a proposal,
    casts a vote or withdraws a proposal about an appchain / service, with all proposals about that object read right before
    and right after, returns (model input line, expected answer, description).  Also returns model-free hits: a refused
    or non-concluding operation must leave every proposal of the object as it was."""
    steps = list(zip(h.ops, obs))
    order = {}        # obj -> refs in submission order
    last = {}         # ref -> parsed proposal
    seen = {}         # ref -> index of its latest observation
    prev_block = -1
    out, hits = [], []
    n = len(steps)
    i = 0
    while i < n:
        op, o = steps[i]
        ws = op.split()
        if ws[0] == "q" and ws[1] == "prop":
            p = parse_prop(o)
            if p is not None and p.get("typ") in ("appchain_mgr", "service_mgr"):
                ref = ws[2]
                if ref not in last:
                    order.setdefault(p["obj"], []).append(ref)
                last[ref] = p
                seen[ref] = i
        elif ws[0] in ("block", "restart"):
            single = ws[0] == "block" and " | " not in op and len(ws) > 3 and ws[1] == "bvm"
            if single:
                m = mon_exec.BLK.match(o)
                rc = m.group(2).split()[0] if m and m.group(2) else ""
                ok = rc.startswith("S:")
                # observations that follow, up to the next block
                post = {}
                j = i + 1
                while j < n and steps[j][0].split()[0] not in ("block", "restart"):
                    w2 = steps[j][0].split()
                    if w2[0] == "q" and w2[1] == "prop":
                        pp = parse_prop(steps[j][1])
                        if pp is not None:
                            post[w2[2]] = pp
                    j += 1
                kind, ref = None, None
                if ws[3] == "gov" and ws[4] == "Vote":
                    kind, ref = "vote", ws[5][2:]
                elif ws[3] == "gov" and ws[4] == "WithdrawProposal":
                    kind, ref = "withdraw", ws[5][2:]
                elif ok:
                    new = [r for r, pp in post.items() if r not in last and pp.get("typ") in ("appchain_mgr", "service_mgr")]
                    if len(new) == 1:
                        kind, ref = "submit", new[0]
                obj = None
                if kind == "submit":
                    obj = post[ref]["obj"]
                elif ref in last:
                    obj = last[ref]["obj"]
                if kind and obj is not None:
                    refs = list(order.get(obj, []))
                    fresh = all(seen.get(r, -1) > prev_block for r in refs) and all(r in post for r in refs)
                    idx = {r: k for k, r in enumerate(refs)}
                    locks_ok = all(last[r]["lock"] == "-" or last[r]["lock"] in idx for r in refs)
                    if fresh and locks_ok and (kind == "submit" or ref in idx):
                        ents = " ".join(f"{last[r]['obj']}/{last[r]['ev']}/{last[r]['status']}/{idx[last[r]['lock']] if last[r]['lock'] != '-' else '-'}" for r in refs)
                        pre_s = [last[r]["status"] for r in refs]
                        post_s = [post[r]["status"] for r in refs]
                        mop = None
                        if kind == "submit":
                            mop = f"submit/{obj}/{post[ref]['ev']}"
                            lk = post[ref]["lock"]
                            exp_all = refs + [ref]
                            exp = "ok " + ",".join(f"{post[r]['status']}:{(idx.get(post[r]['lock'], '?') if post[r]['lock'] != '-' else '-')}" for r in exp_all)
                        elif kind == "withdraw" and ok:
                            mop = f"withdraw/{idx[ref]}"
                        elif kind == "vote" and ok and post[ref]["status"] in ("approve", "reject") and last[ref]["status"] == "proposed":
                            mop = f"conclude/{idx[ref]}/{post[ref]['status']}"
                        if mop is None:
                            # refused, or a ballot that concludes nothing: nothing about the object may move
                            if pre_s != post_s:
                                hits.append(Hit("C15/table-changed-by-refused-or-open-step",
                                                f"{op}: receipt {rc}; proposals {refs} went {pre_s} -> {post_s}", detail=op))
                        else:
                            if kind != "submit":
                                exp = "ok " + ",".join(f"{post[r]['status']}:{(idx.get(post[r]['lock'], '?') if post[r]['lock'] != '-' else '-')}" for r in refs)
                            out.append((f"tstep {mop} {ents}".rstrip(), exp, op))
            prev_block = i
        i += 1
    return out, hits


def tags_c15(h, obs):
    t = set()
    for line, _, _ in table_steps(h, obs)[0]:
        t.add("table-step:" + line.split()[1].split("/")[0])
    for op, o in zip(h.ops, obs):
        if op.startswith("q prop"):
            p = parse_prop(o)
            if p:
                t.add("status:" + p["status"])
                if p["special"]:
                    t.add("special")
                if p.get("end"):
                    t.add("end:" + p["end"][:24])
        if " gov Vote " in op:
            m = mon_exec.BLK.match(o)
            if m and m.group(2):
                t.add("vote:" + m.group(2).split()[0][:9])
    return t


# ------------------------------------------------------------------------------------------ C16: gating + life cycles
import json as _json
import os as _os

SVC = ["c1:s1", "c1:s2", "c2:s1", "c2:s3", "c4:s1", "c3:s1"]
BLACKLIST = {("c1:s2", "c3:s1"), ("9999:c6:s2", "c4:s1")}       # (source, destination) pairs blocked by the destination's blacklist in the fixed world


def load_lifecycle():
    for p in (_os.path.join(core.CACHE, "facts.json"), _os.path.join(core.VERIF, "facts.baseline.json")):
        if _os.path.exists(p):
            items = _json.load(open(p)).get("items", {})
            if "lifecycle" in items:
                return items["lifecycle"], items.get("availableStatus", {})
    return {}, {}


class LcGen(GovGen):
    def __init__(self, r):
        super().__init__(r)
        self.idx = {}
        self.dyn = []          # services whose registration was proposed in this history
        self.pending = []      # proposals left open: (ref, module, object)

    def observe(self, svc):
        c = svc.split(":")[0]
        self.ops.append(f"q obj service {svc}")
        self.ops.append(f"q obj appchain {c}")

    def ibtp(self):
        r = self.r
        if getattr(self, "hub", False) and r.random() < 0.3:
            # world option hub=1: a request relayed from another BitXHub (9999 is registered, 7777 is not; c4:s1 blocks 9999:c6:s2)
            f = r.choice(["9999:c6:s2", "9999:c6:s2", "9999:c5:s1", "7777:c5:s1"])
            t = r.choice(["c4:s1", "c4:s1", "c2:s1", "c1:s1"])
            i = self.idx.get((f, t), 1)
            self.observe(t)
            self.ops.append(f"block ibtp ca9 {f} {t} {i} req 0 - msig2")
            self.observe(t)
            self.idx[(f, t)] = i + 1
            self.ops.append(f"q status {f}-1356:{t}-{i}")
            self.tags.add("ibtp-probe:from-another-hub")
            return
        f, t = r.sample(SVC, 2)
        if self.dyn and r.random() < 0.4:
            # a service registered during this history as source or destination
            if r.random() < 0.5:
                f = r.choice(self.dyn)
            else:
                t = r.choice(self.dyn)
            if f == t:
                t = "c2:s1" if f != "c2:s1" else "c4:s1"
            self.tags.add("ibtp-probe:registered-service")
        elif r.random() < 0.1:
            t = r.choice(["c1:s9", "c9:s1"])          # a destination service that does not exist
        i = self.idx.get((f, t), 1)
        self.observe(f)
        self.observe(t)
        self.ops.append(f"block ibtp ca{f[1]} {f} {t} {i} req 0 - ok")
        self.observe(f)
        self.observe(t)
        self.idx[(f, t)] = i + 1      # a rejected request makes the next index wrong: that request is then rejected for the index, fine
        self.ops.append(f"q status 1356:{f}-1356:{t}-{i}")
        self.tags.add("ibtp-probe")

    def node_register(self):
        """a validator node is registered (approved or rejected): its status is read back; an approved registration makes the
        executor publish a node event"""
        r = self.r
        k = getattr(self, "nodes", 0)
        self.nodes = k + 1
        acct_ = f"n{8 - k}"
        self.submit(r.choice(ADMINS), f"node RegisterNode s:@{acct_} s:vpNode s:QmXi58fp9ZczF3Z5iz1yXAez3Hy5NYo1R8STHWKEM9XnT{'LMNPQ'[k % 5]} u:{5 + k} s:{acct_} s:~ s:reason",
                    "node-register", "node", "@" + acct_)
        ref, kind, mod, obj = self.props[-1]
        self.vote_all(ref, mod, obj, r.choice(["approve", "approve", "reject"]))
        self.ops.append(f"q obj node {obj}")
        self.tags.add("node-register")

    def audit_admin(self):
        """a non-validator node is registered, an audit administrator is registered and bound to it; then one of them is logged out
        (or the admin frozen): the node manager and the role manager drive each other's records (bind / unbind / pause), every
        status is read back after every step"""
        r = self.r
        self.audits = getattr(self, "audits", 0) + 1
        n, g = f"n{7 - self.audits}", f"g{2 + self.audits}"
        self.fund(g)
        self.submit(r.choice(ADMINS), f"node RegisterNode s:@{n} s:nvpNode s:~ u:0 s:nvp-{n} s:c1 s:reason", "node-register-nvp", "node", "@" + n)
        ref, kind, mod, obj = self.props[-1]
        self.vote_all(ref, mod, obj, r.choice(["approve", "approve", "approve", "reject"]))
        self.submit(r.choice(ADMINS), f"role RegisterRole s:@{g} s:auditAdmin s:@{n} s:reason", "role-register-audit", "role", "@" + g)
        ref, kind, mod, obj = self.props[-1]
        self.ops.append(f"q obj node @{n}")
        self.vote_all(ref, mod, obj, r.choice(["approve", "approve", "reject"]))
        self.ops.append(f"q obj node @{n}")
        nxt = r.choice(["node-logout", "role-logout", "role-freeze", "none"])
        if nxt == "node-logout":
            self.submit(r.choice(ADMINS), f"node LogoutNode s:@{n} s:reason", "node-logout", "node", "@" + n)
        elif nxt == "role-logout":
            self.submit(r.choice(ADMINS), f"role LogoutRole s:@{g} s:reason", "role-logout", "role", "@" + g)
        elif nxt == "role-freeze":
            self.submit(r.choice(ADMINS), f"role FreezeRole s:@{g} s:reason", "role-freeze", "role", "@" + g)
        if nxt != "none":
            ref, kind, mod, obj = self.props[-1]
            self.ops.append(f"q obj node @{n}")
            self.ops.append(f"q obj role @{g}")
            self.vote_all(ref, mod, obj, r.choice(["approve", "approve", "reject"]))
        self.ops.append(f"q obj node @{n}")
        self.ops.append(f"q obj role @{g}")
        self.tags.add("audit-admin:" + nxt)

    def govern(self):
        r = self.r
        k = r.random()
        if r.random() < 0.08 and getattr(self, "nodes", 0) < 2:
            return self.node_register()
        if r.random() < 0.06 and getattr(self, "audits", 0) < 2:
            return self.audit_admin()
        if k < 0.45:
            s = r.choice(SVC)
            c = s.split(":")[0]
            ev = r.choice(["FreezeService", "FreezeService", "ActivateService", "LogoutService"])
            who = f"ca{c[1]}" if ev == "LogoutService" else r.choice(ADMINS)
            self.submit(who, f"service {ev} s:{s} s:reason", "service-" + ev[:-7].lower(), "service", s)
        elif k < 0.85:
            c = r.choice(["c1", "c2", "c4"])
            ev = r.choice(["FreezeAppchain", "FreezeAppchain", "ActivateAppchain", "LogoutAppchain"])
            who = f"ca{c[1]}" if ev == "LogoutAppchain" else r.choice(ADMINS)
            self.submit(who, f"appchain {ev} s:{c} s:reason", "appchain-" + ev[:-8].lower(), "appchain", c)
        else:
            c = r.choice(["c1", "c1", "c2", "c4"])
            sid = f"s{r.randint(5, 9)}"
            self.submit(f"ca{c[1]}", f"service RegisterService s:{c} s:{sid} s:svc-{c}-{sid} s:CallContract s:intro u:1 s:~ s:details s:reason",
                        "service-register", "service", f"{c}:{sid}")
            if f"{c}:{sid}" not in self.dyn:
                self.dyn.append(f"{c}:{sid}")
        ref, kind, mod, obj = self.props[-1]
        if mod == "service" and kind == "service-register" and r.random() < 0.5:
            # leave the registration open: it is concluded later, after other governance operations went through
            self.pending.append((ref, mod, obj))
            self.tags.add("proposal-left-open")
            return
        self.conclude(ref, mod, obj)

    def conclude(self, ref, mod, obj):
        r = self.r
        # conclude it (mostly): the super admin and two others vote the same way, sometimes the vote is left open
        ballot = r.choice(["approve", "approve", "reject"])
        voters = ["adm0", "adm1", "adm2", "adm3"]
        r.shuffle(voters)
        for v in voters[:r.choice([0, 2, 3, 3, 4])]:
            self.ops.append(f"block bvm {v} gov Vote s:{ref} s:{ballot} s:r")
            self.ops.append(f"q prop {ref}")
            self.ops.append(f"q obj {mod} {obj}")
            self.ops.append(f"q obj appchain {obj.split(':')[0]}")
            if mod == "appchain":
                for s in SVC + self.dyn:
                    if s.startswith(obj + ":"):
                        self.ops.append(f"q obj service {s}")
                        self.ops.append(f"q obj appchain {obj}")

    def vote_all(self, ref, mod, obj, ballot):
        for v in ["adm0", "adm1", "adm2"]:
            self.ops.append(f"block bvm {v} gov Vote s:{ref} s:{ballot} s:r")
        self.ops.append(f"q prop {ref}")
        self.ops.append(f"q obj {mod} {obj}")
        self.ops.append(f"q obj appchain {obj.split(':')[0]}")

    def scripted_overlap(self):
        """two proposals about one appchain overlap: an operation on a service (registration, freeze, activation, logout) is
        proposed, then an operation on the owning appchain is proposed and concluded, then the first is concluded; the
        service is probed as source and as destination afterwards"""
        r = self.r
        c = r.choice(["c1", "c2", "c4"])
        first = r.choice(["register", "register", "FreezeService", "ActivateService", "LogoutService"])
        if first == "register":
            sid = f"s{r.randint(5, 9)}"
            svc = f"{c}:{sid}"
            self.submit(f"ca{c[1]}", f"service RegisterService s:{c} s:{sid} s:svc-{c}-{sid} s:CallContract s:intro u:1 s:~ s:details s:reason",
                        "service-register", "service", svc)
            if svc not in self.dyn:
                self.dyn.append(svc)
        else:
            svc = r.choice([x for x in SVC if x.startswith(c + ":")])
            who = f"ca{c[1]}" if first == "LogoutService" else r.choice(ADMINS)
            self.submit(who, f"service {first} s:{svc} s:reason", "service-" + first[:-7].lower(), "service", svc)
        p1 = self.props[-1]
        ev = r.choice(["FreezeAppchain", "FreezeAppchain", "LogoutAppchain", "ActivateAppchain"])
        who = f"ca{c[1]}" if ev == "LogoutAppchain" else r.choice(ADMINS)
        self.submit(who, f"appchain {ev} s:{c} s:reason", "appchain-" + ev[:-8].lower(), "appchain", c)
        p2 = self.props[-1]
        order = [(p2, r.choice(["approve", "approve", "reject"])), (p1, r.choice(["approve", "approve", "reject"]))]
        if r.random() < 0.25:
            order.reverse()
        for (ref, kind, mod, obj), ballot in order:
            self.vote_all(ref, mod, obj, ballot)
            self.observe(svc)
        self.tags.add(f"overlap:{first}+{ev}")
        other = "c2:s1" if c != "c2" else "c4:s1"
        for f, t in ((svc, other), (other, svc)):
            i = self.idx.get((f, t), 1)
            self.observe(f)
            self.observe(t)
            self.ops.append(f"block ibtp ca{f[1]} {f} {t} {i} req 0 - ok")
            self.observe(f)
            self.observe(t)
            self.idx[(f, t)] = i + 1

    def scripted_sequence(self):
        """three concluded operations in a row about one service and its appchain: service op, appchain op, service op
        (e.g. service frozen, appchain frozen, service activated: the cascade has to win), each read back, then probes"""
        r = self.r
        c = r.choice(["c1", "c2", "c4"])
        svc = r.choice([x for x in SVC if x.startswith(c + ":")])

        def service_op(ev):
            who = f"ca{c[1]}" if ev == "LogoutService" else r.choice(ADMINS)
            self.submit(who, f"service {ev} s:{svc} s:reason", "service-" + ev[:-7].lower(), "service", svc)

        def chain_op(ev):
            who = f"ca{c[1]}" if ev == "LogoutAppchain" else r.choice(ADMINS)
            self.submit(who, f"appchain {ev} s:{c} s:reason", "appchain-" + ev[:-8].lower(), "appchain", c)

        steps = [lambda: service_op(r.choice(["FreezeService", "FreezeService", "LogoutService"])),
                 lambda: chain_op(r.choice(["FreezeAppchain", "FreezeAppchain", "LogoutAppchain"])),
                 lambda: service_op(r.choice(["ActivateService", "ActivateService", "FreezeService"])),
                 lambda: chain_op(r.choice(["ActivateAppchain", "FreezeAppchain"]))]
        for k, st in enumerate(steps[:r.choice([3, 3, 4])]):
            st()
            ref, kind, mod, obj = self.props[-1]
            self.vote_all(ref, mod, obj, "approve" if (k < 2 or r.random() < 0.7) else "reject")
            self.observe(svc)
        self.tags.add("scripted-sequence")
        other = "c2:s1" if c != "c2" else "c4:s1"
        for f, t in ((svc, other), (other, svc)):
            i = self.idx.get((f, t), 1)
            self.observe(f)
            self.observe(t)
            self.ops.append(f"block ibtp ca{f[1]} {f} {t} {i} req 0 - ok")
            self.observe(f)
            self.observe(t)
            self.idx[(f, t)] = i + 1

    def scripted_unpaid_concluding_vote(self):
        """seeding round 28 (`C16-failed-governance-transaction-feeds-the-service-cache`): a service is frozen by an approved proposal,
        its activation is proposed and gets two approvals, and the CONCLUDING third approval is cast by an administrator who cannot pay
        the fee: the vote is processed — the service manager posts the service's new status — and then reverted (FAILED).  The stored
        service stays `activating`; a node that fed its service cache from the failed transaction's events would take it for available.
        The service is then probed as source and as destination, on the running node and after a restart."""
        r = self.r
        svc = r.choice(["c1:s1", "c2:s1", "c1:s2"])
        c = svc.split(":")[0]
        self.submit(r.choice(["adm0", "adm1"]), f"service FreezeService s:{svc} s:reason", "service-freeze", "service", svc)
        ref, kind, mod, obj = self.props[-1]
        self.vote_all(ref, mod, obj, "approve")
        self.submit(r.choice(["adm0", "adm1"]), f"service ActivateService s:{svc} s:reason", "service-activate", "service", svc)
        ref, kind, mod, obj = self.props[-1]
        # adm2 is drained to below one fee, then casts the third approval
        self.ops.append("q bal adm2")
        self.ops.append("block xfer adm2 u0 all-21001")      # the transfer's own fee is 21000: what is left pays for nothing
        self.ops.append("q bal adm2")
        for v in ["adm0", "adm1", "adm2"]:
            self.ops.append(f"block bvm {v} gov Vote s:{ref} s:approve s:r")
            self.ops.append(f"q prop {ref}")
            self.ops.append(f"q obj {mod} {obj}")
        other = "c2:s3" if c != "c2" else "c4:s1"
        for rep in range(2):
            for f, t in ((svc, other), (other, svc)):
                i = self.idx.get((f, t), 1)
                self.observe(f)
                self.observe(t)
                self.ops.append(f"block ibtp ca{f[1]} {f} {t} {i} req 0 - ok")
                self.observe(f)
                self.observe(t)
                self.ops.append(f"q status 1356:{f}-1356:{t}-{i}")
                self.idx[(f, t)] = i + 1
            if rep == 0:
                self.ops.append("restart")
        self.tags.add("unpaid-concluding-vote")

    def scripted_cascade(self):
        """an appchain-wide cascade after one of the chain's services took a status of its own: a service of a chain with
        several services is logged out (or frozen), then the chain goes through a round trip that rewrites all its services
        (freeze + activate, or a rejected logout); afterwards every service of the chain is read back and probed as source
        and as destination, on the running node and again after a restart"""
        r = self.r
        c = r.choice(["c1", "c2"])
        mine = [x for x in SVC if x.startswith(c + ":")]
        svc = r.choice(mine)
        ev = r.choice(["LogoutService", "LogoutService", "FreezeService"])
        who = f"ca{c[1]}" if ev == "LogoutService" else r.choice(ADMINS)
        self.submit(who, f"service {ev} s:{svc} s:reason", "service-" + ev[:-7].lower(), "service", svc)
        ref, kind, mod, obj = self.props[-1]
        self.vote_all(ref, mod, obj, "approve")
        trip = r.choice([("FreezeAppchain", "approve", "ActivateAppchain", "approve"),
                         ("FreezeAppchain", "approve", "ActivateAppchain", "approve"),
                         ("LogoutAppchain", "reject", None, None),
                         ("FreezeAppchain", "approve", "ActivateAppchain", "reject")])
        for evc, ballot in ((trip[0], trip[1]), (trip[2], trip[3])):
            if evc is None:
                continue
            whoc = f"ca{c[1]}" if evc == "LogoutAppchain" else r.choice(ADMINS)
            self.submit(whoc, f"appchain {evc} s:{c} s:reason", "appchain-" + evc[:-8].lower(), "appchain", c)
            ref, kind, mod, obj = self.props[-1]
            self.vote_all(ref, mod, obj, ballot)
            for x in mine:
                self.observe(x)
        self.tags.add(f"cascade:{ev}+{trip[0]}")
        other = "c4:s1"
        for rnd in range(2):
            for x in mine:
                for f, t in ((x, other), (other, x)):
                    i = self.idx.get((f, t), 1)
                    self.observe(f)
                    self.observe(t)
                    self.ops.append(f"block ibtp ca{f[1]} {f} {t} {i} req 0 - ok")
                    self.observe(f)
                    self.observe(t)
                    self.idx[(f, t)] = i + 1
            if rnd == 0:
                self.ops.append("restart")
                self.tags.add("restart")

    def scripted_reopened_under_freeze(self):
        """a lower-priority proposal about a service is paused by a logout of the service; the appchain is frozen while the
        service is `logouting` (the cascade cannot pause it); the logout is then voted down or withdrawn, which re-opens the
        paused proposal: whatever status the service returns to, it must not be usable under the frozen appchain — read
        back and probed, on the running node and after a restart"""
        r = self.r
        c = r.choice(["c1", "c2", "c4"])
        svc = r.choice([x for x in SVC if x.startswith(c + ":")])
        low = r.choice(["FreezeService", "FreezeService", "UpdateService"])
        if low == "UpdateService":
            self.submit(f"ca{c[1]}", f"service UpdateService s:{svc} s:newname-{r.randint(0, 99)} s:intro s:~ s:details s:reason", "service-update", "service", svc)
        else:
            self.submit(r.choice(ADMINS), f"service FreezeService s:{svc} s:reason", "service-freeze", "service", svc)
        p_low = self.props[-1]
        self.submit(f"ca{c[1]}", f"service LogoutService s:{svc} s:reason", "service-logout", "service", svc)
        p_hi = self.props[-1]
        self.ops.append(f"q prop {p_low[0]}")
        self.submit(r.choice(ADMINS), f"appchain FreezeAppchain s:{c} s:reason", "appchain-freeze", "appchain", c)
        p_ch = self.props[-1]
        self.vote_all(p_ch[0], "appchain", c, "approve")
        self.observe(svc)
        if r.random() < 0.3:
            self.ops.append(f"block bvm ca{c[1]} gov WithdrawProposal s:{p_hi[0]} s:reason")
            self.ops.append(f"q prop {p_hi[0]}")
        else:
            self.vote_all(p_hi[0], "service", svc, "reject")
        self.ops.append(f"q prop {p_low[0]}")
        self.observe(svc)
        self.tags.add(f"reopened-under-freeze:{low}")
        other = "c2:s1" if c != "c2" else "c4:s1"
        for rnd in range(2):
            for f, t in ((svc, other), (other, svc)):
                i = self.idx.get((f, t), 1)
                self.observe(f)
                self.observe(t)
                self.ops.append(f"block ibtp ca{f[1]} {f} {t} {i} req 0 - ok")
                self.observe(f)
                self.observe(t)
                self.idx[(f, t)] = i + 1
            if rnd == 0:
                self.ops.append("restart")
                self.tags.add("restart")

    def scripted_stale_proposal_under_frozen_chain(self):
        """a proposal about a service stays open (made while the service was available) while the world moves on: the appchain
        is frozen (the service is paused), the chain's admin asks for the service's logout (the service is `logouting`); then the
        old proposal is withdrawn or voted down, which puts the service back to the status the OLD proposal remembers.
        Whatever that is, the service must not be usable under the frozen appchain — read back and probed, before and after
        a restart"""
        r = self.r
        c = r.choice(["c1", "c2", "c4"])
        svc = r.choice([x for x in SVC if x.startswith(c + ":")])
        sponsor = r.choice(ADMINS)
        self.submit(sponsor, f"service FreezeService s:{svc} s:reason", "service-freeze", "service", svc)
        p_old = self.props[-1]
        how = r.choice(["freeze", "freeze", "update-rejected"])
        if how == "freeze":
            self.submit(r.choice(ADMINS), f"appchain FreezeAppchain s:{c} s:reason", "appchain-freeze", "appchain", c)
            self.vote_all(self.props[-1][0], "appchain", c, "approve")
        else:
            self.upd = getattr(self, "upd", 0) + 1
            self.submit(f"ca{c[1]}", f"appchain UpdateAppchain s:{c} s:name-{c}-w{self.upd} s:desc x: s:@ca{c[1]} s:reason", "appchain-update", "appchain", c)
            self.vote_all(self.props[-1][0], "appchain", c, "reject")
        self.observe(svc)
        self.submit(f"ca{c[1]}", f"service LogoutService s:{svc} s:reason", "service-logout", "service", svc)
        self.observe(svc)
        if r.random() < 0.5:
            self.ops.append(f"block bvm {sponsor} gov WithdrawProposal s:{p_old[0]} s:reason")
            self.ops.append(f"q prop {p_old[0]}")
        else:
            self.vote_all(p_old[0], "service", svc, "reject")
        self.observe(svc)
        self.tags.add(f"stale-proposal-under-frozen-chain:{how}")
        other = "c2:s1" if c != "c2" else "c4:s1"
        for rnd in range(2):
            for f, t in ((svc, other), (other, svc)):
                i = self.idx.get((f, t), 1)
                self.observe(f)
                self.observe(t)
                self.ops.append(f"block ibtp ca{f[1]} {f} {t} {i} req 0 - ok")
                self.observe(f)
                self.observe(t)
                self.idx[(f, t)] = i + 1
            if rnd == 0:
                self.ops.append("restart")
                self.tags.add("restart")

    def scripted_logout_of_activating_chain(self):
        """a frozen appchain is being activated (proposal open) when its logout is proposed, which pauses the activation; the
        logout is voted down or withdrawn: the chain is back to `activating`, it was never activated, so none of its services
        may interchange; then the activation is concluded either way; services read back and probed, also after a restart"""
        r = self.r
        c = r.choice(["c1", "c2", "c4"])
        mine = [x for x in SVC if x.startswith(c + ":")]
        self.submit(r.choice(ADMINS), f"appchain FreezeAppchain s:{c} s:reason", "appchain-freeze", "appchain", c)
        ref, kind, mod, obj = self.props[-1]
        self.vote_all(ref, mod, obj, "approve")
        for x in mine:
            self.observe(x)
        self.submit(r.choice(ADMINS), f"appchain ActivateAppchain s:{c} s:reason", "appchain-activate", "appchain", c)
        p_act = self.props[-1]
        self.submit(f"ca{c[1]}", f"appchain LogoutAppchain s:{c} s:reason", "appchain-logout", "appchain", c)
        p_out = self.props[-1]
        for x in mine:
            self.observe(x)
        if r.random() < 0.3:
            self.ops.append(f"block bvm ca{c[1]} gov WithdrawProposal s:{p_out[0]} s:reason")
            self.ops.append(f"q prop {p_out[0]}")
        else:
            self.vote_all(p_out[0], "appchain", c, "reject")
        self.ops.append(f"q prop {p_act[0]}")

        def probes():
            other = "c2:s1" if c != "c2" else "c4:s1"
            for x in mine:
                for f, t in ((x, other), (other, x)):
                    i = self.idx.get((f, t), 1)
                    self.observe(f)
                    self.observe(t)
                    self.ops.append(f"block ibtp ca{f[1]} {f} {t} {i} req 0 - ok")
                    self.observe(f)
                    self.observe(t)
                    self.idx[(f, t)] = i + 1
        probes()
        last = r.choice(["approve", "reject", "reject", None])
        if last:
            self.vote_all(p_act[0], "appchain", c, last)
            for x in mine:
                self.observe(x)
        self.ops.append("restart")
        self.tags.add("restart")
        probes()
        self.tags.add(f"logout-of-activating-chain:{last}")

    def systematic(self):
        """a random word over the whole alphabet of governance operations on ONE service and its appchain — freeze / activate /
        logout of the service or of the chain, each approved at once, rejected at once or left open, and the conclusion
        (approve / reject / withdraw) of the oldest open proposal — instead of hand-written scenarios; everything is read
        back after every step, and the service is probed as source and destination at the end, before and after a restart"""
        r = self.r
        c = r.choice(["c1", "c2", "c4"])
        mine = [x for x in SVC if x.startswith(c + ":")]
        svc = r.choice(mine)
        open_props = []
        word = []
        for _ in range(r.randint(3, 6)):
            k = r.random()
            if k < 0.75 or not open_props:
                target = r.choice(["S", "S", "C"])
                op = r.choice(["Freeze", "Activate", "Logout"])
                outcome = r.choice(["A", "A", "R", "O"])
                if target == "S":
                    who = f"ca{c[1]}" if op == "Logout" else r.choice(ADMINS)
                    self.submit(who, f"service {op}Service s:{svc} s:reason", "service-" + op.lower(), "service", svc)
                elif r.random() < 0.25:
                    # the chain's own admin changes the chain's name: an update that needs a vote
                    self.upd = getattr(self, "upd", 0) + 1
                    op = "Update"
                    self.submit(f"ca{c[1]}", f"appchain UpdateAppchain s:{c} s:name-{c}-v{self.upd} s:desc x: s:@ca{c[1]} s:reason", "appchain-update", "appchain", c)
                else:
                    who = f"ca{c[1]}" if op == "Logout" else r.choice(ADMINS)
                    self.submit(who, f"appchain {op}Appchain s:{c} s:reason", "appchain-" + op.lower(), "appchain", c)
                ref, kind, mod, obj = self.props[-1]
                if outcome == "O":
                    open_props.append((ref, mod, obj))
                else:
                    self.vote_all(ref, mod, obj, "approve" if outcome == "A" else "reject")
                word.append(target + op[0] + outcome)
            else:
                ref, mod, obj = open_props.pop(0)
                how = r.choice(["approve", "reject", "reject", "withdraw"])
                if how == "withdraw":
                    creator = ref[1:].rsplit("-", 1)[0]
                    self.ops.append(f"block bvm {creator} gov WithdrawProposal s:{ref} s:reason")
                    self.ops.append(f"q prop {ref}")
                else:
                    self.vote_all(ref, mod, obj, how)
                word.append("X" + how[0])
            for x in mine:
                self.observe(x)
        self.tags.add("systematic")
        self.tags.add("word-length:%d" % len(word))
        other = "c2:s1" if c != "c2" else "c4:s1"
        for rnd in range(2):
            for f, t in ((svc, other), (other, svc)):
                i = self.idx.get((f, t), 1)
                self.observe(f)
                self.observe(t)
                self.ops.append(f"block ibtp ca{f[1]} {f} {t} {i} req 0 - ok")
                self.observe(f)
                self.observe(t)
                self.idx[(f, t)] = i + 1
            if rnd == 0:
                self.ops.append("restart")
                self.tags.add("restart")

    def scripted_rule_update_under_freeze(self):
        """the master rule of an appchain is updated (approved or rejected) while the appchain is frozen (or being activated): the
        rule update pauses and un-pauses the chain by its own cascade, which must not lift the approved freeze: the chain's
        services stay unusable; read back and probed, before and after a restart"""
        r = self.r
        # c3 is the chain of the world that has a second bindable rule (the accept-everything rule next to its own)
        c = "c3"
        mine = [x for x in SVC if x.startswith(c + ":")]
        self.submit(r.choice(ADMINS), f"appchain FreezeAppchain s:{c} s:reason", "appchain-freeze", "appchain", c)
        ref, kind, mod, obj = self.props[-1]
        self.vote_all(ref, mod, obj, "approve")
        for x in mine:
            self.observe(x)
        self.submit(f"ca{c[1]}", f"rule UpdateMasterRule s:{c} s:{HAPPY} s:reason", "rule-update", "rule", c)
        ref, kind, mod, obj = self.props[-1]
        for x in mine:
            self.observe(x)
        ballot = r.choice(["approve", "approve", "reject"])
        for v in ["adm0", "adm1", "adm2"]:
            self.ops.append(f"block bvm {v} gov Vote s:{ref} s:{ballot} s:r")
        self.ops.append(f"q prop {ref}")
        self.ops.append(f"q obj rule {c}")
        for x in mine:
            self.observe(x)
        self.tags.add(f"rule-update-under-freeze:{ballot}")
        other = "c4:s1"
        for rnd in range(2):
            for x in mine:
                for f, t in ((x, other), (other, x)):
                    i = self.idx.get((f, t), 1)
                    self.observe(f)
                    self.observe(t)
                    self.ops.append(f"block ibtp ca{f[1]} {f} {t} {i} req 0 - ok")
                    self.observe(f)
                    self.observe(t)
                    self.idx[(f, t)] = i + 1
            if rnd == 0:
                self.ops.append("restart")
                self.tags.add("restart")

    def scripted_permission_update(self):
        """the owner of a destination service changes who may call it (`UpdateService` with the same name and details: no proposal,
        effective at once): a source it now blocks must be turned away (recorded as begin-failed) on the running node as after a
        restart, a source it no longer blocks must get through"""
        r = self.r
        d = r.choice(["c2:s1", "c1:s1", "c4:s1", "c2:s3"])
        srcs = [x for x in SVC if x.split(":")[0] != d.split(":")[0] and x != "c3:s1"]
        f, g = r.sample(srcs, 2)
        dc, dsid = d.split(":")
        name = f"svc-{dc}-{dsid}"

        def probe(x):
            i = self.idx.get((x, d), 1)
            self.observe(x)
            self.observe(d)
            self.ops.append(f"block ibtp ca{x[1]} {x} {d} {i} req 0 - ok")
            self.observe(x)
            self.observe(d)
            self.idx[(x, d)] = i + 1
        force = getattr(self, "force", {})
        warm = r.random() < 0.75
        if force.get("warm", warm):
            # the executor caches a service record only when it saw an event for it in this process: a freeze and an activation of
            # the destination (both approved) put its record into the cache first
            for op in ("FreezeService", "ActivateService"):
                self.submit(r.choice(ADMINS), f"service {op} s:{d} s:reason", "service-" + op[:-7].lower(), "service", d)
                ref, kind, mod, obj = self.props[-1]
                self.vote_all(ref, mod, obj, "approve")
            self.observe(d)
            self.tags.add("permission-update:cache-warm")
        probe(f)
        self.ops.append(f"block bvm ca{dc[1]} service UpdateService s:{d} s:{name} s:intro-{r.randint(0, 9)} s:1356:{f} s:details s:reason")
        self.observe(d)
        probe(f)
        probe(g)
        if r.random() < 0.5:
            self.ops.append("restart")
            self.tags.add("restart")
            probe(f)
        rename = r.random() < 0.5
        if force.get("rename", rename):
            # an update that does need a vote (the name changes) and leaves the list of blocked sources as it is: approved or not,
            # the blocked source stays blocked
            self.submit(f"ca{dc[1]}", f"service UpdateService s:{d} s:{name}-v2 s:intro s:1356:{f} s:details s:reason", "service-update", "service", d)
            ref, kind, mod, obj = self.props[-1]
            ballot = r.choice(["approve", "approve", "reject"])
            ballot = force.get("ballot", ballot)
            self.vote_all(ref, mod, obj, ballot)
            self.observe(d)
            probe(f)
            probe(g)
            if r.random() < 0.5:
                self.ops.append("restart")
                self.tags.add("restart")
                probe(f)
            self.tags.add("permission-update:rename-keeps-the-list:" + ballot)
            self.tags.add("permission-update-scenario")
            return
        self.ops.append(f"block bvm ca{dc[1]} service UpdateService s:{d} s:{name} s:intro s:{'1356:' + g if r.random() < 0.5 else '~'} s:details s:reason")
        self.observe(d)
        probe(f)
        probe(g)
        self.tags.add("permission-update-scenario")

    def late_vote(self):
        if not self.pending:
            return self.govern()
        ref, mod, obj = self.pending.pop(self.r.randrange(len(self.pending)))
        self.tags.add("late-conclusion")
        self.conclude(ref, mod, obj)


def gen_c16(rng, n, tier):
    import random as _r
    hs = []
    # every run starts with one history of each scripted scenario, the variants of the permission update spelled out: which
    # scenarios a run of 60 histories meets must not be left to the draw (a rename that keeps the list of blocked sources, approved,
    # came up in none of the 184 evaluations of a quick run)
    forced = [(0.92, {"warm": True, "rename": True, "ballot": "approve"}), (0.92, {"warm": True, "rename": True, "ballot": "reject"}),
              (0.92, {"warm": False, "rename": True, "ballot": "approve"}), (0.92, {"rename": False}),
              (0.1, {}), (0.3, {}), (0.5, {}), (0.65, {}), (0.75, {}), (0.85, {}), (0.97, {}), (2.0, {})]
    for hi in range(n):
        r = _r.Random(rng.getrandbits(64))
        g = LcGen(r)
        g.tags = {"c16"}
        g.hub = r.random() < 0.25
        g.ops.append(f"world audit={r.choice([0, 0, 1])} price=1" + (" hub=1" if g.hub else ""))
        for s in SVC:
            g.observe(s)
        k0 = r.random()
        if r.random() < 0.3 and hi >= len(forced):
            g.systematic()
            k0 = 1.0
        if hi < len(forced):
            k0, g.force = forced[hi]
            g.tags.add("forced-scenario")
        if k0 >= 2.0:
            g.scripted_unpaid_concluding_vote()
        elif k0 < 0.25:
            for _ in range(r.randint(0, 2)):
                g.govern()
            g.scripted_overlap()
        elif k0 < 0.45:
            g.scripted_sequence()
        elif k0 < 0.6:
            g.scripted_cascade()
        elif k0 < 0.72:
            g.scripted_reopened_under_freeze()
        elif k0 < 0.82:
            g.scripted_logout_of_activating_chain()
        elif k0 < 0.9:
            g.scripted_rule_update_under_freeze()
        elif k0 < 0.95:
            g.scripted_permission_update()
        else:
            g.scripted_stale_proposal_under_frozen_chain()
        for _ in range(r.randint(5, 14)):
            k = r.random()
            if k < 0.5:
                g.ibtp()
            elif k < 0.8:
                g.govern()
            elif k < 0.9:
                g.late_vote()
            else:
                g.ops.append("restart")
                g.tags.add("restart")
        for s in SVC + g.dyn:
            g.observe(s)
        hs.append(History(g.ops, tags=g.tags))
    return hs


def mon_c16(h, obs):
    hits = []
    tables, avail = load_lifecycle()
    status = {}        # (kind, id) -> latest status
    once_forbidden = set()
    chain_frozen = {}  # appchain -> an approved freeze / logout took effect and no activation has been approved since
    blacklist = set(BLACKLIST)   # (source, destination) pairs blocked by the destination; follows successful permission updates
    blocks_since = {}  # (kind,id) -> number of block ops since its last observation
    rejected_update = set()   # services whose UPDATE proposal was read back rejected / withdrawn and that were not seen unusable since
    steps = list(zip(h.ops, obs))

    def usable_fp(s_id):
        # the recorded finding (known_findings.json): a rejected update restores the status its proposal remembers and does not pause
        # the service again under an unavailable appchain — its own fingerprint, so that it swallows nothing else
        return "C16/service-usable-on-unusable-appchain" + ("/after-rejected-update" if s_id in rejected_update else "")
    for i, (op, o) in enumerate(steps):
        ws = op.split()
        if ws[0] in ("block", "restart"):
            for k in blocks_since:
                blocks_since[k] += 1
        if ws[0] == "q" and ws[1] == "prop" and o:
            mp = re.search(r"status=(\S+) .*typ=service_mgr ev=update obj=(\S+)", o)
            if mp and mp.group(1) == "reject":
                rejected_update.add(mp.group(2))
        if ws[0] == "q" and ws[1] == "obj" and ws[2] in ("appchain", "service", "role", "node", "rule"):
            kind, oid = ws[2], ws[3]
            m = re.search(r"status=(\S+)", o)
            new = m.group(1) if m else "unavailable"        # no record yet: the FSMs call that `unavailable`
            key = (kind, oid)
            old = status.get(key)
            if kind == "rule" and m and "master=true" in o and new in ("bindable", "binding", "forbidden"):
                # the rule an appchain's proofs are judged by is its master rule; a rule that is merely bindable (again) — a proposed rule
                # the vote turned down, a former master — is no master rule
                hits.append(Hit(f"C16/master-rule-not-available/{new}", f"the master rule of {oid} is reported with status {new}", detail=op))
            if key in once_forbidden and new != "forbidden" and kind != "rule":
                hits.append(Hit(f"C16/logged-out-object-revived/{kind}", f"{kind} {oid} was forbidden and is now {new}", detail=op))
            if new == "forbidden":
                once_forbidden.add(key)
            if old is not None and new != old and blocks_since.get(key, 0) == 1 and kind in tables:
                # one block can take an object through several transitions (e.g. unpause, then the restored proposal's own
                # event): the change must be a path of at most 3 transitions of the table
                def nxt(st):
                    out = set()
                    for e in tables[kind]:
                        if st in e["src"]:
                            out.add(e["dst"])
                    return out
                frontier, reach = {old}, set()
                for _ in range(3):
                    step = set()
                    for st in frontier:
                        for d in nxt(st):
                            if d == "<last>":
                                step |= {x for e in tables[kind] for x in e["src"]} | {"available", "unavailable", "frozen", "bindable"}
                            else:
                                step.add(d)
                    reach |= step
                    frontier = step
                edge = new in reach
                if not edge:
                    hits.append(Hit(f"C16/status-change-off-lifecycle/{kind}/{old}->{new}",
                                    f"{kind} {oid} went {old} -> {new}, which is no transition of its state machine", detail=steps[i - 1][0] if i else op))
            status[key] = new
            blocks_since[key] = 0
            if kind == "service" and new not in set(avail.get("service", ["available"])):
                rejected_update.discard(oid)
            if kind == "appchain":
                if new in ("frozen", "forbidden"):
                    chain_frozen[oid] = True
                elif new in set(avail.get("appchain", ["available"])):
                    chain_frozen[oid] = False
            # cascade, whenever a service and its appchain were both observed since the last block: a frozen / logged-out
            # appchain has no usable service
            if kind in ("appchain", "service"):
                ca_id = oid.split(":")[0]
                pairs = [(ca_id, oid)] if kind == "service" else [(ca_id, k2[1]) for k2 in status if k2[0] == "service" and k2[1].split(":")[0] == ca_id]
                for c_id, s_id in pairs:
                    if blocks_since.get(("appchain", c_id), 9) == 0 and blocks_since.get(("service", s_id), 9) == 0:
                        ca, ss = status.get(("appchain", c_id)), status.get(("service", s_id))
                        # ... also while the chain is on its way out of `frozen` without an approved activation (activating,
                        # logouting after frozen): the approved freeze still stands
                        if (ca in ("frozen", "forbidden") or (chain_frozen.get(c_id) and ca not in set(avail.get("appchain", ["available"])))) \
                                and ss in set(avail.get("service", ["available"])):
                            hits.append(Hit(usable_fp(s_id), f"appchain {c_id} is {ca} but its service {s_id} is {ss}", detail=op))
        if ws[0] == "block" and len(ws) > 8 and ws[1] == "bvm" and ws[3] == "service" and ws[4] == "UpdateService" and " | " not in op:
            m = mon_exec.BLK.match(o)
            if m and m.group(2) and m.group(2).split()[0].startswith("S:"):
                dst = ws[5][2:]
                permits = ws[8][2:]
                blacklist = {p for p in blacklist if p[1] != dst}
                if permits not in ("~", ""):
                    for x in permits.split(","):
                        blacklist.add((x[5:] if x.startswith("1356:") else x, dst))
        if ws[0] == "block" and len(ws) > 2 and ws[1] == "ibtp" and " | " not in op:
            m = mon_exec.BLK.match(o)
            if not m or not m.group(2):
                continue
            rc = m.group(2).split()[0]
            f, t = ws[3], ws[4]
            sa = set(avail.get("service", ["available"]))
            aa = set(avail.get("appchain", ["available"]))
            fs, ts = status.get(("service", f)), status.get(("service", t), "unavailable")
            fresh = all(blocks_since.get(("service", x), 9) <= 1 for x in (f, t) if x.count(":") == 1)
            ok = rc.startswith("S:")
            ret = rc.split(":")[1] if ":" in rc else ""
            if f.count(":") == 2 and f.split(":")[0] != "1356":
                # relayed from another BitXHub: usable as a source iff that hub is a registered, available relay chain here
                # (world option hub=1: 9999 is, nothing else)
                if " hub=1" in h.ops[0] and f.startswith("9999:"):
                    fs = "available"
                else:
                    if ok:
                        hits.append(Hit("C16/request-from-unregistered-hub-accepted", f"request {f}->{t} accepted ({rc}) although BitXHub {f.split(':')[0]} is not registered here", detail=op))
                    continue
            if fs is None or not fresh:
                continue
            if fs not in sa and ok:
                hits.append(Hit("C16/unavailable-source-accepted", f"request {f}->{t} accepted ({rc}) while the source service is {fs}", detail=op))
            dst_bad = ts not in sa or (f, t) in blacklist
            if fs in sa and ok:
                if dst_bad and ret != "begin_failure":
                    hits.append(Hit("C16/unusable-destination-recorded-for-execution", f"request {f}->{t}: destination service is {ts}{' (blacklists the source)' if (f, t) in blacklist else ''} but the receipt is {rc}", detail=op))
                if not dst_bad and ret == "begin_failure":
                    hits.append(Hit("C16/usable-destination-begin-failed", f"request {f}->{t}: both services available but the receipt is {rc}", detail=op))
            # cascade: a frozen / logged-out appchain has no usable service
            for svc in (f, t):
                ca = status.get(("appchain", svc.split(":")[0]))
                ss = status.get(("service", svc))
                if ca is not None and ss is not None and ca not in aa and (ca in ("frozen", "forbidden") or chain_frozen.get(svc.split(":")[0])) and ss in sa:
                    hits.append(Hit(usable_fp(svc), f"appchain {svc.split(':')[0]} is {ca} but its service {svc} is {ss}", detail=op))
    return hits


def tags_c16(h, obs):
    t = set()
    for op, o in zip(h.ops, obs):
        if op.startswith("q obj"):
            m = re.search(r"status=(\S+)", o)
            if m:
                t.add(op.split()[2] + ":" + m.group(1))
        if op.startswith("block ibtp") and " | " not in op:
            m = mon_exec.BLK.match(o)
            if m and m.group(2):
                t.add("probe:" + m.group(2).split()[0][:18])
    return t


def mask_c16(impl, model, ops=None):
    """the exec model does not follow governance operations: once one of them succeeded on the real node the service records
    of the model are stale, so the comparison of that history stops there"""
    oi, om = mon_exec.mask_unmodelled(impl, model, ops)
    if ops is None:
        return oi, om
    for idx in range(min(len(oi), len(om), len(ops))):
        if ops[idx].startswith("block bvm") and re.search(r" (gov|service|appchain|role|rule) ", ops[idx]) and idx < len(impl) and impl[idx] and "rc=[S:" in impl[idx]:
            return oi[:idx + 1], om[:idx + 1]
    return oi, om
