"""Runs one property check end to end (DESIGN §3.3)."""
import json
import os
import random
import sys
import time

from . import core
from .core import History, log


class Hit:
    def __init__(self, fp, desc, hist=None, detail=None):
        self.fp = fp            # fingerprint (stable, specific failing shape)
        self.desc = desc
        self.hist = hist
        self.detail = detail


class EngineSpec:
    """How a property uses one correspondence engine."""
    def __init__(self, name, gen, monitor=None, tags=None, corpus=None, quick_n=200, thorough_n=5000, timeout=900, canon=None, mask=None, hyp_alarm=None):
        self.name = name
        self.gen = gen              # gen(rng, n, tier) -> [History]
        self.monitor = monitor      # monitor(hist, obs) -> [Hit]
        self.tags = tags            # tags(hist, obs) -> set(str)  branch tags (non-triviality)
        self.corpus = corpus or name
        self.quick_n = quick_n
        self.thorough_n = thorough_n
        self.timeout = timeout
        self.canon = canon          # canon(lines) -> lines: engine-specific canonicalisation of implementation output
        self.mask = mask            # mask(impl_lines, model_lines) -> (impl, model): blank what the model declares outside its domain
        self.hyp_alarm = hyp_alarm or {}   # model annotation token -> (fingerprint, text): the model itself says that the hypothesis of a
                                           # property theorem fails in the state it is in (and the state is a violation by itself)


class PropSpec:
    def __init__(self, pid, engines, facts=None, lean_extra=None, rule="", statics=None):
        self.pid = pid
        self.engines = engines
        self.facts = facts or []          # names of Gen items this property depends on
        self.lean_extra = lean_extra or []
        self.rule = rule
        self.statics = statics or []      # extra static checks: fn() -> [Hit] / broken-tie strings


def diff_sides(es, io, mo, ops=None):
    a = core.compared(io)
    mo = [x.partition(" ##m ")[0] if x else x for x in mo]      # model-only annotations are not part of the answer
    mo0 = list(mo)
    if es.mask:
        a, mo = es.mask(a, mo, ops)
    d = core.first_diff(a, mo)
    if d is None:
        # a mask may end the comparison of a history early (the model does not follow what came before); a step on which the
        # real code panicked or died is never masked: the model answers every step
        for i, x in enumerate(core.compared(io)):
            if x and x.startswith(("PANIC", "DIED")) and (i >= len(mo0) or mo0[i] != x):
                return i, x, mo0[i] if i < len(mo0) else "<missing>"
    return d


def load_corpus(engine_dir):
    d = os.path.join(core.VERIF, "corpus", engine_dir)
    hs = []
    if os.path.isdir(d):
        for f in sorted(os.listdir(d)):
            if f.endswith(".ops"):
                lines = [l.rstrip("\n") for l in open(os.path.join(d, f))]
                ops = [l for l in lines if l.strip() and not l.startswith("#")]
                tags = set()
                for l in lines:
                    if l.startswith("#tags:"):
                        tags |= set(l[6:].split())
                hs.append(History(ops, tags=tags, name="corpus/" + engine_dir + "/" + f))
    return hs


def run_property(spec, tier, seed, extract=None):
    t0 = time.time()
    pid = spec.pid
    out_lines = []          # KNOWN-FINDING / VIOLATION lines for stdout
    broken = []             # (kind, name, text): proof / tie / correspondence that no longer checks
    hits = []               # monitor hits
    known = [k for k in core.load_known_findings() if k.get("property") == pid and k.get("status", "open") == "open"]
    known_fps = {k["fingerprint"] for k in known}

    # 1. extract facts ------------------------------------------------------------------
    facts_info = {}
    if extract is not None:
        ok, info = extract(spec)
        facts_info = info
        for b in info.get("broken", []):
            broken.append(("tie", b["name"], b["text"]))

    # 2. prove ----------------------------------------------------------------------------
    theorems = core.props_theorems(pid)
    rc, out = core.lake_build(core.props_modules(pid) + spec.lean_extra)
    discharged = 0
    axioms = {}
    if rc != 0:
        errs = core.lean_errors(out)
        broken.append(("proof", f"Bxh.Props.{pid}", "\n".join(errs[:12]) or out[-1500:]))
    else:
        arc, axioms, aout = core.audit_axioms(pid, theorems)
        for t in theorems:
            ax = axioms.get(t)
            if ax is None:
                broken.append(("proof", t, "axiom audit produced no result: " + aout[-300:]))
            elif set(ax) - core.ALLOWED_AXIOMS:
                broken.append(("proof", t, "uses axioms outside the allowed set: " + ",".join(ax)))
            else:
                discharged += 1
        forb = core.lean_forbidden_scan()
        if forb:
            broken.append(("proof", "forbidden-construct-scan", "; ".join(forb[:10])))
            discharged = 0
    if tier == "thorough" and rc == 0:
        crc, cout = core.sh(["lake", "env", "leanchecker", f"Bxh.Props.{pid}"], cwd=core.LEAN, timeout=3000)
        if crc != 0:
            broken.append(("proof", "leanchecker", cout[-500:]))

    # 3. build harness + model driver -----------------------------------------------------
    hrc, hout = core.build_harness()
    mrc, mout = core.build_model()
    if hrc != 0:
        broken.append(("correspondence", "harness-build", hout[-1500:]))
    if mrc != 0:
        broken.append(("correspondence", "model-driver-build", "\n".join(core.lean_errors(mout)[:10])))

    # 4/5/6. correspond + monitor -----------------------------------------------------------
    rng = random.Random(seed)
    evaluations = 0
    shapes_nontrivial = set()
    tag_hist = {}
    op_hist = {}
    samples = []
    disagreements = []
    known_seen = set()
    for es in spec.engines:
        if hrc != 0:
            break
        n = es.thorough_n if tier == "thorough" else es.quick_n
        # if something is already broken, widen the search for a failing input
        if broken and tier != "thorough":
            n = max(n, min(es.thorough_n, n * 4))
        corpus = load_corpus(es.corpus)
        gen = es.gen(random.Random(rng.getrandbits(64)), n, tier)
        hs = corpus + gen
        ti = time.time()
        # a quick run of an engine takes well under a minute; an implementation that hangs is cut off after five
        to = es.timeout if tier == "thorough" else min(es.timeout, 300)
        impl = core.run_side(core.impl_cmd(es.name), hs, timeout=to)
        if es.canon:
            impl = [es.canon(x) for x in impl]
        tm = time.time()
        model = core.run_side(core.model_cmd(es.name), hs, timeout=es.timeout) if mrc == 0 else [None] * len(hs)
        log(f"[{pid}] engine {es.name}: {len(hs)} histories impl {tm-ti:.1f}s model {time.time()-tm:.1f}s")
        for h, io, mo in zip(hs, impl, model):
            evaluations += 1
            # model-only annotations (` ##m key=value ...` at the end of a model line): whether the hypotheses of a theorem
            # hold of the state the model is in.  They are counted into the evidence and removed before the comparison.
            hyp_hits = []
            if mo is not None:
                for j, line in enumerate(mo):
                    if line and " ##m " in line:
                        base, _, ann = line.partition(" ##m ")
                        mo[j] = base
                        for tok in ann.split():
                            tag_hist["model:" + tok] = tag_hist.get("model:" + tok, 0) + 1
                            if tok in es.hyp_alarm and j < len(io) and not (io[j] or "").startswith(("PANIC", "DIED")):
                                fp, text = es.hyp_alarm[tok]
                                hyp_hits.append((fp, f"{text} (op {j}: {h.ops[j] if j < len(h.ops) else '?'})"))
            for o in h.ops:
                k = o.split(" ")[0]
                op_hist[k] = op_hist.get(k, 0) + 1
            tags = {t for t in h.tags if not t.startswith("view-pairs:")}      # positional bookkeeping for a monitor, not a branch tag
            if es.tags:
                tags |= es.tags(h, io)
            for t in tags:
                tag_hist[t] = tag_hist.get(t, 0) + 1
            if tags:
                shapes_nontrivial.add(es.name + ":" + core.shape_of(h.ops) + ":" + ",".join(sorted(tags)))
            if len(samples) < 4 and tags and not h.name:
                samples.append({"engine": es.name, "ops": h.ops[:25], "impl_obs": io[:25]})
            if es.monitor:
                for hit in es.monitor(h, io):
                    hit.hist = h
                    hit.engine = es.name
                    hit.obs = io
                    if hit.fp in known_fps:
                        known_seen.add(hit.fp)
                    else:
                        hits.append(hit)
            if mo is not None:
                if len(io) < len(h.ops):
                    mo = mo[:len(io)]      # the implementation process died inside this history: compare up to there
                d = diff_sides(es, io, mo, h.ops)
                if d is not None:
                    disagreements.append((es, h, d, io, mo))
                else:
                    # model and code agree on this history, and the model says the state violates the property
                    for fp, text in hyp_hits[:1]:
                        hit = Hit(fp, text)
                        hit.hist, hit.engine, hit.obs = h, es.name, io
                        if hit.fp in known_fps:
                            known_seen.add(hit.fp)
                        else:
                            hits.append(hit)

    # further searches of the property (other builds of the harness, other observers): fn(tier, seed, tag_hist) -> [Hit] --------
    for fn in spec.statics:
        if hrc != 0:
            break
        for hit in fn(tier, seed, tag_hist):
            evaluations += 1
            if hit is None:
                continue
            if hit.fp in known_fps:
                known_seen.add(hit.fp)
            else:
                hits.append(hit)

    # shrink + record disagreements ------------------------------------------------------
    seen_dis = set()
    for (es, h, d, io, mo) in disagreements[:3]:
        def still(ops, es=es):
            hh = [History(ops)]
            a = core.run_side(core.impl_cmd(es.name), hh, timeout=120, stall=20)[0]
            if es.canon:
                a = es.canon(a)
            b = core.run_side(core.model_cmd(es.name), hh, timeout=120)[0]
            if len(a) < len(ops):
                b = b[:len(a)]
            return diff_sides(es, a, b, ops) is not None
        small = core.shrink(es.name, h, still, budget=60 if tier == "quick" else 200)
        hh = [History(small)]
        a = core.run_side(core.impl_cmd(es.name), hh, timeout=120, stall=20)[0]
        if es.canon:
            a = es.canon(a)
        b = core.run_side(core.model_cmd(es.name), hh, timeout=120)[0]
        if len(a) < len(small):
            b = b[:len(a)]
        dd = diff_sides(es, a, b, small) or d
        key = (es.name, small[dd[0]].split(" ")[0] if dd[0] < len(small) else "?")
        if key in seen_dis:
            continue
        seen_dis.add(key)
        # does the monitor hit on the shrunk sequence? then it is a concrete failing input
        mh = es.monitor(History(small), a) if es.monitor else []
        mh = [x for x in mh if x.fp not in known_fps]
        for x in mh:
            x.hist = History(small)
            x.engine = es.name
            x.obs = a
            hits.append(x)
        broken.append(("correspondence", f"engine {es.name} vs Lean model",
                       json.dumps({"ops": small, "line": dd[0], "impl": dd[1], "model": dd[2],
                                   "from": h.name or "generated"})))
    if len(disagreements) > 3:
        log(f"[{pid}] {len(disagreements)} disagreeing histories in total (first 3 shrunk)")

    # 7. classify ---------------------------------------------------------------------------
    for k in known:
        if k["fingerprint"] in known_seen:
            out_lines.append(f"KNOWN-FINDING: property={pid} {k['description']}")
        else:
            log(f"[{pid}] note: known finding {k['fingerprint']} did not reproduce in this run")
    violations = 0
    reported = set()
    os.makedirs(os.path.join(core.VERIF, "replay"), exist_ok=True)
    for hit in hits:
        if hit.fp in reported:
            continue
        reported.add(hit.fp)
        violations += 1
        rp = os.path.join("replay", f"{pid}-{_safe(hit.fp)}.json")
        core.write_json(os.path.join(core.VERIF, rp), {
            "property": pid, "kind": "failing-input", "fingerprint": hit.fp, "what": hit.desc,
            "engine": getattr(hit, "engine", None), "seed": seed, "tier": tier,
            "ops": hit.hist.ops if hit.hist else None, "impl_obs": getattr(hit, "obs", None),
            "detail": hit.detail,
            "broken": [{"kind": b[0], "name": b[1], "text": b[2]} for b in broken],
            "replay_cmd": f"./check replay {rp}"})
        out_lines.append(f"VIOLATION property={pid} replay={rp}")
    if broken and violations == 0:
        violations += 1
        rp = os.path.join("replay", f"{pid}-broken.json")
        core.write_json(os.path.join(core.VERIF, rp), {
            "property": pid, "kind": "no-failing-input-found", "seed": seed, "tier": tier,
            "no_longer_checks": [{"kind": b[0], "name": b[1], "text": b[2]} for b in broken],
            "facts_diff": facts_info.get("diff"),
            "searched": {"evaluations": evaluations, "engines": [e.name for e in spec.engines]}})
        out_lines.append(f"VIOLATION property={pid} replay={rp} no-failing-input-found")

    # 8. evidence ---------------------------------------------------------------------------
    ev = {
        "property_id": pid, "tier": tier, "seed": seed, "level": "proof",
        "coverage": {
            "obligations": max(1, len(theorems)), "discharged": discharged,
            "checker_cmd": f"cd lean && lake build Bxh.Props.{pid} && lake env lean Bxh/Audit/{pid}.lean  (#print axioms of every theorem)"
                           + (" && lake env leanchecker Bxh.Props." + pid if tier == "thorough" else ""),
            "trusted_base": [
                "Lean 4.33.0 kernel" + (" + leanchecker re-check" if tier == "thorough" else ""),
                "axioms used by the property theorems: " + ", ".join(sorted({a for v in axioms.values() if v for a in v})) if axioms else "axioms: (build failed)",
                "reading of the property into the Prop definitions in lean/Bxh/Props/" + pid + ".lean",
                "hand-written Lean model tied to /repo by the correspondence engines " + ", ".join(e.name for e in spec.engines)
                + " (differential runs of real code vs model; generator quality bounds what is seen)",
            ] + (["fact extractor go/extract (tables regenerated from source on this run): " + ", ".join(spec.facts)] if spec.facts else []),
            "theorems": theorems,
            "axioms": axioms,
            "evaluations": evaluations,
            "distinct_nontrivial": len(shapes_nontrivial),
            "rule": spec.rule,
            "samples": samples or [{"note": "no generated sample (correspondence did not run)"}],
            "traces_validated_against_impl": evaluations - len(disagreements),
            "disagreements": len(disagreements),
            "op_histogram": op_hist, "branch_tags": tag_hist,
            "facts": facts_info.get("summary"),
            "known_findings_reproduced": sorted(known_seen),
            "broken": [{"kind": b[0], "name": b[1]} for b in broken],
        },
        "assumptions": spec_assumptions(spec),
        "wall_s": round(time.time() - t0, 2),
        "violations": violations,
    }
    core.write_json(os.path.join(core.VERIF, "evidence", f"{pid}.json"), ev)
    for l in out_lines:
        print(l, flush=True)
    print(f"[{pid}] tier={tier} seed={seed} theorems={discharged}/{len(theorems)} evaluations={evaluations} "
          f"nontrivial={len(shapes_nontrivial)} disagreements={len(disagreements)} violations={violations} "
          f"wall={time.time()-t0:.1f}s", flush=True)
    return 1 if violations else 0


def _safe(s):
    return "".join(c if c.isalnum() or c in "-_." else "_" for c in s)[:80]


def spec_assumptions(spec):
    return [
        "external libraries are model parameters, not verified: LevelDB, blockfile/OS, golang-lru, SHA-256, ECDSA, rule engine/wasm, EVM/XVM, protobuf/JSON, govaluate, looplab FSM, reflect, etcd/raft, libp2p",
        "agreement model/code is established on the generated histories only (numbers above)",
    ]
