"""Model-free monitors over implementation traces of the `exec` engine.

A trace is the op list of a history plus the implementation's observation lines.  Everything
here is computed from receipts, status queries, counters and block metadata as the real node
reported them — never from the Lean model."""
import re

from .runner import Hit
from .gen_exec import ORDERED

BLK = re.compile(r"^h=(\d+) rc=\[(.*?)\] counter=\{(.*?)\} timeout=\{(.*?)\} multi=\{(.*?)\}(?: route=\{(.*?)\})?(?: ## (.*))?$")


def parse_lists(s):
    """'c1:[a,b];c2:[c]' -> {c1:[a,b], c2:[c]}"""
    out = {}
    if not s:
        return out
    for part in s.split(";"):
        m = re.match(r"^(.*?):\[(.*)\]$", part)
        if m:
            out[m.group(1)] = [x for x in m.group(2).split(",") if x != ""]
    return out


class Tx:
    def __init__(self, toks):
        self.kind = toks[0]
        self.toks = toks
        if self.kind == "ibtp":
            self.signer, self.frm, self.to = toks[1], toks[2], toks[3]
            self.index = int(toks[4])
            self.typ = toks[5]
            self.timeout = int(toks[6])
            self.group = None if toks[7] == "-" else toks[7]
            self.proof = toks[8]
            self.ext = toks[9] if len(toks) > 9 else None    # the Extra field: x:bf / x:br = another hub's begin-failure / rollback notice
            self.id = f"1356:{self.frm}-1356:{self.to}-{self.index}" if self.frm.count(":") == 1 and self.to.count(":") == 1 else None
            # a transaction between this hub and another one (one side written with its hub id): tracked only in histories that
            # registered that hub (before, such a request is begin-failed and the id stays out of the protocol monitors)
            fl = lambda x: x if x.count(":") == 2 else "1356:" + x
            self.hubid = (f"{fl(self.frm)}-{fl(self.to)}-{self.index}"
                          if self.id is None and {self.frm.count(":"), self.to.count(":")} == {1, 2} and all(p for p in (self.frm + ":" + self.to).split(":")) else None)
        elif self.kind == "xfer":
            self.frm, self.to, self.amt = toks[1], toks[2], toks[3]
        elif self.kind == "bvm":
            self.signer, self.contract, self.method, self.args = toks[1], toks[2], toks[3], toks[4:]
        elif self.kind == "eth":
            self.signer, self.to, self.amt, self.gas, self.gasprice = toks[1], toks[2], toks[3], toks[4], toks[5]
        else:
            self.signer = toks[1] if len(toks) > 1 else None


class Rc:
    def __init__(self, s):
        p = s.split(":")
        self.ok = p[0] == "S"
        self.txstatus = p[-1]
        self.ret = ":".join(p[1:-1])


class Block:
    pass


def parse_trace(h, obs):
    """Returns a list of steps: ('world', opts) | ('block', Block) | ('q', kind, arg, value) | ('restart',)"""
    steps = []
    txlog = []        # the token lists of every transaction of the history, in order: `again <k>` is the k-th once more
    for op, o in zip(h.ops, obs):
        ws = op.split()
        if ws[0] == "world":
            steps.append(("world", dict(x.split("=") for x in ws[1:] if "=" in x), o))
            txlog = []
        elif ws[0] == "block":
            m = BLK.match(o)
            b = Block()
            b.raw = o
            b.op = op
            txs, cur, toks = [], [], []

            def close(cur):
                if len(cur) == 2 and cur[0] == "again" and cur[1].isdigit():
                    k = int(cur[1])
                    # (an index behind the log names a transaction of this very block)
                    src = txlog[k] if k < len(txlog) else (toks[k - len(txlog)] if k - len(txlog) < len(toks) else None)
                    if src is not None:
                        cur = list(src)
                toks.append(list(cur))
                txs.append(Tx(cur))
            for w in ws[1:]:
                if w == "|":
                    if cur:
                        close(cur)
                    cur = []
                else:
                    cur.append(w)
            if cur:
                close(cur)
            if not (o or "").startswith("bad-op"):
                txlog.extend(toks)
            b.txs = txs
            b.ok = m is not None
            if m:
                b.h = int(m.group(1))
                b.rcs = [Rc(x) for x in m.group(2).split()] if m.group(2) else []
                b.counter = {k: [tuple(int(y) for y in x.split("/")) for x in v] for k, v in parse_lists(m.group(3)).items()}
                b.timeout = parse_lists(m.group(4))
                b.multi = parse_lists(m.group(5))
                b.route = m.group(6) or ""
                rest = m.group(7) or ""
                rm = re.search(r"rawtimeout=\{(.*?)\} rawmulti=\{(.*?)\}", rest)
                b.rawtimeout = parse_lists(rm.group(1)) if rm else {}
                b.rawmulti = parse_lists(rm.group(2)) if rm else {}
                b.diverged = "REPLICA-DIVERGED" in o
            steps.append(("block", b))
        elif ws[0] == "q":
            steps.append(("q", ws[1], ws[2] if len(ws) > 2 else "", o, ws))
        elif ws[0] == "restart":
            steps.append(("restart", o))
        else:
            steps.append(("other", op, o))
    return steps


def parse_counter_map(s):
    # ic={a=1,b=2} rc={} sic={} src={}
    out = {}
    for name, body in re.findall(r"(\w+)=\{(.*?)\}", s):
        d = {}
        for kvp in body.split(","):
            if "=" in kvp:
                k, v = kvp.rsplit("=", 1)
                d[k] = int(v)
        out[name] = d
    return out


def chain_of(svc):
    return svc.split(":")[0]


# ------------------------------------------------------------------------------------------ C02

def mon_c02(h, obs):
    hits = []
    acc_req = {}   # (f,t) -> list of accepted request indices, in order
    acc_rcpt = {}
    fee_failed = set()   # ids of requests that were processed and then failed to pay the fee
    grouped = set()      # pairs that carried a one-to-many child: an accepted child receipt need not finalise anything
    hub_req = {}         # (full from, full to) across two BitXHubs -> indices of accepted requests
    hubworld = any(op.startswith("world") and " hub=1" in op for op in h.ops[:1])
    for st in parse_trace(h, obs):
        if st[0] == "block":
            b = st[1]
            if not b.ok:
                continue
            for tx in b.txs:
                if tx.kind == "ibtp" and tx.id is not None and tx.group is not None and tx.typ == "req":
                    # (a REQUEST with a Group begins a one-to-many child; a receipt that merely carries a Group field for a
                    # one-to-one request finalises it like any other receipt and is counted — seeding round 27)
                    grouped.add((tx.frm, tx.to))
            listed = {}
            for c, vs in b.counter.items():
                for v in vs:
                    listed.setdefault(v[0], []).append(c)
            # every entry of the delivery set points at a transaction of THIS block with a successful receipt
            for idx, chains in sorted(listed.items()):
                if idx >= len(b.txs) or idx >= len(b.rcs) or not b.rcs[idx].ok:
                    what = "no such transaction in the block" if idx >= len(b.txs) else f"receipt {'FAILED ' + b.rcs[idx].ret if idx < len(b.rcs) else 'missing'}"
                    hits.append(Hit("C02/delivery-entry-without-accepted-transaction",
                                    f"the delivery set of block {b.h} lists transaction index {idx} for {chains}: {what} ({len(b.txs)} transactions in the block)", detail=b.raw))
            for i, (tx, rc) in enumerate(zip(b.txs, b.rcs)):
                if tx.kind == "ibtp" and tx.id is None and getattr(tx, "hubid", None) and hubworld and tx.typ == "req" and rc.ok:
                    # a pair across two BitXHubs (world option hub=1): an accepted request that is not the other hub's notice for a request
                    # accepted before is a NEW request of the pair: it carries the next index and is counted
                    fl = lambda x: x if x.count(":") == 2 else "1356:" + x
                    hp = (fl(tx.frm), fl(tx.to))
                    if hp[1].startswith("1356:") and not ORDERED.get(hp[1][5:], True):
                        continue      # an unordered local destination: its requests are not index-checked
                    lst = hub_req.setdefault(hp, [])
                    if tx.index in lst and tx.ext in ("x:bf", "x:br"):
                        pass      # the notice: it ends the transaction, it is no request
                    else:
                        if tx.index != len(lst) + 1:
                            hits.append(Hit("C02/request-index-order/interhub",
                                            f"request {tx.hubid} accepted but the pair had accepted {lst} (expected index {len(lst)+1})", detail=b.op))
                        lst.append(tx.index)
                if tx.kind != "ibtp" or tx.id is None:
                    continue
                pair = (tx.frm, tx.to)
                ordered_pair = ORDERED.get(tx.to, True) and ORDERED.get(tx.frm, True)
                if tx.typ == "req":
                    if rc.ok:
                        lst = acc_req.setdefault(pair, [])
                        if ORDERED.get(tx.to, True) and tx.index != len(lst) + 1:
                            hits.append(Hit("C02/request-index-order",
                                            f"request {tx.id} accepted but the pair had accepted {lst} (expected index {len(lst)+1})",
                                            detail=b.op))
                        lst.append(tx.index)
                        # delivery: exactly once, in this block, for the destination chain
                        if ORDERED.get(tx.to, True) and listed.get(i, []).count(chain_of(tx.to)) != 1:
                            hits.append(Hit("C02/accepted-not-listed-once",
                                            f"accepted request {tx.id} (tx {i} of block {b.h}) is listed {listed.get(i, [])} in the block's delivery set",
                                            detail=b.raw))
                    else:
                        if rc.ret == "fee":
                            fee_failed.add(tx.id)
                        if i in listed:
                            fp = "C02/fee-failed-ibtp-listed" if rc.ret == "fee" else f"C02/rejected-request-listed/{rc.ret}"
                            hits.append(Hit(fp,
                                            f"rejected request {tx.id} (receipt FAILED {rc.ret}) is announced in the delivery set of block {b.h} for {listed[i]}",
                                            detail=b.raw))
                elif tx.typ in ("ok", "fail", "rb"):
                    if rc.ok:
                        lst = acc_rcpt.setdefault(pair, [])
                        if tx.index != len(lst) + 1 and ordered_pair:
                            hits.append(Hit("C02/receipt-index-order",
                                            f"receipt {tx.typ} for {tx.id} accepted but accepted receipts of the pair were {lst}", detail=b.op))
                        if tx.index not in acc_req.get(pair, []):
                            if tx.id in fee_failed:
                                hits.append(Hit("C02/receipt-for-fee-failed-request",
                                                f"receipt for {tx.id} accepted although that request was rejected (FAILED: fee) — its tx record, "
                                                f"written with the non-journaled Add, survived the revert", detail=b.op))
                            else:
                                hits.append(Hit("C02/receipt-for-unaccepted-request",
                                                f"receipt for {tx.id} accepted although that request was never accepted", detail=b.op))
                        lst.append(tx.index)
                    elif i in listed:
                        fp = "C02/fee-failed-ibtp-listed" if rc.ret == "fee" else f"C02/rejected-receipt-listed/{rc.ret}"
                        hits.append(Hit(fp,
                                        f"rejected receipt for {tx.id} is announced in the delivery set of block {b.h}", detail=b.raw))
        elif st[0] == "q" and st[1] == "ic" and st[3] != "none" and not st[3].startswith("bad"):
            svc = st[2]
            m = parse_counter_map(st[3])
            if hubworld:
                # pairs across two BitXHubs: the request counter of the source service is the number of requests accepted for the pair
                fsvc = svc if svc.count(":") == 2 else "1356:" + svc
                for (f, t), lst in hub_req.items():
                    if f == fsvc and m.get("ic", {}).get(t, 0) != len(lst):
                        hits.append(Hit("C02/interchain-counter-mismatch/interhub",
                                        f"GetInterchain({svc}).InterchainCounter[{t}] = {m.get('ic', {}).get(t, 0)} but the requests accepted for the pair are {lst}", detail=st[3]))
            if svc.count(":") == 2 and not svc.startswith("1356:"):
                continue           # the record of a service on another BitXHub: the local rules below do not apply
            for (f, t), lst in acc_req.items():
                if not ORDERED.get(t, True):
                    continue
                if f == svc and m.get("ic", {}).get("1356:" + t, 0) != len(lst):
                    hits.append(Hit("C02/interchain-counter-mismatch",
                                    f"GetInterchain({svc}).InterchainCounter[{t}] = {m.get('ic', {}).get('1356:'+t, 0)} but {len(lst)} requests were accepted ({lst})",
                                    detail=st[3]))
                if t == svc and lst and m.get("sic", {}).get("1356:" + f, 0) != lst[-1]:
                    hits.append(Hit("C02/source-counter-mismatch",
                                    f"GetInterchain({svc}).SourceInterchainCounter[{f}] = {m.get('sic', {}).get('1356:'+f, 0)} but last accepted request index is {lst[-1]}",
                                    detail=st[3]))
            # receipts: on a pair of ordered services without one-to-many traffic every accepted receipt finalises its
            # transaction, so the receipt counter (and its mirror on the destination) is the number of accepted receipts
            for (f, t), lst in acc_rcpt.items():
                if (f, t) in grouped or not (ORDERED.get(t, True) and ORDERED.get(f, True)):
                    continue
                if f == svc and m.get("rc", {}).get("1356:" + t, 0) != len(lst):
                    hits.append(Hit("C02/receipt-counter-mismatch",
                                    f"GetInterchain({svc}).ReceiptCounter[{t}] = {m.get('rc', {}).get('1356:'+t, 0)} but {len(lst)} receipts were accepted ({lst})",
                                    detail=st[3]))
                if t == svc and m.get("src", {}).get("1356:" + f, 0) != len(lst):
                    hits.append(Hit("C02/source-receipt-counter-mismatch",
                                    f"GetInterchain({svc}).SourceReceiptCounter[{f}] = {m.get('src', {}).get('1356:'+f, 0)} but {len(lst)} receipts were accepted ({lst})",
                                    detail=st[3]))
            for t_full, v in m.get("rc", {}).items():
                if t_full.count(":") == 2 and not t_full.startswith("1356:"):
                    continue       # a service on another BitXHub: those pairs are followed by the protocol monitors (C04 / C06) only
                t = t_full.split(":", 1)[1] if t_full.count(":") == 2 else t_full
                if (svc, t) not in grouped and ORDERED.get(t, True) and ORDERED.get(svc, True) and v != len(acc_rcpt.get((svc, t), [])):
                    hits.append(Hit("C02/receipt-counter-mismatch",
                                    f"GetInterchain({svc}).ReceiptCounter[{t}] = {v} but accepted receipts are {acc_rcpt.get((svc, t), [])}", detail=st[3]))
            # entries for pairs with no accepted request must be absent / zero
            for t_full, v in m.get("ic", {}).items():
                if t_full.count(":") == 2 and not t_full.startswith("1356:"):
                    continue
                t = t_full.split(":", 1)[1] if t_full.count(":") == 2 else t_full
                if ORDERED.get(t, True) and v != len(acc_req.get((svc, t), [])):
                    hits.append(Hit("C02/interchain-counter-mismatch",
                                    f"GetInterchain({svc}).InterchainCounter[{t}] = {v} but accepted requests are {acc_req.get((svc, t), [])}",
                                    detail=st[3]))
    hits += route_hits(h, obs, "C02")
    return hits


def tags_c02(h, obs):
    t = set()
    for st in parse_trace(h, obs):
        if st[0] == "block" and st[1].ok:
            for tx, rc in zip(st[1].txs, st[1].rcs):
                if tx.kind == "ibtp":
                    t.add(f"ibtp:{'req' if tx.typ == 'req' else 'rcpt'}:{'ok' if rc.ok else rc.ret}")
    return t


# ------------------------------------------------------------------------------------------ C04 / C06
# Protocol automaton of a one-to-one cross-chain transaction, written from the property text:
#   request accepted           -> BEGIN(0)   (BEGIN_FAILURE(1) when the destination is unavailable)
#   BEGIN  + success receipt   -> SUCCESS(3);  BEGIN + failure receipt -> FAILURE(4)
#   BEGIN  at height H+T with no accepted receipt in blocks <= H+T -> BEGIN_ROLLBACK(2), listed once for the source chain
#   BEGIN_FAILURE + failure    -> FAILURE(4)
#   BEGIN_ROLLBACK + rollback/failure receipt -> ROLLBACK(5)
#   3,4,5 final.
MAXU64 = 2 ** 64 - 1
EDGE = {(0, "ok"): 3, (0, "fail"): 4, (1, "fail"): 4, (2, "rb"): 5, (2, "fail"): 5}
REACH = {None: {None, 0, 1, 2, 3, 4, 5}, 0: {0, 2, 3, 4, 5}, 1: {1, 4}, 2: {2, 5}, 3: {3}, 4: {4}, 5: {5}}


class One:
    def __init__(self):
        self.status = None
        self.deadline = None   # height at which it times out, or None
        self.H = None
        self.listed_at = []
        self.batch_rcpt = False   # a receipt returning 'batch_ibtp' (unordered SOURCE service) was accepted


def mon_c04_c06(h, obs, which):
    """which in {'C04','C06'}: same trace interpretation, hits are attributed by clause."""
    hits = []
    ones = {}        # id -> One (non-group ids only)
    group_ids = set()
    seen = {}        # id -> last observed status (for the path check)
    fee_failed = set()

    def hit(prop, fp, msg, detail=None, tid=None):
        if prop != which:
            return
        o = ones.get(tid) if tid else None
        if tid is not None and tid in fee_failed:
            # every later anomaly on this id stems from the record that survived the fee-failure revert
            fp = f"{prop}/status-of-fee-failed-request"
        elif o is not None and o.batch_rcpt and ("timed-out" in fp or "overwritten" in fp or "final-changed" in fp or "altered-by-timeout" in fp):
            fp = f"{prop}/unordered-source-receipt-not-removed"
        hits.append(Hit(fp, msg, detail=detail))

    interhub = any("s:relaychain" in o for o in h.ops) or " hub=1" in h.ops[0]
    for st in parse_trace(h, obs):
        if st[0] == "block":
            b = st[1]
            if not b.ok:
                continue
            for i, (tx0, rc) in enumerate(zip(b.txs, b.rcs)):
                if tx0.kind != "ibtp" or (tx0.id is None and not (interhub and tx0.hubid)):
                    continue
                tx = tx0
                if tx0.id is None:
                    import copy as _copy
                    tx = _copy.copy(tx0)
                    tx.id = tx0.hubid
                if tx.group is not None and (tx.typ == "req" or tx.id not in ones) and tx0.id is not None:
                    # (between two BitXHubs a request is begun one-to-one whatever it carries in Group: it stays in this monitor)
                    # a REQUEST carrying a Group declares a one-to-many child.  A receipt that carries one for an id begun
                    # one-to-one is still that transaction's receipt (the field is the sender's to fill)
                    group_ids.add(tx.id)
                    continue
                if tx.id in group_ids:
                    continue
                o = ones.setdefault(tx.id, One())
                if tx.typ == "req" and not rc.ok and rc.ret == "fee":
                    fee_failed.add(tx.id)
                if tx.typ == "req" and rc.ok and tx0.id is None and o.status is not None and tx.ext in ("x:bf", "x:br"):
                    # between two BitXHubs: the request handed back with the destination hub's notice (its status over there is
                    # BEGIN_FAILURE / BEGIN_ROLLBACK) ends a transaction that is at BEGIN here: FAILURE resp. ROLLBACK
                    if o.status == 0:
                        o.status = 4 if tx.ext == "x:bf" else 5
                        o.deadline = None
                        if rc.ret == "batch_ibtp":
                            o.batch_rcpt = True
                    else:
                        fp = "C04/notice-after-final" if o.status in (3, 4, 5) else "C04/notice-off-protocol"
                        hit("C04", fp, f"notice '{tx.ext}' for {tx.id} accepted in block {b.h} while the protocol status was {o.status}", b.op, tid=tx.id)
                elif tx.typ == "req" and rc.ok:
                    if rc.ret == "batch_ibtp":
                        # documented batch mode (unordered destination): outside the ordered protocol
                        group_ids.add(tx.id)
                        continue
                    if o.status is not None:
                        hit("C04", "C04/request-accepted-twice", f"request {tx.id} accepted again in block {b.h} while its status was {o.status}", b.op, tid=tx.id)
                    o.status = 1 if rc.ret == "begin_failure" else 0
                    o.H = b.h
                    T = tx.timeout
                    o.deadline = b.h + T if (o.status == 0 and 0 < T < MAXU64 - b.h) else None
                elif tx.typ in ("ok", "fail", "rb") and rc.ok:
                    if rc.ret == "batch_ibtp" and o.status is None:
                        continue
                    if rc.ret == "batch_ibtp":
                        o.batch_rcpt = True
                    nxt = EDGE.get((o.status, tx.typ))
                    if nxt is None:
                        fp = "C04/receipt-after-final" if o.status in (3, 4, 5) else "C04/receipt-off-protocol"
                        hit("C04", fp, f"receipt '{tx.typ}' for {tx.id} accepted in block {b.h} while the protocol status was {o.status}", b.op, tid=tx.id)
                    else:
                        o.status = nxt
                        if nxt in (3, 4):
                            o.deadline = None
            # timeouts due in this block
            listed = {}
            for c, ids in b.timeout.items():
                for x in ids:
                    listed.setdefault(x, []).append(c)
            for tid, o in ones.items():
                if tid in group_ids:
                    continue
                if o.deadline == b.h and o.status == 0:
                    o.status = 2
                    src_chain = tid.split("-")[0].split(":")[1] if tid.startswith("1356:") else "default_union_pier_id"
                    if listed.get(tid, []) != [src_chain]:
                        hit("C06", "C06/timeout-not-listed-at-deadline",
                            f"{tid} accepted at {o.H} reached its timeout height {b.h} without a receipt but the block's timeout list has it for {listed.get(tid, [])}", b.raw, tid=tid)
                    o.listed_at.append(b.h)
                elif tid in listed:
                    why = "after-failure-receipt" if o.status == 4 else ("after-success-receipt" if o.status == 3 else f"status-{o.status}")
                    hit("C06", f"C06/listed-as-timed-out/{why}",
                        f"{tid} is listed as timed out in block {b.h} (for {listed[tid]}) but its protocol status is {o.status} (accepted at {o.H}, deadline {o.deadline})", b.raw, tid=tid)
        elif st[0] == "q" and st[1] == "status":
            tid = st[2]
            if tid in group_ids or tid not in ones:
                continue
            val = None if st[3] == "none" else int(st[3]) if st[3].isdigit() else "?"
            o = ones[tid]
            if val == "?":
                continue
            prev = seen.get(tid)
            if val not in REACH.get(prev, set()):
                kind = "final-changed" if prev in (3, 4, 5) else "off-protocol-path"
                hit("C04", f"C04/status-{kind}/{prev}->{val}",
                    f"status of {tid} went from {prev} to {val}, which is not a path of the protocol state machine", st[3], tid=tid)
            seen[tid] = val
            if val != o.status:
                # attribute: a timeout-driven change belongs to C06, everything else to C04
                if val == 2 and o.status in (3, 4, 5):
                    hit("C06", f"C06/status-altered-by-timeout/{o.status}->2",
                        f"{tid} had reached final status {o.status} by an accepted receipt, yet the timeout mechanism moved it to BEGIN_ROLLBACK", st[3], tid=tid)
                    hit("C04", f"C04/final-status-overwritten/{o.status}->2",
                        f"{tid}: final status {o.status} was overwritten with BEGIN_ROLLBACK", st[3], tid=tid)
                else:
                    hit("C04", f"C04/status-query-mismatch/{o.status}-vs-{val}",
                        f"GetStatus({tid}) = {val} but the accepted events lead to {o.status}", st[3], tid=tid)
                o.status = val   # resynchronise to avoid cascades
    return hits


def mon_c04(h, obs):
    return mon_c04_c06(h, obs, "C04")


def mon_c06(h, obs):
    return mon_c04_c06(h, obs, "C06") + route_hits(h, obs, "C06")


def route_hits(h, obs, prop):
    """what the interchain router hands to the piers (`route=` of a block line, harness route.go: the real router's subscription
    feed and its fetch-again path, compared with the block's interchain meta): the transactions of a destination belong to C02's
    delivery clause, the timed-out ids to C06, the one-to-many notifications to C05"""
    hits = []
    for op, o in zip(h.ops, obs):
        if not o or " route=" not in o:
            continue
        r = o.rsplit(" route=", 1)[1].split()[0]
        if r == "ok" or not r.startswith("bad:"):
            continue
        parts = r.split(":")
        what = parts[3] if len(parts) > 3 else "?"
        kind = what.split("=")[0].split("[")[0]
        owner = "C06" if kind == "timeouts" else ("C05" if kind == "multi" else "C02")
        if owner == prop:
            hits.append(Hit(f"{prop}/router-delivery/{parts[1] if len(parts) > 1 else '?'}/{kind}",
                            f"after `{op[:70]}` the router hands pier {parts[2] if len(parts) > 2 else '?'} something else than the block's interchain meta says ({r})", detail=op))
            break
    return hits


def tags_c04(h, obs):
    t = set()
    last = {}
    for st in parse_trace(h, obs):
        if st[0] == "q" and st[1] == "status" and st[3].isdigit():
            p = last.get(st[2])
            if p != st[3]:
                t.add(f"edge:{p}->{st[3]}")
            last[st[2]] = st[3]
        if st[0] == "block" and st[1].ok and st[1].timeout:
            t.add("timeout-fired")
    return t


# ------------------------------------------------------------------------------------------ C14

def parse_bals(s):
    d = {}
    for p in s.split():
        if "=" in p:
            k, v = p.split("=", 1)
            try:
                d[k] = int(v)
            except ValueError:
                return None
    return d


def mon_c14(h, obs):
    hits = []
    prev = None
    last_block = None
    nadm = 4
    for st in parse_trace(h, obs):
        if st[0] == "block":
            last_block = st[1]
        elif st[0] == "q" and st[1] == "bals":
            cur = parse_bals(st[3])
            if cur is None:
                continue
            for a, v in cur.items():
                if v < 0 and not (prev is not None and prev.get(a, 0) < 0):
                    b = last_block
                    why = "negative-amount" if b and any(t.kind == "xfer" and t.amt.startswith("-") for t in b.txs) else "other"
                    hits.append(Hit(f"C14/negative-balance/{why}", f"balance of {a} is {v} after block {b.h if b and b.ok else '?'}",
                                    detail=(b.op if b else None)))
            if prev is not None and last_block is not None and last_block.ok:
                b = last_block
                s0, s1 = sum(prev.values()), sum(cur.values())
                # transfers to accounts outside the observed set legitimately move value out of the sum
                out = 0
                if s1 > s0:
                    selfx = any(t.kind == "xfer" and t.frm == t.to for t in b.txs)
                    neg = any(t.kind == "xfer" and t.amt.startswith("-") for t in b.txs)
                    why = "self-transfer" if selfx else ("negative-amount" if neg else "other")
                    hits.append(Hit(f"C14/value-created/{why}",
                                    f"sum of balances grew by {s1 - s0} in block {b.h}", detail=b.op))
                # fees leave the sender and reach the admins: nothing but the rounding of the split (at most nadm-1 units per
                # transaction) and what a successful transfer hands to an account outside the observed set may leave the sum
                if not any(t.kind not in ("xfer", "ibtp", "bvm") for t in b.txs) and len(b.txs) == len(b.rcs):
                    out = 0
                    for t, rc in zip(b.txs, b.rcs):
                        if t.kind == "xfer" and rc.ok and t.to not in cur:
                            try:
                                out += max(0, int(t.amt))
                            except ValueError:
                                pass
                    lost = s0 - s1 - out
                    if lost > (nadm - 1) * len(b.txs):
                        starved = any((not rc.ok) and rc.ret == "fee" and (t.frm if t.kind == "xfer" else (t.signer or "")).startswith("adm") for t, rc in zip(b.txs, b.rcs))
                        hits.append(Hit("C14/value-destroyed/" + ("admin-sender-cannot-pay" if starved else "other"),
                                        f"{lost} units left the observed accounts in block {b.h} and reached no admin (allowed rounding loss: {(nadm - 1) * len(b.txs)})", detail=b.op))
                # exactness for single-transfer blocks between observed accounts
                if len(b.txs) == 1 and b.txs[0].kind == "xfer" and len(b.rcs) == 1:
                    t, rc = b.txs[0], b.rcs[0]
                    try:
                        amt = int(t.amt)
                    except ValueError:
                        amt = 0
                    if t.frm in cur and t.to in cur and t.frm != t.to and amt >= 0:
                        dsend = cur[t.frm] - prev[t.frm]
                        drecv = cur[t.to] - prev[t.to]
                        adm_gain = {a: cur[a] - prev[a] for a in cur if a.startswith("adm")}
                        share = adm_gain.get("adm3", 0) if t.to != "adm3" and t.frm != "adm3" else adm_gain.get("adm2", 0)
                        recv_share = share if t.to.startswith("adm") else 0
                        send_share = share if t.frm.startswith("adm") else 0       # a sending admin gets its share of the fee back
                        if rc.ok:
                            if drecv - recv_share != amt:
                                hits.append(Hit("C14/transfer-not-exact", f"transfer of {amt} credited {drecv - recv_share} to {t.to}", detail=b.raw))
                            fee = -(dsend - send_share + amt)
                            if fee < 0 or fee - nadm * share < 0 or fee - nadm * share > nadm - 1:
                                hits.append(Hit("C14/fee-rounding", f"sender paid fee {fee}, admins got {nadm}x{share}", detail=b.raw))
                        elif rc.ret == "funds":
                            if drecv - recv_share != 0:
                                hits.append(Hit("C14/failed-transfer-moved-value", f"failed transfer still credited {drecv - recv_share} to {t.to}", detail=b.raw))
            prev = cur
    return hits


def tags_c14(h, obs):
    t = set()
    for st in parse_trace(h, obs):
        if st[0] == "block" and st[1].ok:
            for tx, rc in zip(st[1].txs, st[1].rcs):
                if tx.kind == "xfer":
                    t.add("xfer:" + ("ok" if rc.ok else rc.ret))
                elif not rc.ok and rc.ret == "fee":
                    t.add("fee-failure")
    return t


# ------------------------------------------------------------------------------------------ C07

def parse_dump(o):
    if " ## " not in o:
        return None
    d = {}
    for p in o.split(" ## ", 1)[1].split():
        if "=" in p:
            k, v = p.rsplit("=", 1)
            d[k] = v
    return d


def key_class(k):
    """contract/key with ids replaced: a stable fingerprint component"""
    c, _, rest = k.partition("/")
    rest = re.sub(r"0x[0-9a-fA-F]{40}", "ADDR", rest)
    rest = re.sub(r"1356:[\w:]+-1356:[\w:]+-\d+", "IBTPID", rest)
    rest = re.sub(r"1356:[\w]+:[\w]+", "SVC", rest)
    rest = re.sub(r"\d+", "N", rest)
    return c + "/" + rest[:40]


def mon_c07(h, obs):
    hits = []
    steps = parse_trace(h, obs)
    for i, st in enumerate(steps):
        if st[0] == "block" and st[1].ok:
            b = st[1]
            # (a) a failed transaction is never announced in the delivery sets
            listed = {v[0] for vs in b.counter.values() for v in vs}
            for j, (tx, rc) in enumerate(zip(b.txs, b.rcs)):
                if not rc.ok and j in listed:
                    hits.append(Hit(f"C07/failed-tx-listed/{rc.ret}", f"tx {j} of block {b.h} failed ({rc.ret}) but is listed in the delivery set",
                                    detail=b.raw))
                if not rc.ok and tx.kind == "ibtp" and tx.id:
                    for c, ids in list(b.timeout.items()) + list(b.multi.items()):
                        pass
            if len(b.rcs) != len(b.txs):
                hits.append(Hit("C07/receipt-count", f"block {b.h}: {len(b.txs)} txs, {len(b.rcs)} receipts", detail=b.raw))
            # (b) all-failed block bracketed by dumps: only nonce/fee effects, unless a timeout fired in that block
            if i > 0 and i + 1 < len(steps) and steps[i - 1][0] == "q" and steps[i - 1][1] == "dump" and steps[i + 1][0] == "q" and steps[i + 1][1] == "dump":
                d0, d1 = parse_dump(steps[i - 1][3]), parse_dump(steps[i + 1][3])
                if d0 is None or d1 is None:
                    continue
                if all(not rc.ok for rc in b.rcs) and not b.rawtimeout and not b.timeout:
                    senders = set()
                    for tx in b.txs:
                        senders.add(tx.signer if tx.kind != "xfer" else tx.frm)
                    for k in sorted(set(d0) | set(d1)):
                        if d0.get(k) == d1.get(k):
                            continue
                        if k.startswith("bal/adm"):
                            continue
                        if k.startswith("bal/") or k.startswith("nonce/"):
                            who = k.split("/")[1]
                            if who in senders:
                                if k.startswith("nonce/") and int(d1[k]) - int(d0[k]) > sum(1 for tx in b.txs if (tx.signer if tx.kind != "xfer" else tx.frm) == who):
                                    hits.append(Hit("C07/nonce-overcount", f"{k}: {d0[k]} -> {d1[k]}", detail=b.raw))
                                if k.startswith("bal/") and int(d1[k]) > int(d0[k]):
                                    hits.append(Hit("C07/failed-tx-credited-sender", f"{k}: {d0[k]} -> {d1[k]}", detail=b.raw))
                                continue
                        hits.append(Hit(f"C07/failed-tx-changed-state/{key_class(k)}",
                                        f"block {b.h} (all receipts failed) changed {k}: {d0.get(k)} -> {d1.get(k)}", detail=b.op))
                    # what the senders lose is the fee, and the fee reaches the admins (up to the rounding of the split): a failed
                    # transaction destroys no value.  Evaluated when every sender is among the dumped accounts.
                    if all(("bal/" + s0) in d0 for s0 in senders):
                        delta = sum(int(d1.get(k, 0)) - int(d0.get(k, 0)) for k in set(d0) | set(d1) if k.startswith("bal/"))
                        if delta < -(3 * max(1, len(b.txs))):
                            hits.append(Hit("C07/failed-tx-destroyed-value", f"block {b.h} (all receipts failed): the observed balances lost {-delta} in total "
                                            f"(the fees of failed transactions go to the admins)", detail=b.op))
        # (c') a view execution leaves nothing in the view ledger either (the next view call would see it)
        if st[0] == "q" and st[1] == "view":
            mv = re.search(r"vstate=(\S+)", st[3])
            if mv and mv.group(1) != "0/0":
                hits.append(Hit("C07/view-left-state-in-view-ledger", f"after `{' '.join(st[4])}` the view ledger reads nonce/balance {mv.group(1)} for the simulated sender (expected 0/0)"))
        # (c) view executions between two dumps change nothing
        if st[0] == "q" and st[1] == "dump" and i + 1 < len(steps) and steps[i + 1][0] == "q" and steps[i + 1][1] == "view":
            j = i + 1
            while j < len(steps) and steps[j][0] == "q" and steps[j][1] == "view":
                j += 1
            if j < len(steps) and steps[j][0] == "q" and steps[j][1] == "dump":
                d0, d1 = parse_dump(st[3]), parse_dump(steps[j][3])
                if d0 is not None and d1 is not None and d0 != d1:
                    ks = [k for k in sorted(set(d0) | set(d1)) if d0.get(k) != d1.get(k)]
                    hits.append(Hit(f"C07/view-changed-state/{key_class(ks[0])}", f"read-only executions changed {ks[:4]}"))
    return hits


def tags_c07(h, obs):
    t = set()
    steps = parse_trace(h, obs)
    for i, st in enumerate(steps):
        if st[0] == "block" and st[1].ok:
            for tx, rc in zip(st[1].txs, st[1].rcs):
                if not rc.ok:
                    t.add(f"fail:{tx.kind}:{rc.ret}")
            if all(not rc.ok for rc in st[1].rcs) and st[1].rcs and i > 0 and steps[i - 1][0] == "q" and steps[i - 1][1] == "dump":
                t.add("bracketed-all-failed")
        if st[0] == "q" and st[1] == "view":
            t.add("view:" + st[3].split(" ## ")[-1][:3])
    return t


# ------------------------------------------------------------------------------------------ model domain mask

def mask_unmodelled(impl, model, ops=None):
    """The exec model prints `F:unmodelled:0` for a transaction outside its op language (governance / store calls, raw
    payloads, IBTPs with fields it cannot express).  Such a receipt is blanked on both sides; everything else of the block
    line is still compared.  When an unmodelled IBTP *succeeded* on the real node the model cannot follow its effects:
    the comparison of that history stops there."""
    oi, om = [], []
    n = min(len(impl), len(model))
    for idx in range(n):
        a, b = impl[idx], model[idx]
        ma, mb = re.match(r"^(h=\d+ rc=\[)(.*?)(\].*)$", a or ""), re.match(r"^(h=\d+ rc=\[)(.*?)(\].*)$", b or "")
        stop = False
        if ma and mb and ops is not None and idx < len(ops) and " sig:" in ops[idx]:
            # a transaction with a mutated signature: the verification library words the failure in many ways; the class
            # is normalised, the fact that it failed is still compared
            ra, rb = ma.group(2).split(" "), mb.group(2).split(" ")
            txs = [t.strip().split(" ") for t in ops[idx][len("block"):].split(" | ")]
            if len(ra) == len(rb) == len(txs):
                for i, t in enumerate(txs):
                    if t and t[0].startswith("sig:") and t[0] != "sig:ok" and ra[i].startswith("F:") and not ra[i].startswith("F:fee:"):
                        ra[i] = "F:bad-sig:0"
                    if t and t[0] == "sig:nofrom" and rb[i].startswith("F:"):
                        rb[i] = "F:bad-sig:0"      # the model words the sender-less failure as a fee failure of the empty account
                a = ma.group(1) + " ".join(ra) + ma.group(3)
                b = mb.group(1) + " ".join(rb) + mb.group(3)
                ma = re.match(r"^(h=\d+ rc=\[)(.*?)(\].*)$", a)
                mb = re.match(r"^(h=\d+ rc=\[)(.*?)(\].*)$", b)
        if ma and mb and "F:fee:?" in mb.group(2):
            # a transaction outside the model's op language whose sender cannot pay: both sides answer with the fee failure; the
            # TxStatus field of the failed receipt carries the discarded contract result, which the model prints as `?`
            ra, rb = ma.group(2).split(" "), mb.group(2).split(" ")
            if len(ra) == len(rb):
                for i, x in enumerate(rb):
                    if x == "F:fee:?" and ra[i].startswith("F:fee:"):
                        ra[i] = "F:fee:?"
                a = ma.group(1) + " ".join(ra) + ma.group(3)
                ma = re.match(r"^(h=\d+ rc=\[)(.*?)(\].*)$", a)
        if ma and mb and ops is not None and idx < len(ops) and (" eth " in ops[idx] or "rawtd " in ops[idx] or " ethx " in ops[idx]):
            # Ethereum transactions: the receipt is outside the model (blanked); a successful one changes balances the model
            # does not follow, so the comparison of the history stops there
            ra, rb = ma.group(2).split(" "), mb.group(2).split(" ")
            txs = [t.strip().split(" ") for t in ops[idx][len("block"):].split(" | ")]
            if len(ra) == len(rb) == len(txs):
                after_success = False
                for i, t in enumerate(txs):
                    if after_success:
                        ra[i] = rb[i] = "?"        # later transactions of the block see balances the model does not follow
                    elif t and (t[0] in ("eth", "ethx") or (t[0] == "rawtd" and len(t) > 4 and t[4] == "1" and t[3] != "0")):
                        # (an XVM transaction — raw transaction data with vm type 1 — is charged by the wasm engine's own gas
                        # count, which the model does not have)
                        # a successful one moves value, and a failed one may still have bought its gas (the EVM charges a
                        # transaction whose transfer cannot be covered after the gas was paid for)
                        stop = True
                        after_success = True
                        ra[i] = rb[i] = "?"
                a = ma.group(1) + " ".join(ra) + ma.group(3)
                b = mb.group(1) + " ".join(rb) + mb.group(3)
                ma = re.match(r"^(h=\d+ rc=\[)(.*?)(\].*)$", a)
                mb = re.match(r"^(h=\d+ rc=\[)(.*?)(\].*)$", b)
        if ma and mb and "F:unmodelled:0" in mb.group(2):
            ra, rb = ma.group(2).split(" "), mb.group(2).split(" ")
            if len(ra) == len(rb):
                txs = []
                if ops is not None and idx < len(ops):
                    txs = [t.strip().split(" ") for t in ops[idx][len("block"):].split(" | ")]
                for i, x in enumerate(rb):
                    if x == "F:unmodelled:0":
                        if ra[i].startswith("S:") and i < len(txs) and txs[i] and txs[i][0] in ("ibtp", "eth"):
                            stop = True
                        # a governance operation that succeeded may have changed service / appchain / role records the model
                        # does not follow (getters cannot)
                        if (ra[i].startswith("S:") and i < len(txs) and len(txs[i]) > 3 and txs[i][0] == "bvm"
                                and txs[i][2] in ("gov", "service", "appchain", "role", "rule", "node", "strategy")
                                and not re.match(r"^(Get|Is|Count|Has|Appchains|Nodes|Rules|Zero)", txs[i][3])):
                            stop = True
                        ra[i] = rb[i] = "?"
                a = ma.group(1) + " ".join(ra) + ma.group(3)
                b = mb.group(1) + " ".join(rb) + mb.group(3)
        if stop:
            # the model does not predict what a successful unmodelled transaction adds to this block's delivery / notification
            # sets either: of this last line only the receipts are compared
            cut = lambda x: re.sub(r"^(h=\d+ rc=\[.*?\]).*$", r"\1", x)
            return oi + [cut(a)], om + [cut(b)]
        oi.append(a)
        om.append(b)
    return oi + list(impl[len(oi):]), om + list(model[len(om):])


# ------------------------------------------------------------------------------------------ C05
# One-to-many transactions, written from the property text.  A group is identified by its source service and its declared
# child map; child ids are <from>-<to>-<index>.  `q status <child id>` answers the GLOBAL status of the child's group.

class Group:
    def __init__(self, frm, decl):
        self.frm = frm
        self.decl = decl               # {child id}
        self.begun = set()
        self.succeeded = set()
        self.failed = False            # any child failed at begin / by receipt, or the group timed out
        self.failed_at = None
        self.failed_by = None          # "begin-failure" | "failure-receipt" | "timeout"
        self.deadline = None
        self.finished = False          # all declared children succeeded


def _group_of(tx):
    if tx.kind != "ibtp" or tx.group is None:
        return None
    decl = set()
    for p in tx.group.split(","):
        if "=" not in p:
            return None
        t, i = p.rsplit("=", 1)
        if t.count(":") != 1 or not i.isdigit():
            return None
        decl.add(f"1356:{tx.frm}-1356:{t}-{int(i)}")
    return decl


def mon_c05(h, obs):
    return [x for x in mon_groups(h, obs) if x.fp.startswith("C05/")] + route_hits(h, obs, "C05")


def mon_c06_groups(h, obs):
    return [x for x in mon_groups(h, obs) if x.fp.startswith("C06/")]


def mon_groups(h, obs):
    hits = []
    groups = {}        # key -> Group
    of_child = {}      # child id -> group key
    ambiguous = set()  # ids accepted both as a one-to-one request and as a group child (possible on an unordered destination,
                       # where indices are not checked): GetStatus answers the one-to-one record, the id says nothing about the group
    plain = set()
    for st in parse_trace(h, obs):
        if st[0] == "block":
            b = st[1]
            if not b.ok:
                continue
            for i, (tx, rc) in enumerate(zip(b.txs, b.rcs)):
                if tx.kind != "ibtp" or tx.id is None or not rc.ok:
                    continue
                if tx.typ == "req":
                    decl = _group_of(tx)
                    if decl is None or tx.id not in decl:
                        if tx.group is None:
                            plain.add(tx.id)
                            if tx.id in of_child:
                                ambiguous.add(tx.id)
                        continue
                    if tx.id in plain:
                        ambiguous.add(tx.id)
                    key = (tx.frm, frozenset(decl))
                    g = groups.get(key)
                    if g is None:
                        g = groups[key] = Group(tx.frm, decl)
                        T = tx.timeout
                        g.deadline = b.h + T if 0 < T < MAXU64 - b.h else None
                    if tx.id in of_child and of_child[tx.id] != key:
                        # the same child id begun under two different groups (possible on an unordered destination, where the
                        # index is not checked): which group a listing or a status of this id belongs to is not decidable
                        ambiguous.add(tx.id)
                    g.begun.add(tx.id)
                    of_child[tx.id] = key
                    if rc.ret == "begin_failure" and not g.failed:
                        g.failed, g.failed_at, g.failed_by = True, b.h, "begin-failure"
                        _check_notified(hits, b, g, tx.id, "begin-failure")
                elif tx.typ in ("ok", "fail") and tx.id in of_child:
                    g = groups[of_child[tx.id]]
                    if tx.typ == "ok" and not g.failed:
                        g.succeeded.add(tx.id)
                        if g.succeeded == g.decl:
                            g.finished = True
                    elif tx.typ == "fail" and not g.failed and not g.finished:
                        g.failed, g.failed_at, g.failed_by = True, b.h, "failure-receipt"
                        _check_notified(hits, b, g, tx.id, "failure-receipt")
            for key, g in groups.items():
                # the group as a whole: never listed as timed out once it has failed or finished, nor before its deadline
                due = g.deadline == b.h and not g.failed and not g.finished
                if not due:
                    # only children that were begun under THIS group (declared ids can also occur as one-to-one requests or
                    # in another group of the same source)
                    listed_kids = sorted({c for ids in b.timeout.values() for c in ids
                                          if of_child.get(c) == key and c in g.begun and c not in ambiguous and c not in plain})
                    if listed_kids:
                        why = (f"after-{g.failed_by}" if g.failed else ("after-success" if g.finished else "off-deadline"))
                        hits.append(Hit(f"C06/group-listed-as-timed-out/{why}",
                                        f"children {listed_kids} of the group of {key[0]} are listed as timed out in block {b.h}, but the group "
                                        f"{'failed in block ' + str(g.failed_at) + ' (' + str(g.failed_by) + ')' if g.failed else ('finished' if g.finished else 'is due at ' + str(g.deadline))}", detail=b.raw))
                if g.deadline == b.h and not g.failed and not g.finished:
                    g.failed, g.failed_at, g.failed_by = True, b.h, "timeout"
                    src = key[0].split(":")[0]
                    listed = set(b.timeout.get(src, []))
                    missing = sorted(c for c in g.begun if c not in listed)
                    if missing:
                        hits.append(Hit("C05/timeout-source-not-told", f"group of {key[0]} timed out in block {b.h}: the source chain {src} is not told about {missing}", detail=b.raw))
                    for c in sorted(g.succeeded):
                        dst = c.split("-")[1].split(":")[1]
                        if c not in b.timeout.get(dst, []):
                            hits.append(Hit("C05/timeout-destination-not-told", f"group of {key[0]} timed out in block {b.h}: destination {dst} is not told to roll back the succeeded child {c}", detail=b.raw))
                    _check_routed(hits, b, g, "timeout")
        elif st[0] == "q" and st[1] == "status" and st[2] in of_child and st[2] not in ambiguous and st[3].isdigit():
            g = groups[of_child[st[2]]]
            val = int(st[3])
            if val == 3 and g.succeeded != g.decl:
                hits.append(Hit("C05/success-without-all-children", f"group status of {st[2]} is SUCCESS but only {sorted(g.succeeded)} of {sorted(g.decl)} reported success"))
            if val == 3 and g.failed:
                hits.append(Hit("C05/success-after-failure", f"group status of {st[2]} is SUCCESS although the group failed in block {g.failed_at}"))
            if g.failed and val in (0,):
                hits.append(Hit("C05/still-begin-after-failure", f"group status of {st[2]} is BEGIN although the group failed in block {g.failed_at}"))
        elif st[0] == "q" and st[1] == "gtx" and st[2] in of_child and st[2] not in ambiguous and st[3].startswith("g="):
            g = groups[of_child[st[2]]]
            m = re.match(r"g=(\d+) h=\d+ n=(\d+) children=\[(.*)\]$", st[3])
            if not m:
                continue
            gstate = int(m.group(1))
            kids = dict((c.rsplit("=", 1)[0], int(c.rsplit("=", 1)[1])) for c in m.group(3).split(",") if c)
            if any(c in ambiguous for c in kids):
                continue
            if g.failed:
                stuck = sorted(c for c, v in kids.items() if v in (0, 3))
                if stuck:
                    hits.append(Hit("C05/child-not-moved-to-failure", f"the group of {g.frm} failed in block {g.failed_at} but its children {stuck} are still BEGIN/SUCCESS "
                                    f"({', '.join(f'{c}={kids[c]}' for c in stuck)})", detail=st[3]))
                if gstate == 2 and g.failed_by in ("begin-failure", "failure-receipt"):
                    hits.append(Hit("C06/failed-group-altered-by-timeout", f"the group of {g.frm} failed in block {g.failed_at} ({g.failed_by}), yet its global status is "
                                    f"BEGIN_ROLLBACK: the timeout mechanism moved it", detail=st[3]))
                if gstate in (0, 3):
                    hits.append(Hit("C05/global-not-moved-to-failure", f"the group of {g.frm} failed in block {g.failed_at} but its global status is {gstate}", detail=st[3]))
            if gstate == 3 and set(c for c, v in kids.items() if v == 3) != g.decl:
                hits.append(Hit("C05/success-without-all-children", f"global status SUCCESS with child states {kids}, declared {sorted(g.decl)}", detail=st[3]))
    return hits


def _route_verdict(b):
    """the harness's verdict on what the real router handed to the piers for this block (impl-only annotation `route=` of the line)"""
    if " route=" not in b.raw:
        return ""
    return b.raw.rsplit(" route=", 1)[1].split()[0]


def _check_routed(hits, b, g, why):
    """the block in which a group fails or times out: what its interchain meta says reaches the piers through the real router
    (subscription feed and fetch-again path) — the notification of the source and destination chains is that delivery"""
    v = _route_verdict(b)
    if not v.startswith("bad:"):
        return
    parts = v.split(":")
    what = parts[3] if len(parts) > 3 else "?"
    kind = what.split("=")[0].split("[")[0]
    if kind in ("timeouts", "multi", "nothing-sent", "wrappers") or (len(parts) > 2 and parts[2] == "nothing-sent"):
        hits.append(Hit(f"C05/group-{why}-not-delivered-to-piers/{parts[1] if len(parts) > 1 else '?'}/{kind}",
                        f"group of {g.frm} {'timed out' if why == 'timeout' else 'failed'} in block {b.h}: the router hands pier "
                        f"{parts[2] if len(parts) > 2 else '?'} something else than the block's interchain meta says ({v})", detail=b.raw))


def _check_notified(hits, b, g, culprit, why):
    """in the block where the group fails, the source is told to roll back every other begun child and every destination
    holding an already-succeeded child is told to roll that child back"""
    src = g.frm.split(":")[0]
    others = sorted(c for c in g.begun if c != culprit)
    listed_src = set(b.multi.get(src, []))
    missing = [c for c in others if c not in listed_src]
    if missing:
        hits.append(Hit(f"C05/source-not-told/{why}", f"group of {g.frm} failed in block {b.h} ({why} of {culprit}): the source chain {src} is not told to roll back {missing}", detail=b.raw))
    for c in sorted(g.succeeded):
        if c == culprit:
            continue
        dst = c.split("-")[1].split(":")[1]
        if c not in b.multi.get(dst, []):
            hits.append(Hit(f"C05/dst-not-told-to-rollback/{why}", f"group of {g.frm} failed in block {b.h} ({why} of {culprit}): destination chain {dst} is not told to roll back the succeeded child {c}", detail=b.raw))
    for chain, ids in b.multi.items():
        for c in ids:
            if c in g.decl and chain != src and chain != c.split("-")[1].split(":")[1]:
                hits.append(Hit(f"C05/wrong-chain-told/{why}", f"chain {chain} is told to roll back {c}, which is neither its source nor its destination", detail=b.raw))
    _check_routed(hits, b, g, why)


def tags_c05(h, obs):
    t = set()
    for st in parse_trace(h, obs):
        if st[0] == "block" and st[1].ok:
            if st[1].multi:
                t.add("multi-notified")
            for tx, rc in zip(st[1].txs, st[1].rcs):
                if tx.kind == "ibtp" and tx.group is not None and rc.ok:
                    t.add("group-child:" + (rc.ret or "begin"))
        if st[0] == "q" and st[1] == "status" and st[3] == "3":
            t.add("status:success")
    return t
