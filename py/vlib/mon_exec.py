"""Model-free monitors over implementation traces of the `exec` engine.

A trace is the op list of a history plus the implementation's observation lines.  Everything
here is computed from receipts, status queries, counters and block metadata as the real node
reported them — never from the Lean model."""
import re

from .runner import Hit
from .gen_exec import ORDERED

BLK = re.compile(r"^h=(\d+) rc=\[(.*?)\] counter=\{(.*?)\} timeout=\{(.*?)\} multi=\{(.*?)\}(?: ## (.*))?$")


def parse_lists(s):
    """'c1:[a,b];c2:[c]' -> {c1:[a,b], c2:[c]}"""
    out = {}
    if not s:
        return out
    for part in s.split(";"):
        m = re.match(r"^(.*?):\[(.*)\]$", part)
        if m:
            out[m.group(1)] = [x for x in m.group(2).split(",") if x != ""]
    return out


class Tx:
    def __init__(self, toks):
        self.kind = toks[0]
        self.toks = toks
        if self.kind == "ibtp":
            self.signer, self.frm, self.to = toks[1], toks[2], toks[3]
            self.index = int(toks[4])
            self.typ = toks[5]
            self.timeout = int(toks[6])
            self.group = None if toks[7] == "-" else toks[7]
            self.proof = toks[8]
            self.id = f"1356:{self.frm}-1356:{self.to}-{self.index}" if self.frm.count(":") == 1 and self.to.count(":") == 1 else None
        elif self.kind == "xfer":
            self.frm, self.to, self.amt = toks[1], toks[2], toks[3]
        elif self.kind == "bvm":
            self.signer, self.contract, self.method, self.args = toks[1], toks[2], toks[3], toks[4:]


class Rc:
    def __init__(self, s):
        p = s.split(":")
        self.ok = p[0] == "S"
        self.txstatus = p[-1]
        self.ret = ":".join(p[1:-1])


class Block:
    pass


def parse_trace(h, obs):
    """Returns a list of steps: ('world', opts) | ('block', Block) | ('q', kind, arg, value) | ('restart',)"""
    steps = []
    for op, o in zip(h.ops, obs):
        ws = op.split()
        if ws[0] == "world":
            steps.append(("world", dict(x.split("=") for x in ws[1:] if "=" in x), o))
        elif ws[0] == "block":
            m = BLK.match(o)
            b = Block()
            b.raw = o
            b.op = op
            txs, cur = [], []
            for w in ws[1:]:
                if w == "|":
                    if cur:
                        txs.append(Tx(cur))
                    cur = []
                else:
                    cur.append(w)
            if cur:
                txs.append(Tx(cur))
            b.txs = txs
            b.ok = m is not None
            if m:
                b.h = int(m.group(1))
                b.rcs = [Rc(x) for x in m.group(2).split()] if m.group(2) else []
                b.counter = {k: [tuple(int(y) for y in x.split("/")) for x in v] for k, v in parse_lists(m.group(3)).items()}
                b.timeout = parse_lists(m.group(4))
                b.multi = parse_lists(m.group(5))
                rest = m.group(6) or ""
                rm = re.search(r"rawtimeout=\{(.*?)\} rawmulti=\{(.*?)\}", rest)
                b.rawtimeout = parse_lists(rm.group(1)) if rm else {}
                b.rawmulti = parse_lists(rm.group(2)) if rm else {}
                b.diverged = "REPLICA-DIVERGED" in o
            steps.append(("block", b))
        elif ws[0] == "q":
            steps.append(("q", ws[1], ws[2] if len(ws) > 2 else "", o))
        elif ws[0] == "restart":
            steps.append(("restart", o))
        else:
            steps.append(("other", op, o))
    return steps


def parse_counter_map(s):
    # ic={a=1,b=2} rc={} sic={} src={}
    out = {}
    for name, body in re.findall(r"(\w+)=\{(.*?)\}", s):
        d = {}
        for kvp in body.split(","):
            if "=" in kvp:
                k, v = kvp.rsplit("=", 1)
                d[k] = int(v)
        out[name] = d
    return out


def chain_of(svc):
    return svc.split(":")[0]


# ------------------------------------------------------------------------------------------ C02

def mon_c02(h, obs):
    hits = []
    acc_req = {}   # (f,t) -> list of accepted request indices, in order
    acc_rcpt = {}
    fee_failed = set()   # ids of requests that were processed and then failed to pay the fee
    for st in parse_trace(h, obs):
        if st[0] == "block":
            b = st[1]
            if not b.ok:
                continue
            listed = {}
            for c, vs in b.counter.items():
                for v in vs:
                    listed.setdefault(v[0], []).append(c)
            for i, (tx, rc) in enumerate(zip(b.txs, b.rcs)):
                if tx.kind != "ibtp" or tx.id is None:
                    continue
                pair = (tx.frm, tx.to)
                ordered_pair = ORDERED.get(tx.to, True) and ORDERED.get(tx.frm, True)
                if tx.typ == "req":
                    if rc.ok:
                        lst = acc_req.setdefault(pair, [])
                        if ORDERED.get(tx.to, True) and tx.index != len(lst) + 1:
                            hits.append(Hit("C02/request-index-order",
                                            f"request {tx.id} accepted but the pair had accepted {lst} (expected index {len(lst)+1})",
                                            detail=b.op))
                        lst.append(tx.index)
                        # delivery: exactly once, in this block, for the destination chain
                        if ORDERED.get(tx.to, True) and listed.get(i, []).count(chain_of(tx.to)) != 1:
                            hits.append(Hit("C02/accepted-not-listed-once",
                                            f"accepted request {tx.id} (tx {i} of block {b.h}) is listed {listed.get(i, [])} in the block's delivery set",
                                            detail=b.raw))
                    else:
                        if rc.ret == "fee":
                            fee_failed.add(tx.id)
                        if i in listed:
                            fp = "C02/fee-failed-ibtp-listed" if rc.ret == "fee" else f"C02/rejected-request-listed/{rc.ret}"
                            hits.append(Hit(fp,
                                            f"rejected request {tx.id} (receipt FAILED {rc.ret}) is announced in the delivery set of block {b.h} for {listed[i]}",
                                            detail=b.raw))
                elif tx.typ in ("ok", "fail", "rb"):
                    if rc.ok:
                        lst = acc_rcpt.setdefault(pair, [])
                        if tx.index != len(lst) + 1 and ordered_pair:
                            hits.append(Hit("C02/receipt-index-order",
                                            f"receipt {tx.typ} for {tx.id} accepted but accepted receipts of the pair were {lst}", detail=b.op))
                        if tx.index not in acc_req.get(pair, []):
                            if tx.id in fee_failed:
                                hits.append(Hit("C02/receipt-for-fee-failed-request",
                                                f"receipt for {tx.id} accepted although that request was rejected (FAILED: fee) — its tx record, "
                                                f"written with the non-journaled Add, survived the revert", detail=b.op))
                            else:
                                hits.append(Hit("C02/receipt-for-unaccepted-request",
                                                f"receipt for {tx.id} accepted although that request was never accepted", detail=b.op))
                        lst.append(tx.index)
                    elif i in listed:
                        fp = "C02/fee-failed-ibtp-listed" if rc.ret == "fee" else f"C02/rejected-receipt-listed/{rc.ret}"
                        hits.append(Hit(fp,
                                        f"rejected receipt for {tx.id} is announced in the delivery set of block {b.h}", detail=b.raw))
        elif st[0] == "q" and st[1] == "ic" and st[3] != "none" and not st[3].startswith("bad"):
            svc = st[2]
            m = parse_counter_map(st[3])
            for (f, t), lst in acc_req.items():
                if not ORDERED.get(t, True):
                    continue
                if f == svc and m.get("ic", {}).get("1356:" + t, 0) != len(lst):
                    hits.append(Hit("C02/interchain-counter-mismatch",
                                    f"GetInterchain({svc}).InterchainCounter[{t}] = {m.get('ic', {}).get('1356:'+t, 0)} but {len(lst)} requests were accepted ({lst})",
                                    detail=st[3]))
                if t == svc and lst and m.get("sic", {}).get("1356:" + f, 0) != lst[-1]:
                    hits.append(Hit("C02/source-counter-mismatch",
                                    f"GetInterchain({svc}).SourceInterchainCounter[{f}] = {m.get('sic', {}).get('1356:'+f, 0)} but last accepted request index is {lst[-1]}",
                                    detail=st[3]))
            for (f, t), lst in acc_req.items():
                if f == svc and not ORDERED.get(t, True):
                    continue
            # entries for pairs with no accepted request must be absent / zero
            for t_full, v in m.get("ic", {}).items():
                t = t_full.split(":", 1)[1] if t_full.count(":") == 2 else t_full
                if ORDERED.get(t, True) and v != len(acc_req.get((svc, t), [])):
                    hits.append(Hit("C02/interchain-counter-mismatch",
                                    f"GetInterchain({svc}).InterchainCounter[{t}] = {v} but accepted requests are {acc_req.get((svc, t), [])}",
                                    detail=st[3]))
    return hits


def tags_c02(h, obs):
    t = set()
    for st in parse_trace(h, obs):
        if st[0] == "block" and st[1].ok:
            for tx, rc in zip(st[1].txs, st[1].rcs):
                if tx.kind == "ibtp":
                    t.add(f"ibtp:{'req' if tx.typ == 'req' else 'rcpt'}:{'ok' if rc.ok else rc.ret}")
    return t
