"""Generator + model-free monitors for the `store` engine (C09 chain consistency, C11 crash recovery)."""
import re

from .core import History
from .runner import Hit

CHAINS = ["c1", "c2", "c3"]


class StoreGen:
    def __init__(self, rng, dup_tx=False):
        self.r = rng
        self.ops = ["open"]
        self.tags = set()
        self.txc = 0
        self.height = 0
        self.blocks = {}     # height -> (txs)  generator's view (only used to pick queries)
        self.alltx = []
        self.syms = []
        self.serial = 0
        self.dup_tx = dup_tx

    def new_block_args(self):
        r = self.r
        n = r.choice([0, 0, 1, 2, 3, 6])
        txs = []
        for _ in range(n):
            if self.dup_tx and self.alltx and r.random() < 0.1:
                txs.append(r.choice(self.alltx))
                self.tags.add("tx:duplicate-hash")
            else:
                self.txc += 1
                txs.append(f"t{self.txc}")
        txs = list(dict.fromkeys(txs))
        self.alltx += [t for t in txs if t not in self.alltx]
        counter = ",".join(f"{c}:{r.choice([1, 2, 5])}" for c in CHAINS if r.random() < 0.35)
        if counter:
            self.tags.add("block:interchain")
        if not txs:
            self.tags.add("block:empty")
        return f"txs={','.join(txs) if txs else '-'} counter={counter}"

    def persist(self):
        self.ops.append("persist " + self.new_block_args())
        self.height += 1
        self.serial += 1
        self.syms.append(f"B{self.height}.{self.serial}")

    def queries(self, full=False):
        r = self.r
        hs = list(range(0, self.height + 3)) if full else r.sample(range(0, self.height + 3), min(3, self.height + 3))
        for h in hs:
            self.ops.append(f"getblock {h}")
            if r.random() < 0.3 or full:
                self.ops.append(f"getblock {h} full")
            self.ops.append(f"blockhash {h}")
            self.ops.append(f"txcount {h}")
            self.ops.append(f"imeta {h}")
        for s in (self.syms if full else r.sample(self.syms, min(3, len(self.syms)))):
            self.ops.append(f"byhash {s}")
        for t in (self.alltx if full else r.sample(self.alltx, min(4, len(self.alltx)))):
            self.ops.append(f"tx {t}")
            self.ops.append(f"meta {t}")
            self.ops.append(f"receipt {t}")
        self.ops.append("chainmeta")

    def scripted_prefix(self):
        """boundary pattern: the interchain count of the rolled-back blocks equals the whole cumulative count"""
        r = self.r
        for _ in range(r.randint(0, 3)):
            self.txc += 1
            self.ops.append(f"persist txs=t{self.txc} counter=")
            self.alltx.append(f"t{self.txc}")
            self.height += 1
            self.serial += 1
            self.syms.append(f"B{self.height}.{self.serial}")
        keep = self.height
        for _ in range(r.randint(1, 3)):
            self.txc += 1
            self.ops.append(f"persist txs=t{self.txc} counter={r.choice(CHAINS)}:{r.choice([0, 1, 2, 3])}")
            self.alltx.append(f"t{self.txc}")
            self.height += 1
            self.serial += 1
            self.syms.append(f"B{self.height}.{self.serial}")
        t = r.choice([keep, keep, keep + 1 if keep + 1 < self.height else keep])
        self.ops.append(f"rollback {t}")
        self.height = t
        self.tags.add("rollback:first-interchain-block")
        self.queries(full=True)

    def history(self, n, rollbacks=True):
        r = self.r
        if rollbacks and r.random() < 0.3:
            self.scripted_prefix()
        for _ in range(n):
            self.persist()
            if r.random() < 0.3:
                self.queries()
            if rollbacks and r.random() < 0.15 and self.height > 0:
                t = r.choice([self.height - 1, max(0, self.height - 2), max(0, self.height - r.randint(0, 5)), self.height, self.height + 1, 0])
                self.ops.append(f"rollback {t}")
                self.tags.add("rollback")
                if t <= self.height and self.height - t <= 10:
                    self.height = t
                self.queries(full=True)
            if r.random() < 0.1:
                self.ops.append("reopen")
                self.tags.add("reopen")
        self.queries(full=True)
        return History(self.ops, tags=self.tags)


def gen(rng, n, tier, blocks=(2, 9), **kw):
    import random as _r
    return [StoreGen(_r.Random(rng.getrandbits(64)), **kw).history(rng.randint(*blocks)) for _ in range(n)]


def gen_crash(rng, n, tier):
    """C11: for heights incl. genesis-adjacent and journal-pruning ones, every admissible mask of the durable writes of
    one block commit (enumerated exhaustively over the histories of one run), then continue with two more blocks."""
    import random as _r
    masks = [(s, j, c, b) for s in (0, 1) for j in (0, 1) for c in (0, 1) for b in range(6) if not (j and not s)]
    hs = []
    heights = [1, 2, 5, 11, 12, 13] if tier == "quick" else [1, 2, 3, 5, 9, 10, 11, 12, 13, 15, 22]
    i = 0
    for h in heights:
        for (s, j, c, b) in masks:
            if j != s and h <= 10:
                continue          # the pruning batch only exists above height 10: J follows S
            i += 1
            r = _r.Random(rng.getrandbits(64))
            g = StoreGen(r)
            for _ in range(h - 1):
                g.persist()
            g.queries()
            g.ops.append(f"crash S={s} J={j} C={c} B={b} " + g.new_block_args())
            g.ops.append("chainmeta")
            if i % 2 == 0:
                # a starting node opens the stores more than once (the ledger, then the read-only view ledger on the same stores; and
                # every later restart): the store a recovery leaves behind must open again
                g.ops.append("reopen")
                g.ops.append("chainmeta")
            # continue: the remaining blocks must execute and give a consistent chain
            g.ops.append("persist " + g.new_block_args())
            g.ops.append("persist " + g.new_block_args())
            g.ops.append("chainmeta")
            g.ops.append(f"getblock {h} full")
            g.ops.append(f"getblock {h + 1} full")
            g.ops.append(f"getblock {h + 2} full")
            hs.append(History(g.ops, tags={f"mask:S{s}J{j}C{c}B{b}", f"height:{h}"}))
    # write-level fault injection: the process dies after the ks-th low-level write to the state store and the kc-th to the
    # chain index, whatever those writes are in the current code
    for h in heights:
        for ks in (0, 1, 2, 3):
            for kc in (0, 1, 2):
                for b in (0, 3, 5):
                    r = _r.Random(rng.getrandbits(64))
                    g = StoreGen(r)
                    for _ in range(h - 1):
                        g.persist()
                    g.ops.append(f"crashw ks={ks} kc={kc} B={b} " + g.new_block_args())
                    g.ops.append("chainmeta")
                    if (ks + kc + b) % 2 == 0:
                        g.ops.append("reopen")
                        g.ops.append("chainmeta")
                    g.ops.append("persist " + g.new_block_args())
                    g.ops.append("chainmeta")
                    g.ops.append(f"getblock {h} full")
                    g.ops.append(f"getblock {h + 1} full")
                    hs.append(History(g.ops, tags={f"wmask:ks{ks}kc{kc}B{b}", f"height:{h}"}))
    return hs


# --------------------------------------------------------------------------------------------- C09 monitor

BLK = re.compile(r"^h=(\d+) hash=(\S+) parent=(\S+) txs=\[(.*)\]$")


def mon_c09(h, obs):
    hits = []
    chain = {}      # height -> dict(hash, parent, txs, counter)
    tx_where = {}   # tx -> (height, idx) latest
    dup = False
    cum = {}
    height = 0
    for op, o in zip(h.ops, obs):
        ws = op.split()
        k = ws[0]
        if k == "persist" and o.startswith("ok"):
            m = re.match(r"ok h=(\d+) hash=(\S+)", o)
            hh, hs = int(m.group(1)), m.group(2)
            kvs = dict(x.split("=", 1) for x in ws[1:] if "=" in x)
            txs = [] if kvs.get("txs", "-") in ("-", "") else kvs["txs"].split(",")
            cnt = sum(int(p.split(":")[1]) for p in kvs.get("counter", "").split(",") if ":" in p)
            if hh != height + 1:
                hits.append(Hit("C09/height-not-next", f"block persisted at height {hh} after {height}", op))
            parent = chain[hh - 1]["hash"] if hh - 1 in chain else "zero"
            chain[hh] = {"hash": hs, "parent": parent, "txs": txs, "count": cnt}
            for i, t in enumerate(txs):
                if t in tx_where:
                    dup = True
                tx_where[t] = (hh, i)
            height = hh
        elif k == "rollback" and o == "ok":
            t = int(ws[1])
            for x in [x for x in chain if x > t]:
                for tt in chain[x]["txs"]:
                    if tx_where.get(tt, (0, 0))[0] == x:
                        del tx_where[tt]
                del chain[x]
            height = min(height, t)
        elif k == "crash":
            return hits      # C11's business
        elif k == "getblock":
            hh = int(ws[1])
            m = BLK.match(o)
            if hh in chain:
                if not m:
                    hits.append(Hit("C09/block-missing", f"block {hh} is not readable: {o}", op))
                else:
                    b = chain[hh]
                    if int(m.group(1)) != hh or m.group(2) != b["hash"]:
                        hits.append(Hit("C09/block-wrong", f"GetBlock({hh}) returned {o}", op))
                    if m.group(3) != b["parent"]:
                        hits.append(Hit("C09/parent-link-broken", f"block {hh} has parent {m.group(3)}, block {hh-1} has hash {b['parent']}", op))
                    if m.group(4).split() != b["txs"]:
                        hits.append(Hit("C09/block-txs-wrong", f"block {hh} lists {m.group(4).split()} but executed {b['txs']}", op))
            elif m:
                hits.append(Hit("C09/lookup-above-head/getblock", f"GetBlock({hh}) returns {o} but the head is {height}", op))
        elif k == "byhash":
            m = BLK.match(o)
            owner = [x for x in chain if chain[x]["hash"] == ws[1]]
            if owner and (not m or int(m.group(1)) != owner[0]):
                hits.append(Hit("C09/byhash-wrong", f"GetBlockByHash({ws[1]}) -> {o}", op))
            if not owner and m:
                hits.append(Hit("C09/lookup-above-head/byhash", f"GetBlockByHash({ws[1]}) still returns {o} after that block was rolled back", op))
        elif k == "blockhash":
            hh = int(ws[1])
            if hh in chain and o != chain[hh]["hash"]:
                hits.append(Hit("C09/blockhash-wrong", f"GetBlockHash({hh}) = {o}, block hash is {chain[hh]['hash']}", op))
            if hh not in chain and o != "zero":
                hits.append(Hit("C09/lookup-above-head/blockhash", f"GetBlockHash({hh}) = {o} but no block {hh} is on the chain (head {height})", op))
        elif k in ("tx", "receipt", "meta"):
            t = ws[1]
            if dup:
                continue
            if t in tx_where:
                hh, i = tx_where[t]
                if k == "meta":
                    exp = f"h={hh} hash={chain[hh]['hash']} idx={i}"
                else:
                    exp = f"{t}:{t}"
                if o != exp:
                    hits.append(Hit(f"C09/{k}-lookup-wrong", f"{k}({t}) = {o}, expected {exp}", op))
            elif o != "notfound":
                hits.append(Hit(f"C09/lookup-above-head/{k}", f"{k}({t}) = {o} but that transaction is not on the chain (head {height})", op))
        elif k == "txcount":
            hh = int(ws[1])
            if hh in chain and o != str(len(chain[hh]["txs"])):
                hits.append(Hit("C09/txcount-wrong", f"GetTransactionCount({hh}) = {o}", op))
            if hh not in chain and o != "notfound":
                hits.append(Hit("C09/lookup-above-head/txcount", f"GetTransactionCount({hh}) = {o} above the head {height}", op))
        elif k == "imeta":
            hh = int(ws[1])
            if hh not in chain and o != "notfound":
                hits.append(Hit("C09/lookup-above-head/imeta", f"GetInterchainMeta({hh}) = {o} above the head {height}", op))
        elif k == "chainmeta":
            m = re.match(r"h=(\d+) hash=(\S+) count=(\d+) state=(\d+)", o)
            if m:
                exp_hash = chain[height]["hash"] if height in chain else None
                exp_cnt = sum(b["count"] for b in chain.values())
                if int(m.group(1)) != height or (exp_hash and m.group(2) != exp_hash):
                    hits.append(Hit("C09/chainmeta-head-wrong", f"chain meta {o}, executed head {height} {exp_hash}", op))
                if int(m.group(3)) != exp_cnt:
                    hits.append(Hit("C09/chainmeta-count-wrong", f"cumulative interchain count {m.group(3)}, executed blocks sum to {exp_cnt}", op))
                if int(m.group(4)) != height:
                    hits.append(Hit("C09/state-version-differs", f"state ledger version {m.group(4)} but chain height {height}", op))
    return hits


def tags_store(h, obs):
    t = set()
    for op, o in zip(h.ops, obs):
        if op.startswith("rollback"):
            t.add("rollback:" + o.replace(" ", "-"))
        if op.startswith("crash"):
            t.add("crash")
    return t


# --------------------------------------------------------------------------------------------- C11 monitor

def mon_c11(h, obs):
    """recoverOK: opens, height in {h-1,h}, head readable, stores mutually consistent, continuation works"""
    return _mon_c11_reopen(h, obs) + _mon_c11_crash(h, obs)


def _mon_c11_reopen(h, obs):
    """the store a recovery left behind is opened once more (the view ledger of the same start, the next restart): it must open, at the
    same height"""
    hits = []
    recovered = None      # (crash op, height it reopened at) of the last crash the ledger recovered from
    for op, o in zip(h.ops, obs):
        if op == "reopen" and recovered is not None:
            m2 = re.match(r"ok h=(\d+) state=(\d+)", o or "")
            if not m2:
                hits.append(Hit("C11/recovered-store-does-not-open-again", f"after the recovery from `{recovered[0][:40]}` (reopened at height {recovered[1]}) a second open of the same stores fails: {o}", recovered[0]))
                break
            if int(m2.group(1)) != recovered[1] or int(m2.group(2)) != recovered[1]:
                hits.append(Hit("C11/recovered-store-opens-elsewhere", f"after the recovery from `{recovered[0][:40]}` at height {recovered[1]} a second open gives chain {m2.group(1)} / state {m2.group(2)}", recovered[0]))
                break
        if op.startswith("persist"):
            recovered = None
        if op.startswith("crash"):
            mr = re.match(r"h=(\d+) opened chain=(\d+) state=(\d+)", o or "")
            recovered = (op, int(mr.group(2))) if mr and mr.group(2) == mr.group(3) else None
    return hits


def _mon_c11_crash(h, obs):
    hits = []
    # which heights of the chain so far changed the state: an EMPTY block above height 1 is an idle block (it writes nothing), so the
    # "data of block n" the state store holds at height c is that of the last block at or below c that was not idle
    cur, writing = 0, set()

    def idle(op_, hgt):
        return "txs=-" in op_.split() and hgt > 1
    for i, (op, o) in enumerate(zip(h.ops, obs)):
        if op.startswith("persist") and (o or "").startswith("ok"):
            cur += 1
            writing = {x for x in writing if x < cur}
            if not idle(op, cur):
                writing.add(cur)
        elif op.startswith("rollback") and o == "ok":
            t = int(op.split()[1])
            if t <= cur:
                cur = t
                writing = {x for x in writing if x <= t}
        elif op in ("open", "reset"):
            cur, writing = 0, set()
        if not op.startswith("crash"):
            continue
        kvs = dict(x.split("=", 1) for x in op.split()[1:] if "=" in x)
        if op.startswith("crashw"):
            # state store got its first write (the commit batch) iff ks >= 1; the chain index its batch iff kc >= 1
            kvs["S"] = int(int(kvs.get("ks", 0)) >= 1)
            kvs["J"] = int(int(kvs.get("ks", 0)) >= 2)
            kvs["C"] = int(int(kvs.get("kc", 0)) >= 1)
        mask = f"S{kvs.get('S', 0)}J{kvs.get('J', 0)}C{kvs.get('C', 0)}B{kvs.get('B', 0)}"
        m = re.match(r"h=(\d+) (.*)", o)
        if not m:
            hits.append(Hit(f"C11/unexpected/{mask}", f"crash op answered {o}", op))
            break
        hh, rest = int(m.group(1)), m.group(2)
        if rest.startswith("open-error"):
            hits.append(Hit(f"C11/{_cls(mask)}", f"after a crash with durable writes {mask} while committing block {hh} the ledger does not open: {rest}", op))
            break
        mm = re.match(r"opened chain=(\d+) state=(\d+) blockfile=(\d+) head=(\w+)(?: statekey=(\S+))?(?: root=(\S+))?", rest)
        c, s, b, head = int(mm.group(1)), int(mm.group(2)), int(mm.group(3)), mm.group(4)
        sk = mm.group(5)
        if c not in (hh - 1, hh):
            hits.append(Hit(f"C11/{_cls(mask)}", f"reopened at chain height {c} after crash in block {hh}", op))
        if head != "readable" or not (c == s == b):
            hits.append(Hit(f"C11/{_cls(mask)}",
                            f"after a crash with durable writes {mask} in block {hh}: chain index at {c}, state at {s}, blockfile has {b} blocks, head {head}", op))
            break
        skh, _, skb = (sk or "").partition("/")
        skb, _, skx = skb.partition("/")
        # the block in commit is block hh; the ledger reopened at c (hh - 1 or hh)
        w_now = set(writing) | ({hh} if (c == hh and not idle(op, hh)) else set())
        cur = c
        writing = {x for x in w_now if x <= c}
        last_w = max([x for x in writing], default=0)
        if sk is not None and c == s and skx and skx != (str(last_w) if last_w > 0 else "-"):
            hits.append(Hit("C11/state-content-not-at-height/raw-byte-key",
                            f"after a crash ({op.split()[0]} {mask}) in block {hh} the ledger reopens at height {c} but the raw-byte storage key every block writes holds the value of block {skx}", op))
            break
        if sk is not None and c == s and skh != (str(last_w) if last_w > 0 else "-"):
            hits.append(Hit("C11/state-content-ahead-of-state-height" if skh.isdigit() and int(skh) > c else "C11/state-content-not-at-height",
                            f"after a crash ({op.split()[0]} {mask}) in block {hh} the ledger reopens at height {c} but the state store holds the data of block {skh}", op))
            break
        # the account record: block 1 and every third block set the balance of a0 to 1000 + height, the others only touch its storage
        want_bal = max([1000 + x for x in writing if x == 1 or x % 3 == 0], default=0)
        if sk is not None and skb != "" and c == s and skb != str(want_bal):
            hits.append(Hit("C11/account-record-not-at-height",
                            f"after a crash ({op.split()[0]} {mask}) in block {hh} the ledger reopens at height {c} with balance {skb} of a0, the balance as of that height is {want_bal}", op))
            break
        if mm.group(6) is not None and mm.group(6) != "match" and c == s:
            hits.append(Hit("C11/head-root-is-not-the-state-stores-root",
                            f"after a crash ({op.split()[0]} {mask}) in block {hh} the ledger reopens at height {c}, but the state root of the head block is not the root the "
                            f"state store continues from ({mm.group(6)}): the following blocks get other state roots than on a node that never crashed", op))
            break
        # continuation
        rest_obs = obs[i + 1:]
        if any(x.startswith("PANIC") or x.startswith("DIED") for x in rest_obs):
            hits.append(Hit(f"C11/{_cls(mask)}", f"after recovery from {mask} the next block cannot be persisted: {[x for x in rest_obs if x.startswith(('PANIC','DIED'))][:1]}", op))
        break
    return hits


def _cls(mask):
    """the three classes of unrecoverable crash states (DESIGN §6 C11)"""
    m = re.match(r"S(\d)J(\d)C(\d)B(\d)", mask)
    if not m:
        return mask
    s, j, c, b = (int(x) for x in m.groups())
    if c and not s:
        return "state-behind-chain-index"
    if not c and b == 5:
        return "blockfile-ahead-of-chain-index"
    if c and b < 5:
        return "chain-index-ahead-of-blockfile"
    return "other-" + mask


def canon_store(lines):
    """the out-of-order append panics in a goroutine of PersistBlockData: the harness process dies"""
    return ["PANIC append-out-of-order" if (x.startswith("DIED") and "chain_ledger_impl.go" in x) else x for x in lines]
