"""Structured generator for the `exec` engine (mostly-valid interchain traffic + faults)."""
from .core import History

SERVICES = ["c1:s1", "c1:s2", "c2:s1", "c2:s2", "c3:s1", "c2:s3", "c4:s1"]
ORDERED = {"c1:s1": True, "c1:s2": True, "c2:s1": True, "c2:s2": False, "c3:s1": True, "c2:s3": True, "c4:s1": True}
ADMIN = {"c1": "ca1", "c2": "ca2", "c3": "ca3", "c4": "ca4"}
USERS = ["u0", "u1", "u2", "u3"]


def full(s):
    return s if s.count(":") == 2 else "1356:" + s


def ibtp_id(f, t, i):
    return f"{full(f)}-{full(t)}-{i}"


class ExecGen:
    def __init__(self, rng, focus=None, audit=None, price=None, hub=None):
        self.rng = rng
        # world option hub=1: another BitXHub (9999) is a registered relay chain from the start, so that the traffic between the
        # two hubs (requests either way, receipts signed by the other hub's validators, the destination hub's notice, timeouts)
        # is compared with the Lean model and not only monitored
        self.hub = (rng.random() < 0.22 and (focus or "mixed") in ("single", "mixed")) if hub is None else hub
        self.hub_open = []     # inter-hub transactions begun: [f, t, idx, T]
        self.hub_next = {}     # (f, t) -> next index
        self.focus = focus or "mixed"
        self.ops = []
        self.tags = set()
        self.next_req = {}     # (f,t) -> next index
        self.next_rcpt = {}    # (f,t) -> next receipt index
        self.ids = []          # known one-to-one ibtp ids
        self.groups = []       # (gid-less) groups: dict(from, children=[(to, idx)], begun=set())
        audit = rng.random() < 0.3 if audit is None else audit
        price = rng.choice([1, 1, 1, 2, 1000]) if price is None else price
        self.ops.append(f"world audit={int(audit)} price={price}" + (" hub=1" if self.hub else ""))
        self.height = 11 if self.hub else 6
        if self.hub:
            self.tags.add("world:hub")

    def pair(self):
        r = self.rng
        # mostly pairs across chains; sometimes two services of one chain, sometimes the self pair (s, s)
        k = r.random()
        if k < 0.06:
            f = r.choice(SERVICES)
            self.tags.add("pair:self")
            return f, f
        if 0.06 <= k < 0.1:
            # a service that was never registered (of a registered chain), as source or as destination: requests and receipts that
            # name it are refused — for a receipt the contract even dereferences the missing record, a panic the bolt VM contains:
            # a FAILED receipt, no counter moved, nothing recorded, nothing delivered
            reg = r.choice(SERVICES)
            ghost = r.choice(["c1:s9", "c2:s9", "c4:s9"])
            self.tags.add("pair:unregistered-service")
            return (ghost, reg) if r.random() < 0.5 else (reg, ghost)
        while True:
            f = r.choice(SERVICES)
            t = r.choice(SERVICES)
            if f == t:
                continue
            same_chain = f.split(":")[0] == t.split(":")[0]
            if same_chain and k > 0.16:
                continue
            if same_chain:
                self.tags.add("pair:same-chain")
            return f, t

    def signer(self, svc):
        r = self.rng
        if r.random() < 0.85:
            return ADMIN[svc.split(":")[0]]
        return r.choice(USERS)

    def req(self):
        r = self.rng
        f, t = self.pair()
        nxt = self.next_req.get((f, t), 1)
        k = r.random()
        if k < 0.72:
            idx = nxt
        elif k < 0.82:
            idx = max(0, nxt - 1)
            self.tags.add("req:dup")
        elif k < 0.92:
            idx = nxt + r.choice([1, 2, 10])
            self.tags.add("req:future")
        elif k < 0.96:
            idx = 0
        else:
            idx = 2 ** 64 - 1
        T = r.choice([0, 1, 1, 2, 2, 3, 3, 4, 10, 2 ** 62, -1, 2 ** 63 - 1])
        pk = r.choices(["ok", "none", "bad"], [0.9, 0.05, 0.05])[0]
        return f, t, idx, T, pk

    def tx_req(self):
        f, t, idx, T, pk = self.req()
        if T > 0 and T < 10:
            self.tags.add("req:timeout-small")
        self.ids.append(ibtp_id(f, t, idx))
        # optimistic bookkeeping (a wrong guess only makes later traffic "invalid", which is also wanted)
        if idx == self.next_req.get((f, t), 1) and pk == "ok" and f.split(":")[0] != "c3":
            self.next_req[(f, t)] = idx + 1
        return f"ibtp {self.signer(f)} {f} {t} {idx} req {T} - {pk}"

    def tx_rcpt(self):
        r = self.rng
        cands = [k for k, v in self.next_req.items() if v > self.next_rcpt.get(k, 1)]
        if cands and r.random() < 0.85:
            f, t = r.choice(cands)
            idx = self.next_rcpt.get((f, t), 1)
            if r.random() < 0.1:
                idx += r.choice([1, -1])
                idx = max(idx, 0)
        else:
            f, t = self.pair()
            idx = self.next_rcpt.get((f, t), 1)
            self.tags.add("rcpt:unknown")
        typ = r.choices(["ok", "fail", "rb"], [0.55, 0.3, 0.15])[0]
        pk = r.choices(["ok", "none", "bad"], [0.92, 0.04, 0.04])[0]
        self.tags.add("rcpt:" + typ)
        if idx == self.next_rcpt.get((f, t), 1) and pk == "ok" and t.split(":")[0] != "c3" and (f, t) in self.next_req and self.next_req[(f, t)] > idx:
            self.next_rcpt[(f, t)] = idx + 1
        self.ids.append(ibtp_id(f, t, idx))
        return f"ibtp {self.signer(t)} {f} {t} {idx} {typ} 0 - {pk}"

    def tx_group_start(self):
        r = self.rng
        f = r.choice(SERVICES)
        fc = f.split(":")[0]
        dsts = [s for s in SERVICES if s.split(":")[0] != fc]
        n = r.choice([1, 2, 2, 3])
        tos = r.sample(dsts, min(n, len(dsts)))
        children = []
        for t in tos:
            idx = self.next_req.get((f, t), 1)
            children.append((t, idx))
        T = r.choice([0, 2, 3, 4, 10])
        g = {"from": f, "children": children, "T": T, "begun": []}
        self.groups.append(g)
        self.tags.add("group:start")
        return self.tx_group_child(g)

    def tx_group_child(self, g):
        r = self.rng
        rest = [c for c in g["children"] if c not in g["begun"]]
        if not rest:
            c = r.choice(g["children"])
            self.tags.add("group:dup-child")
        else:
            c = rest[0] if r.random() < 0.7 else r.choice(rest)
        if c not in g["begun"]:
            g["begun"].append(c)
        f = g["from"]
        t, idx = c
        grp = ",".join(f"{tt}={ii}" for tt, ii in g["children"])
        if idx == self.next_req.get((f, t), 1):
            self.next_req[(f, t)] = idx + 1
        self.ids.append(ibtp_id(f, t, idx))
        return f"ibtp {self.signer(f)} {f} {t} {idx} req {g['T']} {grp} ok"

    def tx_group_rcpt(self):
        """a receipt for a begun child of a group: first reports, repeated reports, and the acknowledgements a destination
        sends after the group has failed (a failure / rollback receipt for a child that already reported success)"""
        r = self.rng
        gs = [g for g in self.groups if g["begun"]]
        if not gs:
            return self.tx_rcpt()
        g = r.choice(gs[-3:])
        t, idx = r.choice(g["begun"])
        f = g["from"]
        rep = g.setdefault("reported", {})
        prev = rep.get((t, idx))
        if prev is None:
            typ = r.choices(["ok", "fail", "rb"], [0.65, 0.3, 0.05])[0]
        else:
            typ = r.choices(["ok", "fail", "rb"], [0.15, 0.55, 0.3])[0]
            self.tags.add(f"group:re-report:{prev}->{typ}")
        rep[(t, idx)] = typ
        self.tags.add("group:rcpt:" + typ)
        self.ids.append(ibtp_id(f, t, idx))
        return f"ibtp {self.signer(t)} {f} {t} {idx} {typ} 0 - ok"

    REMOTE = ["9999:c5:s1", "9999:c5:s1", "9999:c6:s2", "7777:c5:s1"]    # 7777: a BitXHub nobody registered

    def tx_hub(self):
        """traffic between this hub and hub 9999 (world option hub=1)"""
        r = self.rng
        k = r.random()
        if self.hub_open and k < 0.3:
            # the other side's receipt: for a request that went out, signed by the other hub's validators (msig<k>: k of them;
            # four are registered, more than one must sign); for one that came in, the local destination chain's proof
            f, t, idx, T = r.choice(self.hub_open)
            out = f.count(":") == 1
            typ = r.choices(["ok", "fail", "rb"], [0.55, 0.3, 0.15])[0]
            pk = r.choices(["msig2", "msig3", "msig4", "msig1", "msig6", "msigd3", "ok", "bad"], [4, 2, 1, 2, 1, 1, 1, 1])[0] if out else r.choices(["ok", "bad", "msig2"], [8, 1, 1])[0]
            if r.random() < 0.12:
                idx = max(0, idx + r.choice([1, -1]))
            self.tags.add("hub:receipt:" + typ + ":" + ("out" if out else "in") + ":" + pk)
            signer = "ca9" if out else self.signer(t)
            return f"ibtp {signer} {f} {t} {idx} {typ} 0 - {pk}"
        outs = [x for x in self.hub_open if x[0].count(":") == 1]
        if outs and k < 0.5:
            # the request comes back with the destination hub's notice in its Extra field
            f, t, idx, T = r.choice(outs)
            x = r.choices(["x:bf", "x:br", "x:ok", "x:junk"], [5, 4, 1, 1])[0]
            pk = r.choices(["ok", "bad"], [9, 1])[0]
            self.tags.add("hub:notice:" + x)
            return f"ibtp {self.signer(f)} {f} {t} {idx} req {T} - {pk} {x}"
        # a request, out (local service -> service over there) or in (the other hub relays one of its services' requests)
        if r.random() < 0.65:
            f, t = r.choice(SERVICES), r.choice(self.REMOTE)
            pk = r.choices(["ok", "none", "bad"], [0.9, 0.05, 0.05])[0]
            signer = self.signer(f)
        else:
            f, t = r.choice(self.REMOTE), r.choice(SERVICES)
            pk = r.choices(["msig2", "msig3", "msig1", "msigd2", "ok", "bad"], [5, 2, 2, 1, 1, 1])[0]
            signer = "ca9"
        nxt = self.hub_next.get((f, t), 1)
        idx = nxt if r.random() < 0.8 else max(0, nxt + r.choice([-1, 1, 2]))
        T = r.choice([0, 1, 2, 2, 3, 3, 4, 10, -1])
        x = "" if r.random() < 0.93 else " " + r.choice(["x:bf", "x:junk", "x:ok"])
        # now and then the request carries a Group (between two hubs it is begun one-to-one all the same)
        grp = "-" if r.random() < 0.85 else f"{t}={idx}" + ("" if r.random() < 0.5 else f",{r.choice(self.REMOTE + SERVICES)}=1")
        if grp != "-":
            self.tags.add("hub:request:with-group")
        tid = ibtp_id(f, t, idx)
        if idx == nxt and pk in ("ok", "msig2", "msig3") and not (f.count(":") == 1 and pk != "ok") and not (f.count(":") == 2 and pk == "ok"):
            self.hub_next[(f, t)] = idx + 1
            self.hub_open.append([f, t, idx, T])
        self.ids.append(tid)
        self.tags.add("hub:request:" + ("out" if f.count(":") == 1 else "in"))
        return f"ibtp {signer} {f} {t} {idx} req {T} {grp} {pk}{x}"

    def tx_xfer(self):
        r = self.rng
        a = r.choice(USERS)
        b = r.choice(USERS + ["adm1", "ca1"])
        amt = r.choice(["0", "1", "5", "1000", "999999999999", "1000000000001", "abc", "100000000000000000000000000"])
        return f"xfer {a} {b} {amt}"

    def tx_bvm(self):
        r = self.rng
        k = r.random()
        if k < 0.3 and self.ids:
            return f"bvm {r.choice(USERS)} txmgr GetStatus s:{r.choice(self.ids)}"
        if k < 0.5:
            return f"bvm {r.choice(USERS)} interchain GetInterchain s:{full(r.choice(SERVICES))}"
        if k < 0.75 and self.ids:
            i = r.choice(self.ids)
            m = r.choice(["Begin", "Report"])
            self.tags.add("bvm:internal-direct")
            if m == "Begin":
                return f"bvm {r.choice(USERS)} txmgr Begin s:{i} u:3 b:0"
            return f"bvm {r.choice(USERS)} txmgr Report s:{i} i:1"
        return f"bvm {r.choice(USERS)} interchain GetInterchain s:{full('c9:s9')}"

    def block(self):
        r = self.rng
        n = r.choice([0, 0, 1, 1, 2, 2, 3, 4, 6])
        txs = []
        for _ in range(n):
            k = r.random()
            live_groups = [g for g in self.groups if len(g["begun"]) < len(g["children"])]
            if self.hub and r.random() < 0.55:
                txs.append(self.tx_hub())
            elif self.focus == "group" and k < 0.22:
                txs.append(self.tx_group_rcpt())
            elif self.focus == "group" and k < 0.5:
                if live_groups and r.random() < 0.7:
                    txs.append(self.tx_group_child(r.choice(live_groups)))
                else:
                    txs.append(self.tx_group_start())
            elif k < 0.45:
                txs.append(self.tx_req())
            elif k < 0.75:
                txs.append(self.tx_rcpt())
            elif k < 0.80 and self.focus != "single":
                if live_groups and r.random() < 0.6:
                    txs.append(self.tx_group_child(r.choice(live_groups)))
                else:
                    txs.append(self.tx_group_start())
            elif k < 0.9:
                txs.append(self.tx_xfer())
            else:
                txs.append(self.tx_bvm())
        self.height += 1
        self.ops.append("block " + " | ".join(txs) if txs else "block")

    def observe(self):
        r = self.rng
        for i in sorted(set(self.ids))[-8:] + getattr(self, "watch", []):
            self.ops.append(f"q status {i}")
        for g in self.groups[-3:]:
            if g["begun"]:
                t, idx = g["begun"][0]
                self.ops.append(f"q gtx {ibtp_id(g['from'], t, idx)}")
        for s in r.sample(SERVICES, 3):
            self.ops.append(f"q ic {s}")
        if r.random() < 0.5:
            self.ops.append(f"q bal {r.choice(USERS + ['adm0', 'ca1', 'ca2'])}")

    def scripted_long_pair(self):
        """one ordered pair is driven past index 10, so that ids of the pair are decimal prefixes of one another (…-1 and …-10):
        request 1 is answered, requests 2..10 (or ..12) follow, request 10 gets the deadline of request 1, and the receipt
        of request 1 is replayed (refused) while request 10 is open; ordinary traffic continues to the deadline and beyond"""
        r = self.rng
        f, t = r.choice([("c1:s1", "c2:s1"), ("c2:s1", "c1:s1"), ("c1:s2", "c2:s3"), ("c4:s1", "c2:s1")])
        T1 = r.choice([7, 8, 9])
        sf, st = ADMIN[f.split(":")[0]], ADMIN[t.split(":")[0]]

        def blk(txs):
            self.height += 1
            self.ops.append("block " + " | ".join(txs))
            self.observe()
        h1 = self.height + 1
        blk([f"ibtp {sf} {f} {t} 1 req {T1} - ok"])
        self.ids.append(ibtp_id(f, t, 1))
        blk([f"ibtp {st} {f} {t} 1 ok 0 - ok"])
        blk([f"ibtp {sf} {f} {t} {i} req {r.choice([0, 2, 3, 10, 2 ** 62])} - ok" for i in range(2, 10)])
        last = r.choice([10, 10, 11, 12])
        h10 = self.height + 1
        T10 = h1 + T1 - h10
        blk([f"ibtp {sf} {f} {t} {i} req {T10 if i == 10 else r.choice([0, T10, 10])} - ok" for i in range(10, last + 1)])
        for i in range(9, last + 1):
            self.ids.append(ibtp_id(f, t, i))
        # the replayed receipt of the finished request 1, and a receipt for an id that was never requested
        blk([f"ibtp {st} {f} {t} 1 {r.choice(['ok', 'ok', 'fail'])} 0 - ok"] + ([f"ibtp {st} {f} {t} {last + 3} ok 0 - ok"] if r.random() < 0.4 else []))
        self.ids.append(ibtp_id(f, t, 1))
        self.ids.append(ibtp_id(f, t, 10))
        self.next_req[(f, t)] = last + 1
        self.next_rcpt[(f, t)] = 2
        self.tags.add("long-pair-scenario")
        self.watch = [ibtp_id(f, t, 1), ibtp_id(f, t, 10)]

    def scripted_reused_deadline(self):
        """a deadline whose list was emptied is used again: request A gets deadline D and is answered (its list becomes empty, the
        key stays), then request B of another pair gets the same deadline D and is not answered: B must time out at D"""
        r = self.rng
        (f1, t1), (f2, t2) = r.sample([("c1:s1", "c2:s1"), ("c2:s1", "c1:s1"), ("c1:s2", "c2:s3"), ("c4:s1", "c2:s1"), ("c2:s3", "c4:s1")], 2)
        T = r.choice([5, 6, 7])

        def blk(txs):
            self.height += 1
            self.ops.append("block " + " | ".join(txs))
            self.observe()
        i1 = self.next_req.get((f1, t1), 1)
        i2 = self.next_req.get((f2, t2), 1)
        hA = self.height + 1
        blk([f"ibtp {ADMIN[f1.split(':')[0]]} {f1} {t1} {i1} req {T} - ok"])
        blk([f"ibtp {ADMIN[t1.split(':')[0]]} {f1} {t1} {i1} {r.choice(['ok', 'ok', 'fail'])} 0 - ok"])
        if r.random() < 0.4:
            blk([])
        hB = self.height + 1
        blk([f"ibtp {ADMIN[f2.split(':')[0]]} {f2} {t2} {i2} req {hA + T - hB} - ok"])
        self.next_req[(f1, t1)] = i1 + 1
        self.next_rcpt[(f1, t1)] = i1 + 1
        self.next_req[(f2, t2)] = i2 + 1
        self.next_rcpt[(f2, t2)] = i2 + 1       # no receipt for B from the random traffic (it would use the next index)
        self.watch = getattr(self, "watch", []) + [ibtp_id(f1, t1, i1), ibtp_id(f2, t2, i2)]
        self.ids += [ibtp_id(f1, t1, i1), ibtp_id(f2, t2, i2)]
        self.tags.add("reused-deadline-scenario")

    def scripted_receipt_with_group(self):
        """a one-to-one request with a deadline is answered by a receipt that carries a Group field (the field is the sender's to
        fill): the record becomes final and nothing may happen to it at the deadline"""
        r = self.rng
        f, t = r.choice([("c1:s1", "c2:s1"), ("c2:s1", "c1:s1"), ("c1:s2", "c2:s3"), ("c4:s1", "c2:s1"), ("c2:s3", "c4:s1")])
        T = r.choice([3, 4, 5])
        i = self.next_req.get((f, t), 1)

        def blk(txs):
            self.height += 1
            self.ops.append("block " + " | ".join(txs))
            self.observe()
        blk([f"ibtp {ADMIN[f.split(':')[0]]} {f} {t} {i} req {T} - ok"])
        grp = r.choice([f"{t}={i}", f"{t}={i},c4:s1=1", "c2:s3=7"])
        blk([f"ibtp {ADMIN[t.split(':')[0]]} {f} {t} {i} {r.choice(['ok', 'ok', 'fail'])} 0 {grp} ok"])
        self.next_req[(f, t)] = i + 1
        self.next_rcpt[(f, t)] = i + 1
        self.watch = getattr(self, "watch", []) + [ibtp_id(f, t, i)]
        self.ids += [ibtp_id(f, t, i)]
        self.tags.add("receipt-with-group-scenario")

    def scripted_two_groups_one_block(self):
        """two (sometimes three) one-to-many transactions of one source chain get their verdict in the SAME block (a failure
        receipt each, or one fails while the other completes, or a child that cannot begin): the block's multi-tx notifications
        for that chain must name the children of every one of them, whatever came earlier in the block"""
        r = self.rng
        fc = r.choice(["c1", "c2"])
        srcs = [s for s in SERVICES if s.split(":")[0] == fc and ORDERED[s]]
        dsts = [s for s in SERVICES if s.split(":")[0] not in (fc, "c3") and ORDERED[s]]
        ng = r.choice([2, 2, 3])
        T = r.choice([0, 0, 6, 10])
        groups = []
        for _ in range(ng):
            f = r.choice(srcs)
            tos = r.sample(dsts, 2)
            ch = []
            for t in tos:
                idx = self.next_req.get((f, t), 1)
                self.next_req[(f, t)] = idx + 1
                ch.append((t, idx))
            g = {"from": f, "children": ch, "T": T, "begun": list(ch)}
            self.groups.append(g)
            groups.append(g)

        def blk(txs):
            self.height += 1
            self.ops.append("block " + " | ".join(txs) if txs else "block")
            self.observe()

        def child(g, c):
            grp = ",".join(f"{tt}={ii}" for tt, ii in g["children"])
            self.ids.append(ibtp_id(g["from"], c[0], c[1]))
            return f"ibtp {ADMIN[fc]} {g['from']} {c[0]} {c[1]} req {g['T']} {grp} ok"

        def rcpt(g, c, typ):
            g.setdefault("reported", {})[c] = typ
            return f"ibtp {ADMIN[c[0].split(':')[0]]} {g['from']} {c[0]} {c[1]} {typ} 0 - ok"
        begins = [child(g, c) for g in groups for c in g["children"]]
        if r.random() < 0.5:
            blk(begins)
        else:
            blk(begins[:len(begins) // 2])
            blk(begins[len(begins) // 2:])
        if r.random() < 0.7:
            blk([rcpt(g, g["children"][0], "ok") for g in groups if r.random() < 0.8])
        verdicts = []
        for n, g in enumerate(groups):
            first_ok = g.get("reported", {}).get(g["children"][0]) == "ok"
            typ = "fail" if (n == 0 or not first_ok or r.random() < 0.6) else "ok"
            verdicts.append(rcpt(g, g["children"][1], typ))
        r.shuffle(verdicts)
        blk(verdicts)
        blk([])
        self.tags.add("two-groups-one-block-scenario")

    def scripted_late_begin_failed_child(self):
        """a one-to-many transaction whose first child is begun in one block and whose second child CANNOT begin (its destination
        refuses the source: c3:s1 blocks c1:s2) in a LATER block, before the deadline of the first: the group fails there and leaves
        the timeout list of the deadline the FIRST child gave it; sometimes the failed child's failure receipt follows; the blocks
        run past that deadline — nothing of the group may be listed as timed out, no status may be moved by the timeout step"""
        r = self.rng
        f = "c1:s2"
        good = r.choice(["c2:s1", "c2:s3", "c4:s1"])
        T = r.choice([4, 5, 6])
        ch = []
        for t in (good, "c3:s1"):
            idx = self.next_req.get((f, t), 1)
            self.next_req[(f, t)] = idx + 1
            ch.append((t, idx))
        g = {"from": f, "children": ch, "T": T, "begun": list(ch)}
        self.groups.append(g)
        grp = ",".join(f"{tt}={ii}" for tt, ii in ch)

        def blk(txs):
            self.height += 1
            self.ops.append("block " + " | ".join(txs) if txs else "block")
            self.observe()
        for c in ch:
            self.ids.append(ibtp_id(f, c[0], c[1]))
        blk([f"ibtp ca1 {f} {ch[0][0]} {ch[0][1]} req {T} {grp} ok"])
        gap = r.choice([1, 2, 3])
        for _ in range(gap - 1):
            blk([])
        blk([f"ibtp ca1 {f} {ch[1][0]} {ch[1][1]} req {r.choice([T, T, T + 2])} {grp} ok"])
        used = gap
        if r.random() < 0.6 and used < T - 1:
            blk([f"ibtp ca3 {f} {ch[1][0]} {ch[1][1]} fail 0 - ok"])
            used += 1
        for _ in range(T - used + 3):
            blk([])
        self.tags.add("late-begin-failed-child-scenario")

    def scripted_hub_reverse_pair(self):
        """hub world: traffic over a pair across the two BitXHubs AND over the reverse pair.  A request that was never accepted but
        carries a notice-shaped Extra field is a plain new request (there is nothing to be notified about); a notice for an accepted
        one ends it; resends are refused; the counters of the local service are read after every step"""
        r = self.rng
        loc = r.choice(["c1:s1", "c2:s1", "c4:s1"])
        rem = "9999:c5:s1"
        la = ADMIN[loc.split(":")[0]]

        def blk(txs):
            self.height += 1
            self.ops.append("block " + " | ".join(txs) if txs else "block")
            self.ops.append(f"q ic {loc}")
            self.ops.append(f"q status {full(loc)}-{rem}-1")
        nrev = r.choice([1, 1, 2, 0])
        for i in range(1, nrev + 1):
            blk([f"ibtp ca9 {rem} {loc} {i} req 0 - msig3"])
        self.hub_next[(rem, loc)] = nrev + 1
        x1 = r.choice(["x:bf", "x:br", "x:bf", "x:ok"])
        blk([f"ibtp {la} {loc} {rem} 1 req {r.choice([0, 4])} - ok {x1}"])
        k = r.random()
        if k < 0.4:
            blk([f"ibtp {la} {loc} {rem} 1 req 0 - ok"])                      # a resend of the accepted request: refused
        elif k < 0.8:
            blk([f"ibtp {la} {loc} {rem} 1 req 0 - ok {r.choice(['x:bf', 'x:br'])}"])   # the other hub's notice for it
        blk([f"ibtp {la} {loc} {rem} 2 req 0 - ok"])
        self.hub_next[(loc, rem)] = 3
        self.tags.add("hub-reverse-pair-scenario")

    def scripted_interhub(self):
        """between two BitXHubs: another hub (id 9999, four validators) is registered as a relay chain by governance; a local service
        sends a request with a deadline to a service over there; the other hub's receipt (signed by enough of its validators) arrives
        before the deadline, at it, after it or never — the record moves along the same protocol as a local one"""
        r = self.rng

        def blk(txs):
            self.height += 1
            self.ops.append("block " + " | ".join(txs))
            self.observe()
        blk(["xfer adm0 ca9 100000000000"])
        blk(["bvm ca9 appchain RegisterAppchain s:9999 s:name-9999 x: s:relaychain trust:1,2,3,4 s:0xbroker s:desc s:0x00000000000000000000000000000000000000a2 s:url s:@ca9 s:reason"])
        for v in ("adm0", "adm1", "adm2"):
            blk([f"bvm {v} gov Vote s:@ca9-0 s:approve s:r"])
        f, t = r.choice(["c1:s1", "c2:s1", "c4:s1"]), "9999:c5:s1"
        T = r.choice([2, 3, 4, 0])
        tid = ibtp_id(f, t, 1)
        self.watch = getattr(self, "watch", []) + [tid]
        self.ids += [tid]
        blk([f"ibtp {ADMIN[f.split(':')[0]]} {f} {t} 1 req {T} - ok"])
        when = r.choice(["before", "before", "at", "after", "never"]) if T else "before"
        wait = {"before": max(0, T - 2), "at": max(0, T - 1), "after": T + 1, "never": 0}[when]
        for _ in range(wait if when != "never" else 0):
            blk([])
        if when != "never":
            blk([f"ibtp ca9 {f} {t} 1 {r.choice(['ok', 'ok', 'fail'])} 0 - {r.choice(['msig2', 'msig2', 'msig3', 'msig1'])}"])
        for _ in range(T + 2):
            blk([])
        self.tags.add("interhub-scenario:" + when)

    def history(self, nblocks):
        k = self.rng.random()
        if self.focus == "single" and 0.8 < k <= 0.9 and not self.hub:
            self.scripted_interhub()
            nblocks = min(nblocks, 4)
        if self.hub and k < 0.35:
            self.scripted_hub_reverse_pair()
        if self.focus == "group" and k < 0.2 and not self.hub:
            self.scripted_two_groups_one_block()
            nblocks = max(3, nblocks - 4)
        if self.focus in ("group", "mixed") and 0.3 < k < 0.42 and not self.hub:
            self.scripted_late_begin_failed_child()
            nblocks = max(2, nblocks - 6)
        if self.focus in ("single", "mixed") and k > 0.9:
            self.scripted_receipt_with_group()
            nblocks = max(nblocks, 7)
        if self.focus in ("single", "mixed") and k < 0.1:
            self.scripted_long_pair()
            nblocks = max(nblocks, 9)
        elif self.focus in ("single", "mixed") and k < 0.22:
            self.scripted_reused_deadline()
            nblocks = max(nblocks, 8)
        for _ in range(nblocks):
            self.block()
            self.observe()
            if self.rng.random() < 0.06:
                self.ops.append("restart")
                self.tags.add("restart")
        return History(self.ops, tags=self.tags)


def gen(rng, n, tier, focus=None, blocks=(4, 14)):
    import random as _r
    hs = []
    for i in range(n):
        g = ExecGen(_r.Random(rng.getrandbits(64)), focus=focus or rng.choice(["mixed", "mixed", "group", "single"]))
        hs.append(g.history(rng.randint(*blocks)))
    return hs


def gen_fees(rng, n, tier):
    """C14 focus: transfers of every amount class (incl. self, negative, non-numeric, to admins and contracts),
    fee levels around the balance, mixed with failing txs; balances of all accounts after every block."""
    import random as _r
    hs = []
    for _ in range(n):
        r = _r.Random(rng.getrandbits(64))
        price = r.choice([1, 1, 3, 7, 1000, 47619047, 47619048])   # 21000*47619048 > 10^12 (user funds)
        BALS = "q bals n0 n1"           # n0 / n1: addresses that hold nothing and have no account record at the start
        ops = [f"world audit=0 price={price}", BALS]
        tags = set()
        names = USERS + ["ca1", "adm1", "adm0", "n0", "n1"]
        if r.random() < 0.3:
            # an address is funded for the first time and, later in the same block, is the receiver of a transfer whose sender
            # can cover the amount but not the fee (the transfer is applied, then reverted)
            a, b = r.sample(USERS, 2)
            nw = r.choice(["n0", "n1"])
            first = [f"xfer {a} {nw} {r.choice([1, 7, 1000])}"]
            if r.random() < 0.4:
                first.append(f"xfer {a} {r.choice(USERS)} 1")
            first.append(f"xfer {b} {nw} {10 ** 12 - 21000 * price + r.choice([1, 1, 21000 * price])}")
            ops.append("block " + " | ".join(first))
            ops.append(BALS)
            tags.add("new-account-then-fee-failed-credit")
        if r.random() < 0.3:
            # an administrator that can no longer pay: it sends away all it had but the fee of that transfer and a little more, and
            # its next transaction (a transfer, a contract call, an IBTP) costs more than it holds (or exactly what it holds) — what
            # it holds is the fee, and the administrator is one of those the fee is shared among
            adm = r.choice(["adm1", "adm2", "adm3"])
            start = 10 ** 24 + {"adm1": 42000, "adm2": 42000, "adm3": 2352000}[adm]      # what the world's prelude leaves it with
            left = r.choice([0, 1, 3, 1000, 15750 * price - 1, 15750 * price])             # its share of that fee is 5250 * price
            ops.append(f"block xfer {adm} {r.choice(USERS)} {start - (21000 * price + left)}")
            ops.append(BALS)
            nxt = r.choice([f"xfer {adm} u0 1", f"xfer {adm} {adm} 5", f"bvm {adm} txmgr Begin s:1356:c1:s1-1356:c2:s1-1 u:3 b:0",
                            f"ibtp {adm} c1:s1 c2:s1 1 req 0 - ok", f"xfer {adm} u1 0"])
            ops.append("block " + nxt + (f" | xfer {adm} u2 1" if r.random() < 0.3 else ""))
            ops.append(BALS)
            tags.add("starved-admin-sender")
        for _ in range(r.randint(3, 10)):
            txs = []
            for _ in range(r.choice([1, 1, 1, 2, 3, 5])):
                k = r.random()
                a = r.choice(USERS)
                if k < 0.12:
                    b = a
                    tags.add("xfer:self")
                else:
                    b = r.choice(names + ["interchain", "txmgr"])
                amt = r.choice(["0", "1", "7", "1000", "999999999999", "1000000000000", "1000000000001",
                                str(10 ** 12 - 21000 * price), str(10 ** 12 - 21000 * price + 1),
                                "abc", "-5", "-1000000000000000", "100000000000000000000000000", "3.5", ""])
                if amt == "":
                    amt = "~"
                if k >= 0.12 and r.random() < 0.2:
                    # a rich sender (a genesis admin holds 10^24): amounts around 2^63 and around its balance are covered or just
                    # not covered — the stated amount moves, whatever its size
                    a = r.choice(["adm1", "adm2", "adm3"])
                    # (the harness reports admin balances relative to the genesis value, the real ones carry the fees of the world's
                    # prelude: amounts within that margin of the balance are avoided, coverage would differ between node and model)
                    amt = r.choice([str(2 ** 63 - 1), str(2 ** 63), str(2 ** 63 + 1), str(10 ** 19), str(2 ** 64), str(2 ** 64 + 5), str(4 * 10 ** 23),
                                    str(2 * 10 ** 24), str(3 * 10 ** 24 + 1), "-" + str(2 ** 63), "-" + str(2 ** 64)])
                    tags.add("xfer:rich-sender" + (":above-int64" if abs(int(amt)) >= 2 ** 63 else ""))
                if amt.startswith("-"):
                    tags.add("xfer:negative")
                if k > 0.85:
                    txs.append(f"ibtp {a} c1:s1 c2:s1 {r.choice([1, 2, 9])} req 0 - {r.choice(['ok', 'bad'])}")
                    tags.add("fee:ibtp")
                elif k > 0.78:
                    txs.append(f"bvm {a} txmgr Begin s:1356:c1:s1-1356:c2:s1-1 u:3 b:0")
                elif k > 0.70:
                    txs.append(eth_tx(r, a))
                    tags.add("eth")
                else:
                    txs.append(f"xfer {a} {b} {amt}")
            ops.append("block " + " | ".join(txs))
            ops.append(BALS)
        hs.append(History(ops, tags=tags | {"fees"}))
    return hs


# ------------------------------------------------------------------------------------------ C07 / C08
FEE_GAS = 21000


def starve(r, who, price):
    """transfer that leaves `who` with less than one fee"""
    left = r.choice([0, 1, FEE_GAS * price - 1])
    return f"xfer {who} u0 {10 ** 12 - FEE_GAS * price - left}"


BVM_CALLS = [
    "store Set s:k{n} s:v{n}", "store Get s:k{n}", "store Set s:k{n}", "store Nope s:a",
    "txmgr Begin s:{id} u:3 b:0", "txmgr Report s:{id} i:1", "txmgr GetStatus s:{id}",
    "interchain GetInterchain s:1356:c1:s1", "interchain DeleteInterchain s:1356:c1:s1",
    "interchain Register s:1356:c9:s9", "interchain GetIBTPByID s:{id} b:1",
    "appchain GetAppchain s:c1", "appchain PauseChain s:c1", "appchain RegisterAppchain s:c7 s:n7 s:Fabric_V1.4.3 x:00 s:b s:d s:0x00000000000000000000000000000000000000a2 s:u s:adm s:r",
    "service PauseChainService s:c1", "service GetServiceInfo s:c1:s1", "service RegisterService s:c1 s:s9 s:n9 s:CallContract s:i s:1 s:p s:d s:r",
    "role GetRoleInfoById s:{addr}", "role RegisterRole s:{addr} s:governanceAdmin s:x s:r", "role FreezeRole s:{addr} s:r",
    "rule RegisterRule s:c1 s:0x00000000000000000000000000000000000000a2 s:u s:r", "governance GetProposal s:p1", "governance Vote s:p1 s:approve s:r",
    "dapp GetDapp s:d1", "node GetNode s:n1", "trust GetTrustMeta s:c1",
]


def bvm_call(r, ids):
    c = r.choice(BVM_CALLS)
    return c.format(n=r.randint(0, 3), id=(r.choice(ids) if ids else "1356:c1:s1-1356:c2:s1-1"),
                    addr="0x00000000000000000000000000000000000000b" + str(r.randint(0, 3)))


def eth_tx(r, who):
    k = r.random()
    if k < 0.4:
        return f"eth {who} {r.choice(USERS + ['n0'])} {r.choice([0, 7])} {r.choice([20000, 20999, 1])} {r.choice([1, 1000, 100000])}"      # gas limit below the intrinsic gas
    if k < 0.8:
        gp = r.choice([1000, 100000])
        return f"eth {who} {r.choice(USERS + ['n0'])} {10 ** 12 - r.choice([0, 1, 21000 * gp - 1])} 21000 {gp}"                  # value not affordable after buying gas
    return f"eth {who} {r.choice(USERS + ['n0'])} {r.choice([0, 7, 1000])} {r.choice([21000, 50000])} {r.choice([0, 1, 1000])}"     # fine


def gen_c07(rng, n, tier):
    """Failing transactions at every stage (check-rejected, contract error, fee failure after processing) from fee-starved
    signers, each bracketed by full state dumps; read-only (view) executions bracketed the same way."""
    import random as _r
    hs = []
    for _ in range(n):
        r = _r.Random(rng.getrandbits(64))
        g = ExecGen(r, focus="single", price=r.choice([1, 1, 2]))
        price = int(g.ops[0].split("price=")[1].split()[0])
        poor = ["u3"] + r.sample(["ca1", "ca2", "ca3", "u2"], r.choice([1, 2, 2, 3]))
        g.ops.append("block " + " | ".join(starve(r, p, price) for p in poor))
        g.tags.add("c07")
        for _ in range(r.randint(4, 10)):
            k = r.random()
            if k < 0.3:
                g.block()          # ordinary traffic (signers that are starved fail their fees here, too)
                continue
            if k < 0.42:
                g.ops.append("q dump")
                for _ in range(r.randint(1, 3)):
                    g.ops.append("q view " + bvm_call(r, g.ids))
                g.ops.append("q dump")
                continue
            # a block of failing candidates by starved signers
            txs = []
            for _ in range(r.choice([1, 1, 1, 2, 3])):
                p = r.choice(poor)
                m = r.random()
                if m < 0.45:
                    tx = g.tx_req() if r.random() < 0.6 else g.tx_rcpt()
                    ws = tx.split()
                    chain = (ws[2] if ws[5] == "req" else ws[3]).split(":")[0]
                    ws[1] = ADMIN[chain] if r.random() < 0.8 else p
                    txs.append(" ".join(ws))
                elif m < 0.7:
                    txs.append(f"bvm {p} " + bvm_call(r, g.ids))
                elif m < 0.85:
                    # an Ethereum transaction the EVM refuses in its pre-checks (after it has bought the gas): gas limit below the
                    # intrinsic gas, or a value the sender cannot afford once the gas is paid for; sent by a funded account
                    who = r.choice([u for u in USERS if u not in poor] or USERS)
                    txs.append(eth_tx(r, who))
                    g.tags.add("eth")
                else:
                    txs.append(f"xfer {p} {r.choice(USERS)} {r.choice(['0', '1', '5', '999999999999999', 'abc', '-3'])}")
            g.ops.append("q dump")
            g.ops.append("block " + " | ".join(txs))
            g.ops.append("q dump")
            g.observe()
        hs.append(History(g.ops, tags=g.tags))
    return hs
