TB = ("Trusted: Lean 4.33.0 kernel; axioms propext/Classical.choice/Quot.sound only (audited per theorem on every run, no sorry/native_decide/bv_decide); "
      "the reading of the property into Lean Props; the hand-written model is tied to /repo by differential runs of the real code against the compiled model "
      "(agreement shown only on generated histories); external libraries are modelled parameters (DESIGN §7).")

TEXTS = {
    "C20": {
        "text": "Sync-range clause proved for all (begin,end,fetch) over Nat (C20_ranges_partition_holds: exact ascending cover, non-empty ranges, length <= fetch+1); "
                "model run against the real calcRangeHeight on exhaustive small and random large triples; model-free monitor re-checks the partition on the real output.",
        "note": TB + " uint64 wrap-around outside end+fetch < 2^64 is not covered.",
        "technique": "Lean 4 theorem over an executable model + differential correspondence with the Go code",
    },
}
NOT_YET = {}
