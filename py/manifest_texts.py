TB = ("Trusted: Lean 4.33.0 kernel; axioms propext/Classical.choice/Quot.sound only (audited per theorem on every run, no sorry/native_decide/bv_decide); "
      "the reading of the property into Lean Props; the hand-written model is tied to /repo by differential runs of the real code against the compiled model "
      "(agreement shown only on generated histories); external libraries are modelled parameters (DESIGN §7).")

TEXTS = {
    "C20": {
        "text": "Sync-range clause proved for all (begin,end,fetch) over Nat (C20_ranges_partition_holds: exact ascending cover, non-empty ranges, length <= fetch+1); "
                "the synchronised stream itself (C20_sync_stream_each_height_once: begin..end once each, ascending, then the end marker) — tied to the real StateSyncer.SyncCFTBlocks / SyncBFTBlocks run over three fake peers serving a hash-linked chain, one of them failing its first requests; "
                "model run against the real calcRangeHeight on exhaustive small and random large triples; model-free monitor re-checks the partition on the real output. "
                "Raft apply loop (Model/Order.lean: entriesToApply, publishEntries/mint, reportState, maybeTriggerSnapshot, restart): for EVERY sequence of Ready batches (any entries: duplicates, replays, gaps, stale heights), "
                "snapshots, reports, executor takes and crash/restarts, the executor is handed exactly ledger+1, ledger+2, ... — consecutive, ascending, none twice (C20_delivery_consecutive, invariant `Good`: the minted queue "
                "continues the ledger). The other half ('no unexecuted entry is skipped') is false of the code: C20_snapshot_ahead_skips_unexecuted is the recorded finding as a kernel-checked witness. "
                "The model is run against the real etcdraft node (order engine: real raft storage, crash / restart at every point). 'A transaction is included in at most one delivered block' is "
                "a property of the pool every proposed batch comes out of: proved there for every pool state (C18_generate_gap_free_no_repeat: no pointer of a batch was batched and uncommitted before) and checked "
                "here on the real mempool by the pool engine (rule transaction-in-two-batches). 'Identical content on every replica' rests on every replica voting at most once per term, also after a crash: the raft hard state "
                "(term, vote, commit) is part of the model and of the order engine (op hs = a Ready without entries or snapshot through the real RaftStorage.Store; restart reports what the reopened storage hands to raft): over every history the vote in the node's "
                "storage is the last vote it stored, restarts keep the hard state (C20_vote_survives_history, C20_restart_keeps_hard_state; rule restart-forgets-term-or-vote).",
        "note": TB + " uint64 wrap-around outside end+fetch < 2^64 is not covered.",
        "technique": "Lean 4 theorem over an executable model + differential correspondence with the Go code",
    },
}
TEXTS["C02"] = {
    "text": "Proved on the Lean model of HandleIBTP/checkIBTP/ProcessIBTP/applyTransaction for all states and IBTPs: the index gate accepts exactly counter+1 "
            "(C02_index_check_exact, C02_accept_needs_next_index); an IBTP rejected by the proof/signature check or by the contract leaves the contract store and the "
            "delivery events untouched (C02_rejected_by_check_no_effect, C02_rejected_by_contract_no_effect). The full clause 'any rejected IBTP has no effect' "
            "(C02_rejected_no_effect_holds, via the journal-faithfulness lemmas of C07) holds since the fix: commits 80242227/15f50afb; the former counter-example (fee failure after processing) is now "
            "the positive theorem C02_fee_failed_not_listed and its corpus witness is replayed on every run. "
            "History level (C02_history_requests_consecutive): over ANY sequence of IBTPs, the requests of an ordered pair that are accepted carry exactly the indices counter+1, counter+2, ... in order, and the pair's counter ends at counter + their number "
            "(frame lemmas in Proofs/ExecFrame.lean: handling an IBTP of another pair leaves the pair's counter alone). "
            "Model is run against the real executor+contracts on generated histories; model-free monitor recomputes accepted indices, request AND receipt counters (with their mirrors on the destination) and delivery sets from receipts — in worlds with a second registered BitXHub also for pairs across the two hubs (an accepted request that is not the other hub's notice for an accepted one carries the next index and is counted).",
    "note": TB,
    "technique": "Lean 4 theorems over an executable model of the interchain contract + differential correspondence with the real executor",
}
TEXTS["C04"] = {
    "text": "The transition table is regenerated from transaction_manager.go on every run and the theorems are re-proved against it: no transition leaves SUCCESS/FAILURE/ROLLBACK "
            "(C04_table_no_exit_from_final, lifted to all events: C04_final_absorbing_step), every FSM step is a protocol edge (C04_step_is_protocol_edge), Report moves a one-to-one "
            "record only along the FSM and refuses receipts in final states (C04_report_moves_along_fsm, C04_report_refused_when_final), GetStatus returns the stored status. "
            "Between two BitXHubs the destination hub's notice (Extra field naming BEGIN_FAILURE / BEGIN_ROLLBACK) is accepted exactly at BEGIN, ends in FAILURE resp. ROLLBACK and keeps the deadline "
            "(notice_step by decide over the regenerated txStatus2EventM, C04_notice_only_from_begin, C04_notice_accepted_at_begin; repaired by fix 37545315); histories with a registered second hub (world option hub=1) are compared with the model. "
            "History level (Proofs/ExecRec.lean: only Begin writes a fresh record, only Report or the notice steps an existing one, nothing else touches tx-<id>): over ANY sequence of handled IBTPs the status of a record of an index-checked pair stays present and "
            "moves only along steps of the state machine (C04_history_status_path), hence SUCCESS / FAILURE / ROLLBACK never change again (C04_history_final_stays); the counter hypothesis of both holds for every record the contract creates "
            "(C04_created_record_is_bounded). Block level (through applyTx with its fee step, transfers, contract calls, the timeout bookkeeping and the timeout step): a final record stays as it is over one block and over every history of blocks "
            "(C04_tx_final_stays, C04_block_final_stays, C04_block_history_final_stays) under the hypothesis that the record is not on the timeout list of a height whose timeout step runs (and nobody calls the unguarded "
            "DeleteInterchain). That hypothesis is discharged, and finality is closed from the first block on (Proofs/ExecStepsT.lean, ExecListed.lean): at every block boundary a one-to-one transaction t of a local index-checked pair is "
            "Tracked — fresh (no record, the pair's counter below its index, on no list still to come), opened (record not final; on the lists still to come at most once and only under its recorded deadline) or final (and on no list still to come) — and every block keeps it so "
            "(C04_block_tracked: a fresh one stays fresh, is opened by the one request the block accepts for it, or is begun and answered in one block, C04_block_fresh_step; an open one stays open or is timed out to BEGIN_ROLLBACK, C04_block_open_stays, or becomes final and is "
            "taken off its list in the same block, C04_block_finalising_unlists; a final one stays final and unlisted, C04_block_final_stays_unlisted), hence every history of blocks (C04_history_tracked), hence C04_final_is_forever: on a history that starts on a fresh chain, a status that is final "
            "after k blocks is the status after all of them — receipts of any kind, replays, other traffic, unpayable fees and the timeout step included. The proofs rest on: contract code never raises the count of a one-to-one id on a timeout list (relation StepsT; Go's in-place slice removal is a "
            "sublist, goRemove_sublist), the bookkeeping adds an id only for a request with a successful receipt (timeoutAct_add), at most one request naming t is accepted per block and its timeout gives the recorded deadline (FreshPhase / Acc through the generic loop invariant "
            "applyTxs_zip_fold), a request naming an accepted transaction is refused. Assumed of every block (BlockOk): nobody calls the unguarded DeleteInterchain (open finding of C17), no request naming t carries a Group, the bookkeeping is not abandoned (abort); the model driver evaluates "
            "openinv / abort / listedfinal on every generated block (evidence tags model:*, a failing one is a violation). The "
            "monitor on the real node (protocol automaton written from the property text) plus the model correspondence decide whole block histories including timeouts.",
    "note": TB + " Extractor go/extract (go/packages + go/ast) is trusted to copy the literal table.",
    "technique": "Lean 4 table theorems (decide over the extracted FSM, lifted by lemma) + model correspondence + protocol monitor",
}
TEXTS["C06"] = {
    "text": "Proved on the model of setTimeoutList/getTimeoutList/setTimeoutRollback for all ledgers, heights, ids: an accepted plain request with 0<T (no overflow) is recorded for exactly H+T "
            "(C06_request_recorded_at_deadline), T<=0/overflow/rejected/batch/begin-failed requests are never recorded (C06_zero_never, C06_rejected_never), an accepted receipt requests removal "
            "at the recorded height (C06_receipt_removes), between two BitXHubs a request whose record is final (the destination hub's notice) leaves the list of the recorded deadline and joins none (C06_notice_leaves_list; the three request theorems carry the hypothesis that there is no such record, "
            "discharged for local pairs and open records by finalInterRecord_none_of_local / _of_open), a Group request between two hubs is booked like any other (C06_interhub_request_with_group_recorded). Block level (Proofs/TimeoutList.lean): what is stored under every timeout height after the bookkeeping of a whole block follows from the per-transaction actions alone, in whatever order the two Go maps are iterated "
            "(setTimeoutList_at): every request the block books for d is on that list afterwards, once, behind what was there (C06_block_books_requests), an id taken off is gone (C06_block_unbooks), a request and its receipt in one block net out (C06_block_request_and_receipt_net_out), other heights keep their lists (C06_block_other_heights_untouched). The timeout step of block h moves every listed id to BEGIN_ROLLBACK and touches no unlisted id "
            "(C06_fires_at_deadline, C06_not_listed_untouched). The end-to-end statement over histories is checked by model correspondence and the protocol monitor, one-to-one and (a quarter of the traffic) one-to-many: a group is listed as timed out only "
            "in its deadline block and only if it has neither failed nor finished. Defects repaired by fix: commits (097cb155, 1d4711ef, the timeout-list quirks, ec8a63d5, 56c2160a, 37545315). Over whole histories from a fresh chain (Props/C06b.lean, on the closed-finality invariant of C04 and the exact list-count lemmas of Proofs/ExecListedE): a request whose receipt was accepted never times out in any later block, a final record is on no list of any height for ever, an open record is listed only under the deadline its own record names, and contract transactions leave every other list alone (C06_answered_request_never_times_out, C06_final_is_unlisted_forever, C06_open_listed_only_under_its_deadline, C06_transactions_leave_the_lists_alone). The positive half over histories: the block that accepts a request with 0<T<maxU64-H leaves it DUE (open, on the list of H+T exactly once, all stored lists well-formed: C06_block_opens_due), every block that accepts no receipt for it keeps it due (C06_block_keeps_due, C06_history_keeps_due) and the block of height H+T moves it to BEGIN_ROLLBACK (C06_block_fires_due, C06_unanswered_request_times_out, C06_request_unanswered_until_H_plus_T_times_out); assumed there: NoAbort, no DeleteInterchain, GlobalsPresent for the deadline block's timeout walk, no receipt transaction for the id in the accepting block. That the piers are told once is decided by the monitor and the router verdict.",
    "note": TB,
    "technique": "Lean 4 theorems over the executable timeout-bookkeeping model + differential correspondence + protocol monitor",
}
TEXTS["C14"] = {
    "text": "Proved over Int balances for all ledgers/accounts/amounts on the model of transfer/payGasFee/payLeftAsGasFee/payAdmins: a successful transfer between distinct accounts moves exactly v and "
            "needs 0<v<=balance (C14_transfer_exact), a self-transfer is neutral (C14_self_transfer_neutral), a transfer fails exactly for negative or uncovered amounts "
            "(C14_transfer_fails_iff), no balance becomes negative (C14_transfer_nonneg, C14_payGasFee_sender_nonneg), rounding loss of the admin split is within [0,n-1] (C14_fee_rounding). Block and history level (Proofs/ExecSupply.lean, ExecStepsS.lean): for EVERY block — transfers of any amount, IBTPs and contract calls "
            "failing at any stage, fee payments that succeed or fall back to the sender's whole balance with the transaction reverted, the timeout bookkeeping — and every list of distinct accounts containing the senders, the sum of the "
            "balances does not grow and no balance becomes negative (C14_block_no_value_created), hence over any chain of blocks (C14_history_no_value_created). "
            "The other direction (Proofs/ExecFees.lean): what leaves the sender reaches the admins up to the rounding of the split — a paid fee and the whole balance of a sender that cannot pay lose at most n-1 units, also when the sender is itself one of the admins "
            "(C14_paid_fee_reaches_admins, C14_unpayable_fee_reaches_admins), one transaction of any kind and outcome destroys at most n-1 units and a block at most (n-1) per transaction (C14_tx_loss_bound, C14_block_loss_bound). "
            "Two genuine defects found by this check (self-transfer created value; negative amount moved value backwards and below zero) were repaired by fix: commits and the model follows the repaired code. "
            "Model is run against the real executor; monitor recomputes the sum of all balances after every block. A second engine runs the documented grant (audit / governance admin registration and rebind) through real governance and checks it is paid exactly once per admin.",
    "note": TB + " EVM/XVM balance effects (wasm set_balance host call) and the admin-registration grant are outside the exec op language.",
    "technique": "Lean 4 theorems over the executable block-execution model (per-operation arithmetic, block-level and history-level conservation by induction) + differential correspondence + balance-sum monitor",
}
TEXTS["C13"] = {
    "text": "Proved on the model of SimpleLedger/SimpleAccount/AccountCache for all ledger states (any dirty set, origin memo, cache and database content): read-your-write for journaled writes, "
            "deletes and un-journaled adds, independence of other keys (C13_read_after_set, C13_read_after_add, C13_set_other_key_dirty); across the end of a block: after FlushDirtyData the last value written to a key of a modified "
            "account is read back through the account cache (C13_read_after_flush), and after Commit + reopen (no caches) the same bytes are read from the database (C13_read_after_commit_reopen; "
            "Proofs/LedgerReads.lean). The end-to-end refinement to a plain map across flush / "
            "commit / eviction / reopen / rollback is decided by model correspondence (every getter, QueryByPrefix and the state roots bit for bit) plus a plain-map reference monitor on the real ledger. "
            "Two defects found here were repaired by fix: commits (QueryByPrefix overlap; AddState not loading the committed value); known findings: empty values are not persisted, Query ignores the cache before commit. Proved for EVERY ledger state (Proofs/LedgerRevert.lean, Props/C13b.lean): GetState / GetBalance / GetNonce answer a pure view of the ledger (getState_peek …); a write changes what exactly one key reads (C13_write_changes_exactly_one_key), the latest write wins over any sequence of writes (C13_read_after_writes); RevertToSnapshot after any sequence of journaled writes (storage writes and deletes, balance, nonce; accounts loaded, loadable or created by the write) succeeds and every storage key, balance and nonce of every account reads what it read at snapshot time, journal and revision stack restored (C13_revert_restores_every_journaled_value); nested snapshots revert independently (C13_nested_snapshots_revert_independently). Not in the journal-undo proof: SetCode. The prefix-query clause is proved (Proofs/LedgerQuery.lean): the result of QueryByPrefix is a reordering of the values of a finite map without duplicate keys that holds a key iff it starts with the prefix and GetState answers a present value for it, with exactly that answer — whether the value lives in the block's dirty set, the account cache or the database, and with keys deleted or emptied in an upper layer left out (C13_query_lists_exactly_the_live_keys, C13_query_sound, C13_query_complete); its hypotheses (ObjCoh: the block's account objects are coherent with the layers below; StoreWf: cache entries and the database are maps) are established by an empty / reopened ledger and kept by writes, flush and commit (C13_query_exact_in_and_after_a_block, StoreWf.flush / commit / reopen), and the model driver evaluates them at every query of every generated history (queryHypB, proved sound; model:qhyp=1 in the evidence).",
    "note": TB + " LevelDB, golang-lru (eviction = explicit op) are modelled; Keccak-256 is a parameter supplied by a table checked by the harness.",
    "technique": "Lean 4 theorems over an executable ledger model + differential correspondence (bit-exact roots) + plain-map reference monitor",
}
TEXTS["C12"] = {
    "text": "Proved on the model of Commit/removeJournalsBeforeBlock/RollbackState: refusals above the head and below the retained window (C12_refuse_higher, C12_refuse_too_much) return no ledger (nothing modified), "
            "rollback to the head is the identity (C12_noop_at_head), and committing consecutive heights keeps exactly the last 10 journals plus the genesis target while height 1 is retained "
            "(commit_range, C12_commit_keeps_window). Restoration itself is proved for the state store: FlushDirtyData + Commit of a block followed by RollbackState to the previous height gives back, for every "
            "address, the account record, code and bytes under every storage key (C12_rollback_restores_previous_block, through the model's flush / commit / rollback), and for any number of blocks "
            "RollbackState(t) leaves what the state store held at height t (C12_rollback_restores_any_retained_height, C12_reverting_journals_restores_any_height; Proofs/LedgerRollback.lean) - under the hypothesis "
            "that each committed account object's origin fields mirror the state store (Coh), which the model driver evaluates at every commit of every generated history and reports in the evidence "
            "(model:coh=1 / coh=0/<clause>). Rollback vs. the code is decided by correspondence (model = code on rollback histories incl. pruning) and by the "
            "reference monitor that compares the full dump after every rollback with the dump recorded at commit time. One defect (AddState journaled a wrong previous value) was repaired by a fix: commit.",
    "note": TB,
    "technique": "Lean 4 theorems over the executable journal-window model + differential correspondence + recorded-dump monitor",
}
TEXTS["C10"] = {
    "text": "State root: proved that sorting makes account-map and dirty-key iteration order unreachable from the root pre-image (C10_sortAccts_perm, C10_sortKeys_perm, C10_account_preimage_perm via core's "
            "pairwise_mergeSort/Perm.eq_of_pairwise), that the root is the hash of a pre-image containing the previous root, and sensitivity as a collision reduction (C10_sensitivity_reduction). "
            "Merkle roots: one tree level is injective on equal-length lists or exhibits an explicit collision of the node hash (C10_levelUp_sensitive); the odd-leaf duplication of the library is stated as a theorem. "
            "The model's roots (own SHA-256 in Lean) equal the code's bit for bit on every generated history; metamorphic monitors (same change set in another order/through reads, evictions, reopen => same root; "
            "single-field perturbation => different root) run on the real ledger and the real calcMerkleRoot. Known finding: a no-op account write changes the root.",
    "note": TB + " SHA-256 collision resistance is not assumed (reductions); receipt/tx hashing (protobuf) is not modelled.",
    "technique": "Lean 4 theorems (permutation invariance, collision reductions) + bit-exact differential correspondence + metamorphic monitors",
}
TEXTS["C18"] = {
    "text": "Proved on the model of generateBlock for every pool state: a batch never exceeds the configured size whenever the ready counter is positive (C18_batch_size_bound, by a loop invariant over the "
            "priority-index iteration incl. the skipped-transaction drain loop); the pointers of one batch are pairwise distinct, none was already batched and uncommitted, and each carries the account's committed nonce or the "
            "successor of a batched nonce — for every pool state, also with two priority entries for one pointer (C18_generate_gap_free_no_repeat, invariant BInv in Proofs/PoolBatch.lean; C18_batch_is_pointer_image, C18_batched_grows_by_batch); a generated batch carries the previous sequence number plus one, a call that generates nothing leaves it (C18_seqno_steps_by_one). Over whole histories (admissions, batch generations, commit notifications naming anything in any order, evictions, from any pool state): a pointer is handed to consensus a second time only if in between a commit notification named a hash the pool held for exactly that pointer (C18_history_rebatch_only_after_commit, C18_history_no_double_batch; Proofs/PoolOnce.lean characterises who changes the batched set). "
            "Across commits, evictions and restarts gap-freeness, once-only, given-only and consecutive heights are decided by the model correspondence on the real mempoolImpl "
            "(all observable outputs and the sizes of every internal index after every step) plus a model-free checker of the batch stream. Known finding: after commits of blocks the node never held the cached "
            "commit nonce is stale and an old transaction is batched below the committed nonce.",
    "note": TB + " time.Now() inside the pool is handled by logical arrival groups (harness sleeps between groups and derives the eviction duration from its own clock).",
    "technique": "Lean 4 loop-invariant theorems over the executable pool model (size bound; gap-free / no repeat) + differential correspondence + batch-stream checker",
}
TEXTS["C19"] = {
    "text": "Proved on the model: the age rule evicts only transactions that are held, old, not batched, not ready and parked (C19_evict_only_old_nonready_nonbatched, C19_evict_count), GetTransaction returns the "
            "item stored under the hash's pointer (C19_getTx_from_items), HasPendingRequest is the ready counter (C19_pending_flag_is_counter). No silent loss, one operation at a time, for every pool state: batch building forgets nothing "
            "(C19_generate_forgets_nothing), ProcessTransactions forgets a held hash only by supersession of its (account, nonce) (C19_process_forgets_only_superseded, C19_admission_sound), a commit only the hashes it "
            "names (C19_commit_forgets_only_committed), the age rule only parked unbatched holders (C19_evict_forgets_only_parked); the transaction cache in front of the pool posts every arrival once, in arrival order, in sets of at most the set size (C19_txcache_loses_nothing, tied to the real TxCache goroutine); and over every history of admissions, batch generations, commits and evictions from "
            "any pool state a held hash stays held to the end unless one of these three reasons applied at some point (C19_history_no_silent_loss). Readiness and the pending nonce (Proofs/PoolReady.lean): what processDirtyAccount calls ready for an account is the maximal "
            "gap-free run of nonces held in its index from the pending nonce on — every nonce of the run is held, the first nonce behind it is not — and the pending nonce stored afterwards is exactly the nonce behind that run "
            "(C19_ready_is_maximal_gap_free_run, C19_pending_nonce_is_behind_the_ready_run, C19_ready_run_of_set_index). Bounded liveness "
            "(60 rounds of generate+commit) is decided by correspondence and a model-free monitor over GetTransaction of every hash ever given. Two defects found here were repaired by fix: commits "
            "(eviction corrupted other accounts' nonce indices; GetTransaction returned a superseding tx); known finding: pending nonce stale after foreign commits. A model-free rule counts the transactions marked batched against those in some batch (marked-batched-but-in-no-batch).",
    "note": TB,
    "technique": "Lean 4 theorems over the executable pool model + differential correspondence + no-loss monitor",
}
TEXTS["C09"] = {
    "text": "Proved on the model of PersistExecutionResult and the getters for every consistent node and every block: the persisted block has height head+1 and the previous head hash as parent, the chain meta names "
            "it with the cumulative interchain count (C09_persist_links), it is found by height in both modes, by hash, by the height index, with its interchain meta and tx count (C09_persist_lookup), consistency "
            "is preserved and the append never goes out of order (C09_persist_consistent, C09_persist_total); after RollbackBlockChain(t) no block (either mode), height index entry or transaction count above t is found and the "
            "chain meta names t (C09_rollback_clears_above_target, C09_ledger_rollback_clears_above_target; exact characterisation of the loop in Proofs/ChainRollback.lean). Over every history (Proofs/ChainLinked.lean): whatever blocks a node persisted and whatever rollbacks it went through, EVERY committed height h holds a block of height h that both read modes return, that the height index and the by-hash lookup agree on, whose parent is the hash of the block at h-1 (zero hash for the first), the chain meta names the head's hash, every transaction-meta entry points into a committed block that holds that transaction at that index, and nothing above the head is found (C09_history_chain_linked, C09_every_height_linked_and_indexed, C09_tx_lookup_agrees, C09_history_nothing_above_head; invariant Linked kept by persist and by the rollback loop) — assuming only that a new block's hash is not the hash of a stored block (no collision; evaluated by the model driver at every persist, model:fresh=1). Tx/receipt lookups against the code are decided by model correspondence on the real "
            "ledger (LevelDB + blockfile) and a model-free monitor that queries every getter for every known height/hash/tx after rollbacks. Two defects found here were repaired by fix: commits (GetBlockHash decoding; "
            "stale block-height entry after rollback).",
    "note": TB + " Block hashes are symbolic in the model; that the stored header's transaction root and receipt root ARE the Merkle roots of the stored transactions and receipts is decided on the real node after every block of the exec engine, by a reference tree written in the harness (refMerkleRoot) over what is read back from the store; the tree function itself is modelled and proved sensitive in C10.",
    "technique": "Lean 4 theorems over the executable chain-store model + differential correspondence + exhaustive getter monitor",
}
TEXTS["C11"] = {
    "text": "Proved for every height h>=1 and every mask of the durable writes of one block commit (state batch, chain-index batch, 0..5 blockfile tables): recovery succeeds IF AND ONLY IF everything is durable or "
            "neither the chain-index batch nor the complete blockfile append is (C11_recover_iff), with the three unrecoverable classes characterised (C11_state_behind_chain_index, C11_blockfile_ahead, "
            "C11_chain_index_ahead) and the full clause refuted by a machine-checked counter-example (C11_always_recovers_false). The abstract recovery model is cross-checked in the driver against the concrete "
            "chain/blockfile/state model, which is run against the real stores: every admissible mask is assembled from before/after copies of the real LevelDB and blockfile directories at 6 (thorough: 11) heights "
            "incl. journal-pruning ones, reopened with the real ledger.New and continued. The three bad classes are genuine defects recorded as known findings (no small safe repair: needs a commit record). After every crash image the ledger is reopened twice (a second reopen must change nothing), and state keys of raw bytes (non-UTF-8, 0xff-prefixed) are written and read back in every block.",
    "note": TB + " LevelDB batch atomicity and blockfile repair semantics are assumed (a table append is fully there or absent after repair); fsync ordering inside a store is not modelled.",
    "technique": "Lean 4 iff-characterisation over the crash-mask model + exhaustive crash injection on the real stores (correspondence)",
}
NOT_YET = {}

TEXTS["C07"] = {
    "text": "Proved for every ledger, configuration and transaction of the exec op language on the model of applyTransaction/applyBxhTransaction/payGasFee/payLeftAsGasFee and of all modelled "
            "contract functions: every write goes through the journaled setters (Steps lemmas for 20 functions), undoing the journal restores storage and balances (Steps.faithful, revert_restores), hence a FAILED "
            "receipt — rejected before execution, contract error, or unpayable fee after full processing — leaves every storage key unchanged (C07_failed_tx_storage_unchanged), changes no balance but the sender's and the admins' "
            "(C07_failed_tx_balances_unchanged), carries no event / is never listed (C07_failed_tx_not_listed) and leaves an empty journal (C07_journal_reset). One modelled post-effect error on the IBTP path (audit record missing) is an explicit hypothesis (auditHole). "
            "On the real node a model-free monitor brackets every all-failed block and every run of view executions with a dump of all committed contract storage, balances and nonces. "
            "Three defects were repaired by fix: commits (stale state changer, un-journaled AddState, events of failed transactions processed).",
    "note": TB + " Nonces, EVM/XVM (out-of-gas) failures and governance contracts are not in the model; they are covered by the dump monitor only (governance calls) or not at all (EVM/XVM).",
    "technique": "Lean 4 invariant proof (journal faithfulness over all contract writes) + differential correspondence + full-state dump monitor on the real executor",
}

TEXTS["C17"] = {
    "text": "The table of every exported method of every registered built-in contract, with the permission calls in its body, and the Stub interface's method set are regenerated from /repo on every run "
            "(go/extract -> lean/Bxh/Gen/Methods.lean) and the table theorems are re-checked by the kernel: nothing promoted from the Stub toolbox is dispatched and everything dispatched returns a Response "
            "(C17_stub_toolbox_not_dispatched, C17_resolve_sound, for all contract/method names); each of the 32 contract-to-contract entry points named by the property carries a specific-callers-only gate "
            "(C17_internal_entries_gated) and the entries without a gate of their own are exactly the listed ones (C17_ungated_entries_have_no_gate); the gate's decision function admits exactly the listed addresses / "
            "self-or-admin (C17_specific_gate_iff, C17_specific_gate_refuses_outsiders, C17_self_admin_gate_iff) and is tied to contracts.checkPermission by an exhaustive differential run (7650 calls). "
            "On the real node every method is called directly by an outsider, another chain's admin, a governance admin and the super admin with well-typed arguments, audit on/off, bracketed by full state dumps: "
            "internal entries must fail and change nothing, no direct call may rewrite existing interchain counters / transaction records, objects of another chain stay untouched, failed calls change nothing. "
            "Two defects repaired (fix: Stub methods were dispatchable; fix 1ae276ee: the contract-to-contract entry interchain.HandleIBTPData had no caller check and let any account move interchain counters and transaction records in worlds with a second BitXHub — table theorem "
            "C17_ibtp_data_entry_asks_for_its_caller over the regenerated method table); known findings: InterchainManager.DeleteInterchain/Register and Governance.ZeroPermission have no caller check.",
    "note": TB + " The bodies behind the gates (governance managers of bitxhub-core) are not modelled; that the gate's address lists contain only contract addresses is decided dynamically, not proved.",
    "technique": "Lean 4 table theorems (decide +kernel over the regenerated method/guard table) + decision-function theorems + differential correspondence + role x method probing with state dumps",
}

TEXTS["C08"] = {
    "text": "Proved on the model of the executor loop for every block content the op language expresses: exactly one receipt per transaction (C08_one_receipt_per_tx), in block order (C08_receipts_in_block_order), "
            "commit with the next height (C08_next_height), a rejected transaction still gets a (failed) receipt, the Go slice-bounds panic of the timeout-list removal loop is an explicit outcome turned into a failed receipt "
            "(C08_remove_panic_is_contained); all model functions are total (Lean's termination checker). Where a panic would end the process is an inventory regenerated from /repo on every run (go/extract/guards.go -> Gen/Guards.lean: every go statement of the "
            "block-execution packages with whether its body starts with a deferred recover; every function that defers a recover and whether the guard is its first statement) with kernel-checked table theorems: every goroutine is guarded or one of fourteen reviewed ones, "
            "the three guards the containment argument relies on (BoltVM.Run, BoltVM.HandleIBTP, verifyTxSignature) are in place and first, the contracts package starts no goroutine "
            "(C08_goroutines_guarded_or_reviewed, C08_reviewed_goroutines_exist, C08_recover_guards_in_place, C08_contracts_start_no_goroutine). Crash-freedom of the Go code on inputs below the model's abstraction is decided by the correspondence run: the real executor "
            "gets blocks of malformed transactions of every class (every exported contract method from the regenerated table with wrong arity/types/unknown type tags/unparsable numbers, raw and truncated payloads, arbitrary "
            "TransactionData, malformed service ids, numeric extremes, malformed groups, proofs a rule rejects with an error or with plain false); a dead or panicking process, a missing receipt or a wrong height is a violation, and "
            "whatever the model covers must agree. Two crashes found this way were repaired by fix: commits (PostInterchainEvent through the promoted Stub surface; nil error dereferenced when a rule answers plain false). A second search runs the harness built with Go's race detector over blocks whose IBTPs spread over the proof-verification groups with mixed verdicts (and over the malformed traffic): a reported race ON A GO MAP is an alarm (at run time a fatal error that recover cannot contain), other reports are counted in the evidence (race:not-a-map:*).",
    "note": TB + " PARTIAL: totality of the Go code itself is shown only on generated inputs; goroutine-level hangs and the signature-verification goroutines are exercised but not modelled; EVM/XVM execution is outside the op language.",
    "technique": "Lean 4 theorems on the executor-loop model (receipt count/order/height, contained panic) + table theorems over the regenerated goroutine / recover-guard inventory + differential correspondence under a malformed-input generator with crash detection",
}

TEXTS["C03"] = {
    "text": "Proved on the model of verifyProofs / the invalid-reason short-circuit / applyTransaction: the verdict is `accepted` exactly for a well-formed proof whose origin parses, is local and whose bound rule accepts "
            "(C03_verdict_none_iff); absent, hash-mismatching and plain-false proofs are always rejected (C03_bad_proof_rejected); an IBTP with any rejection reason gets a FAILED receipt, leaves every storage key and every "
            "foreign balance untouched and is never listed (C03_unverified_ibtp_no_effect, via the journal lemmas of C07); in the block loop a transaction with a non-empty verdict never has a successful receipt "
            "(C03_success_needs_verified_proof). For IBTPs relayed from another BitXHub the threshold loop of verifyMultiSign is modelled and proved: accepted iff more than (n-1)/3 signatures count, a signature counting only when it "
            "recovers to a registered validator not counted before (C03_multisign_ok_iff, C03_bad_signature_never_counts, C03_validator_counted_once, C03_count_le_validators, C03_no_signature_rejected); the model is run against "
            "the real function with real secp256k1 signatures (exhaustive small + random). On the real node a monitor brackets every unverified IBTP with state dumps and offers IBTPs to the entry points an account can call directly (HandleIBTPData, InterBroker.EmitInterchain with a source id of the caller's choosing) — "
            "in worlds with a second registered BitXHub also the receipt for a request relayed from it and requests of its services to hub-level services, the two kinds no service look-up stands in the way of. "
            "Two defects repaired (fix: a rule answering plain false crashed the executor; fix 1ae276ee: HandleIBTPData processed such IBTPs for any account, no proof checked — it now takes only the inter-broker contract's requests of this hub's own services).",
    "note": TB + " PARTIAL: the rule engine's answer is a parameter (HappyRule / SimFabric rule of the harness world; plain false injected at the proof.Verify boundary); rule changes go through real governance (UpdateMasterRule proposed, approved / rejected, the monitor follows GetMasterRule); real wasm rules are not exercised; "
            "Since fix 1ae276ee HandleIBTPData checks its caller and the IBTP's source; for IBTPs with a local appchain source it was refused before only because the registry's contract instance has a nil service cache.",
    "technique": "Lean 4 theorems (verdict characterisation, no-effect via journal faithfulness, threshold loop invariant) + differential correspondence (executor; verifyMultiSign with real signatures) + state-dump monitor",
}

TEXTS["C05"] = {
    "text": "Proved on the model of BeginMultiTXs / changeMultiTxStatus / Report for every ledger, group and child, against the FSM table regenerated from transaction_manager.go: the global state becomes SUCCESS only when every recorded "
            "child is SUCCESS and their number is the declared count (C05_global_success_needs_all); a group that left BEGIN without success can never become SUCCESS (C05_failed_group_never_succeeds); a failure receipt in BEGIN sets the "
            "group to BEGIN_FAILURE, the reporter to FAILURE and every other child, succeeded ones included, to BEGIN_FAILURE (C05_failure_receipt_flips_all); a child that cannot begin does the same and the notify lists are exactly "
            "all earlier children (source) / the earlier succeeded children (destinations) (C05_begin_failure_flips_all, C05_report_failure_notifies). History level (Proofs/ExecGlob.lean: only BeginMultiTXs of the group itself and Report "
            "of one of its children write global-tx-<gid>): over ANY sequence of handled IBTPs a group whose global state is neither BEGIN nor SUCCESS stays so (C05_history_failed_group_stays_failed). On the real node a protocol monitor written from the property text follows every group "
            "through receipts, status queries, the stored group record (q gtx: global state and every child state, also compared with the model) and the per-block multi-tx / timeout metadata; receipts for group children include repeated reports and the "
            "failure / rollback acknowledgements sent after the group has failed. Four defects repaired by fix: commits (destinations never told on a failure receipt; all children filed under the first child's chain; notify "
            "lists and timed-out children in Go map order). In the block in which a group fails or times out the monitor also reads what the REAL router (internal/router: subscription feed and fetch-again path, run in the harness on that block and its interchain meta) hands to every pier (rule group-*-not-delivered-to-piers).",
    "note": TB + " Inter-BitXHub groups (union pier) are outside the op language; the timeout of a group is checked by the monitor and the model, not by a separate theorem.",
    "technique": "Lean 4 theorems over the executable transaction-manager model (FSM table regenerated) + differential correspondence + group protocol monitor",
}
TEXTS["C01"] = {
    "text": "The Lean model of block execution is a function of (configuration, ledger, block), so everything the correspondence run shows to agree with it is deterministic. What the model abstracts away is covered by (1) an inventory of "
            "every range over a Go map in the block-execution packages, regenerated from /repo on every run (lean/Bxh/Gen/MapRanges.lean), with kernel-checked table theorems: every loop that appends / builds a string in map order is sorted "
            "afterwards or is one of three reviewed ones, every loop that writes state or posts events per map entry is a reviewed one, no reviewed entry is stale (C01_appending_map_loops_are_sorted, C01_writing_map_loops_are_reviewed, "
            "C01_reviewed_entries_exist, C01_repaired_loops_sorted); (2) the service cache: a cache that agrees with the ledger is invisible to checkIBTP's service look-ups (C01_coherent_cache_invisible), so a restarted replica (empty cache) and a long-running one decide alike; (3) a correspondence run that executes the traffic of every generator of the framework on three replicas with different local tuning (serial / parallel proof verification), "
            "one of them stopped and reopened at random places, and requires identical receipts, delivery / timeout / multi-tx metadata, block hash and all four roots. Five defects repaired by fix: commits (map-ordered notify lists and "
            "timed-out children stored in state / metadata; an emptied timeout list read differently from cache and from disk after a restart; stale state changer). Traffic kind 'listing': a contract lists a prefix (GetAllServiceIDs) after an earlier block deleted a key under it, replica 0 restarted in between or not.",
    "note": TB + " PARTIAL: goroutine interleavings are exercised, not enumerated; the parallel executor type is not registered in this build and is not covered; XVM/EVM transactions are outside the op language; wall-clock time does not reach the compared outputs (timestamps are inputs).",
    "technique": "Lean 4 table theorems (decide +kernel over the regenerated map-range inventory) + functional model + replica/restart differential correspondence",
}

TEXTS["C15"] = {
    "text": "Proved on the model of MakeStrategyDecision and of Governance.Vote / setVote / countVote / endProposal for every proposal state, voter, ballot and strategy expression of the modelled fragment: an accepted vote comes from an "
            "available governance admin of the electorate frozen at submission who has no ballot yet, adds exactly that ballot and keeps the invariant tallies = ballot counts, one ballot per voter (C15_one_vote_per_admin); every refusal "
            "(non-admin, outside the electorate, second ballot, closed proposal, garbage ballot) returns no proposal (C15_refusals); approval only when the recorded expression holds on the tallies (C15_approved_only_if_rule); rejection by the "
            "tally only when it fails on the tallies and at the maximal reachable approvals (C15_rejected_only_if_unreachable, with the code's unsigned available-minus-rejections); a special proposal stays open without a super admin's ballot "
            "(C15_special_needs_super_admin); concluded proposals refuse votes and forced ends (C15_finality); simple majority = more than half (C15_simple_majority). Tie: the decision function is run against repo.MakeStrategyDecision / "
            "CheckStrategyExpression exhaustively for t <= 6 over 15 expressions; on the real node proposals of seven kinds are created through the manager contracts and voted on by admins, outsiders and candidates (repeated votes, garbage, "
            "withdrawals, concurrent proposals of different priority on one object with the paused one withdrawn / voted on), a monitor written from the property text checks every observation, and every vote step is validated against the Lean ballot machine (same pre-state, voter, role answer, ballot -> same post-state or refusal code). "
            "Proposal table (Bxh.GovTable: SubmitProposal with lockLowPriorityProposal, concluding ballots and electorate changes with handleResult / unlockLowPriorityProposal, WithdrawProposal, EndObjProposal, Lock/UnLockLowPriorityProposal; priorities regenerated from governance.go): "
            "over EVERY sequence of these operations a concluded proposal is found unchanged at its position (C15_table_finality, C15_table_finality_history), and a ballot on a proposal that is not `proposed` concludes nothing (C15_table_vote_needs_proposed); "
            "every submit / withdraw / concluding-vote block about an appchain or service with all proposals of the object read before and after is validated against the table machine. One defect repaired (fix b7ba65bb: a proposal withdrawn while paused was re-opened by the rejection of the proposal that had locked it).",
    "note": TB + " PARTIAL: the table machine takes the ballot decision as an input and guards electorate conclusions by `not closed` as the only caller (role.go, GetNotClosedProposals) does; the electorate list at creation, "
            "the strategy lookup and the effect on the governed object are covered by the monitor on the real node only, not by the Lean model; strategy expressions outside the linear-comparison fragment are skipped by the validation; float64 vs exact evaluation coincide only for the coefficients used (integers, .5).",
    "technique": "Lean 4 theorems over the executable ballot state machine, the decision function and the proposal-table machine (finality by induction over operation sequences) + exhaustive differential run of the decision function + trace validation of real vote / submit / withdraw steps + property monitor",
}

TEXTS["C16"] = {
    "text": "Gating, proved on the model of checkIBTP / checkSourceAvailability / checkTargetAvailability for every ledger, service cache and IBTP: a request whose local source service is missing or unavailable is rejected "
            "(C16_unavailable_source_rejected); the target error (begin-failed) arises exactly when the local destination service is missing, unavailable or blacklists the source (C16_target_error_iff); an accepted request has an available "
            "source and, if recorded for execution, a destination that exists, is available and does not block the source (C16_accepted_request_is_gated). Life cycles: the state machines of roles (role.go) and of appchains, services, rules "
            "and nodes (bitxhub-core managers pinned by go.mod) and the available-status sets are regenerated on every run (lean/Bxh/Gen/Lifecycle.lean); kernel-checked table theorems, lifted to the step function for every event string: "
            "`forbidden` has no exit for appchains, services, roles, nodes (C16_forbidden_absorbing), rules are only cleared to `unavailable` (C16_rule_forbidden_only_cleared), an approved logout ends in forbidden and forbidden / frozen / "
            "pause / unavailable are never available statuses (C16_logout_approved_is_forbidden), an approved freeze and the cascade `pause` leave the available set (C16_freeze_makes_unavailable), a rejection never makes an object usable that was not usable when the operation was proposed "
            "(C16_reject_never_makes_available: every reject transition returns to the remembered status, ends outside the available set, or starts inside it). On the real node requests between 6 services (and services registered during the history) "
            "are interleaved with real governance operations (also left open and concluded later, and overlapping service / appchain proposals) and restarts; a monitor applies the gating rule with the statuses read back before each request, checks every observed status change against the regenerated state machines "
            "(paths of at most 3 transitions per block), that logged-out objects stay forbidden, and that a frozen / logged-out appchain has no usable service. One defect repaired (fix: a rejected logout of a frozen appchain unpaused its services). After every concluded rule update the master rule is read back (rule master-rule-not-available).",
    "note": TB + " PARTIAL: the managers' bodies (bitxhub-core) are not modelled: that every status change goes through the state machine is checked on observed traces only; the exec model is compared until the first successful governance operation of a history; nodes, rules and dapps get no traffic.",
    "technique": "Lean 4 theorems (gating on the interchain model; table theorems over regenerated life-cycle state machines) + differential correspondence + gating / life-cycle / cascade monitor on real governance traffic",
}
