TB = ("Trusted: Lean 4.33.0 kernel; axioms propext/Classical.choice/Quot.sound only (audited per theorem on every run, no sorry/native_decide/bv_decide); "
      "the reading of the property into Lean Props; the hand-written model is tied to /repo by differential runs of the real code against the compiled model "
      "(agreement shown only on generated histories); external libraries are modelled parameters (DESIGN §7).")

TEXTS = {
    "C20": {
        "text": "Sync-range clause proved for all (begin,end,fetch) over Nat (C20_ranges_partition_holds: exact ascending cover, non-empty ranges, length <= fetch+1); "
                "model run against the real calcRangeHeight on exhaustive small and random large triples; model-free monitor re-checks the partition on the real output.",
        "note": TB + " uint64 wrap-around outside end+fetch < 2^64 is not covered.",
        "technique": "Lean 4 theorem over an executable model + differential correspondence with the Go code",
    },
}
TEXTS["C02"] = {
    "text": "Proved on the Lean model of HandleIBTP/checkIBTP/ProcessIBTP/applyTransaction for all states and IBTPs: the index gate accepts exactly counter+1 "
            "(C02_index_check_exact, C02_accept_needs_next_index); an IBTP rejected by the proof/signature check or by the contract leaves the contract store and the "
            "delivery events untouched (C02_rejected_by_check_no_effect, C02_rejected_by_contract_no_effect). The full clause 'any rejected IBTP has no effect' is false "
            "of the code and is kept with a machine-checked counter-example (fee failure after processing: C02_rejected_no_effect_false), listed as a known finding. "
            "Model is run against the real executor+contracts on generated histories; model-free monitor recomputes accepted indices, counters and delivery sets from receipts.",
    "note": TB,
    "technique": "Lean 4 theorems over an executable model of the interchain contract + differential correspondence with the real executor",
}
NOT_YET = {}
