#!/usr/bin/env python3
"""keep_seed.py <ID> <name> <pkg> <demo-regexp> <detected-by text>: after py/verify_seed.sh confirmed the
change, store it under /verif/seeded/<name>/ (patch.diff, demo, meta.json)."""
import json, os, shutil, sys
sid, name, pkg, rex, detected = sys.argv[1:6]
src = f"/tmp/seed-{sid}"
dst = f"/verif/seeded/{name}"
os.makedirs(dst, exist_ok=True)
for f in os.listdir(src):
    if f in ("prompt.txt", "property.txt") or f.endswith(".log"):
        continue
    if os.path.isdir(os.path.join(src, f)):
        shutil.copytree(os.path.join(src, f), os.path.join(dst, f), dirs_exist_ok=True)
    else:
        shutil.copy(os.path.join(src, f), os.path.join(dst, f))
meta = {}
if os.path.exists(os.path.join(src, "meta.json")):
    try:
        meta = json.load(open(os.path.join(src, "meta.json")))
    except Exception:
        meta = {"note": "sub-agent meta.json unreadable"}
meta["property"] = sid
meta["confirmed_by_me"] = {
    "commands": [f"py/verify_seed.sh {sid} {pkg} '{rex}'  (scratch worktree /tmp/wt2-{sid})"],
    "build_with_patch": "ok", "demo_with_patch": "FAIL (as required)", "demo_without_patch": "PASS",
    "other_tests_of_package_with_patch": "PASS",
}
meta["check_result"] = detected
json.dump(meta, open(os.path.join(dst, "meta.json"), "w"), indent=1)
print("kept", dst, os.listdir(dst))
