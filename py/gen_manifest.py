#!/usr/bin/env python3
"""Writes MANIFEST.json from the registry + the per-property texts below."""
import json, os, sys
HERE = os.path.dirname(os.path.abspath(__file__))
sys.path.insert(0, HERE)
from vlib.props import load_all
from manifest_texts import TEXTS, NOT_YET

reg = load_all()
props = [json.loads(l) for l in open(os.path.join(HERE, "..", "properties.jsonl"))]
base = json.load(open("/root/.vp/BASELINE.json")) if os.path.exists("/root/.vp/BASELINE.json") else {"cmd": ""}
checks, na = [], []
for p in props:
    pid = p["id"]
    if pid in reg and pid in TEXTS:
        t = TEXTS[pid]
        checks.append({
            "property_id": pid,
            "quick_cmd": f"./check {pid} --tier quick",
            "thorough_cmd": f"./check {pid} --tier thorough",
            "evidence_file": f"evidence/{pid}.json",
            "replay_cmd_template": "./check replay {path}",
            "engine": ",".join(e.name for e in reg[pid].engines),
            "level_claimed": {"category": "proof", "text": t["text"], "design_ref": t.get("design_ref", f"DESIGN.md §6 {pid}")},
            "level_note": t["note"],
            "technique": t["technique"],
        })
    else:
        na.append({"property_id": pid, "reason": NOT_YET.get(pid, "check not built yet in this round; not claimed")})
engines = {}
for pid, s in reg.items():
    for e in s.engines:
        if pid not in engines.setdefault(e.name, []):
            engines[e.name].append(pid)
m = {
    "version": 1,
    "setup_cmd": "./check setup",
    "hooks": {
        "guard": "verif",
        "enable": "go build -overlay /verif/.cache/overlay.json -tags verif -ldflags=-checklinkname=0 ./internal/verifharness (harness and in-package shims are injected from /verif/go/harness by the overlay; nothing is committed in /repo)",
        "baseline_off_cmd": base["cmd"],
        "source_commits": [],
        "add_only": True,
    },
    "engines": [{"name": n, "path": f"go/harness/main/{n}.go + lean/Driver", "serves_properties": sorted(v),
                 "kind_free_text": "differential: real Go code in-process vs executable Lean model over a line protocol, plus model-free monitors"}
                for n, v in sorted(engines.items())],
    "checks": checks,
    "not_applicable": na,
    "notes": "Technique: machine-checked proof in Lean 4 of an executable model, tied to /repo on every run by a fact extractor and a correspondence check. See DESIGN.md.",
}
json.dump(m, open(os.path.join(HERE, "..", "MANIFEST.json"), "w"), indent=1)
print("checks:", [c["property_id"] for c in checks], "na:", len(na))
