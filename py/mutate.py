#!/usr/bin/env python3
"""Mutation smoke test of the checks (not one of the registered checks): applies simple operator mutants, one at a time, to
anchor files of $VERIF_REPO (a SCRATCH copy, never /repo), keeps those that still build, runs the mapped quick checks and
reports which mutants no check notices.  Usage: VERIF_REPO=<scratch repo> py/mutate.py <max mutants> [seed]"""
import os, re, subprocess, sys, random, json, time

REPO = os.environ.get("VERIF_REPO")
assert REPO and os.path.realpath(REPO) != "/repo", "needs a scratch copy in VERIF_REPO"
VERIF = os.path.dirname(os.path.dirname(os.path.abspath(__file__)))
TARGETS = {
    "internal/executor/contracts/transaction_manager.go": ["C04", "C05", "C06"],
    "internal/executor/contracts/interchain.go": ["C02", "C16", "C05", "C03", "C17"],
    "internal/executor/handle.go": ["C06", "C14", "C07", "C08"],
    "internal/executor/contracts/governance.go": ["C15", "C17"],
    "pkg/order/mempool/mempool_impl.go": ["C18", "C19"],
    "pkg/order/mempool/tx_store.go": ["C18", "C19"],
    "internal/ledger/account.go": ["C13", "C10", "C07"],
    "internal/ledger/state_accessor.go": ["C12", "C13", "C10"],
    "internal/ledger/chain_ledger_impl.go": ["C09", "C11"],
    "internal/ledger/account_cache.go": ["C13", "C12"],
    "pkg/proof/verify.go": ["C03"],
}
OPS = [(r" == ", " != "), (r" != ", " == "), (r" < ", " <= "), (r" <= ", " < "), (r" > ", " >= "), (r" >= ", " > "),
       (r" && ", " || "), (r" \|\| ", " && "), (r"\+ 1\b", "+ 0"), (r"- 1\b", "- 0"), (r"\btrue\b", "false"), (r"\bfalse\b", "true")]


def env():
    e = dict(os.environ)
    e.update(GOFLAGS="-mod=mod", GOPROXY="off", GOSUMDB="off", GOTOOLCHAIN="local")
    return e


def candidates(path):
    src = open(path).read().split("\n")
    out = []
    infunc = False
    for i, line in enumerate(src):
        s = line.strip()
        if s.startswith("func "):
            infunc = True
        if not infunc or s.startswith("//") or "Logger" in s or "log." in s or "fmt.Sprintf" in s or "Errorf" in s:
            continue
        for pat, rep in OPS:
            for m in re.finditer(pat, line):
                out.append((i, m.start(), m.end(), rep))
    return src, out


def main():
    n = int(sys.argv[1]) if len(sys.argv) > 1 else 20
    rng = random.Random(int(sys.argv[2]) if len(sys.argv) > 2 else 1)
    allc = []
    for rel, checks in TARGETS.items():
        path = os.path.join(REPO, rel)
        if not os.path.exists(path):
            continue
        src, cs = candidates(path)
        for c in cs:
            allc.append((rel, checks, c))
    rng.shuffle(allc)
    done, results = 0, []
    for rel, checks, (i, a, b, rep) in allc:
        if done >= n:
            break
        path = os.path.join(REPO, rel)
        orig = open(path).read()
        lines = orig.split("\n")
        old = lines[i]
        lines[i] = old[:a] + rep + old[b:]
        open(path, "w").write("\n".join(lines))
        try:
            pkg = "./" + os.path.dirname(rel) + "/"
            r = subprocess.run(["go", "build", pkg], cwd=REPO, env=env(), capture_output=True, text=True, timeout=300)
            if r.returncode != 0:
                continue
            done += 1
            hit = None
            t0 = time.time()
            for c in checks:
                try:
                    out = subprocess.run([os.path.join(VERIF, "check"), c], cwd=VERIF, env=dict(os.environ), capture_output=True, text=True, timeout=1500).stdout
                except subprocess.TimeoutExpired:
                    hit = c + " (check did not finish in 25 minutes)"
                    break
                if "VIOLATION" in out:
                    hit = c + (" (no-failing-input-found)" if "no-failing-input-found" in out and out.count("VIOLATION") == 1 else "")
                    break
            res = {"file": rel, "line": i + 1, "before": old.strip()[:140], "after": lines[i].strip()[:140], "detected_by": hit, "secs": round(time.time() - t0)}
            results.append(res)
            print(("DETECTED " if hit else "SURVIVED ") + json.dumps(res), flush=True)
        finally:
            open(path, "w").write(orig)
    det = sum(1 for r in results if r["detected_by"])
    print(f"SUMMARY mutants={len(results)} detected={det} survived={len(results) - det}", flush=True)


if __name__ == "__main__":
    main()
