#!/usr/bin/env python3
"""coverage_scan.py [ids...]: which functions of /repo does the quick tier of the checks actually execute?
Builds the harness once more with Go's coverage instrumentation (-cover, all packages of the repository), runs the quick tier of
the named checks (default: all) with that binary, and prints per anchored file the functions that were never entered.
A blind-spot finder for the machinery, not a check: nothing here decides a property.  Output: /verif/.cache/coverage.txt"""
import os, subprocess, sys, shutil, json
HERE = os.path.dirname(os.path.abspath(__file__))
sys.path.insert(0, HERE)
os.chdir(os.path.dirname(HERE))
from vlib import core, runner
from vlib.props import load_all

covdir = os.path.join(core.CACHE, "covdata")
shutil.rmtree(covdir, ignore_errors=True)
os.makedirs(covdir)
core.write_overlay()
covbin = os.path.join(core.CACHE, "bxhdrive-cover")
# the cover tool does not read overlays: a scratch copy of the repository with the harness files placed physically
scratch = "/tmp/bxhverif-cov-repo"
shutil.rmtree(scratch, ignore_errors=True)
subprocess.run(["rsync", "-a", "--exclude", ".git", core.REPO + "/", scratch + "/"], check=True)
ov = json.load(open(core.overlay_path()))["Replace"]
for dst, src in ov.items():
    d = dst.replace(core.REPO, scratch, 1)
    os.makedirs(os.path.dirname(d), exist_ok=True)
    shutil.copy(src, d)
rc, out = core.sh(["go", "build", "-cover", "-coverpkg=github.com/meshplus/bitxhub/internal/...,github.com/meshplus/bitxhub/pkg/...",
                   "-tags", "verif", "-ldflags=-checklinkname=0", "-o", covbin, "./internal/verifharness"],
                  cwd=scratch, env=core.GOENV, timeout=3000)
shutil.rmtree(scratch, ignore_errors=True)
print("cover build rc", rc, out[-800:] if rc else "")
if rc:
    sys.exit(1)
core.build_harness()
core.BXHDRIVE_REAL = core.BXHDRIVE
orig = core.impl_cmd
core.impl_cmd = lambda engine: [covbin, engine]
os.environ["GOCOVERDIR"] = covdir
reg = load_all()
ids = sys.argv[1:] or sorted(reg)
import io, contextlib
for pid in ids:
    buf = io.StringIO()
    with contextlib.redirect_stdout(buf):
        runner.run_property(reg[pid], "quick", 20260924, extract=None)
    print(pid, [l for l in buf.getvalue().splitlines() if "tier=" in l][-1:])
rc, out = core.sh(["go", "tool", "covdata", "func", "-i=" + covdir], cwd=core.REPO, env=core.GOENV, timeout=600)
open(os.path.join(core.CACHE, "coverage.txt"), "w").write(out)
zero = [l for l in out.splitlines() if l.rstrip().endswith("\t0.0%") or l.rstrip().endswith(" 0.0%")]
print(len(out.splitlines()), "functions,", len(zero), "never entered")
