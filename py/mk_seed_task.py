#!/usr/bin/env python3
"""mk_seed_task.py <ID>...: prepares a seeding task for a fresh sub-agent: scratch worktree /tmp/wt2-<ID> of /repo (detached),
/tmp/seed-<ID>/TASK.md made from the newest kept TASK.md of that property with the list of ideas already taken brought up
to date (the names of /verif/seeded/<ID>-*).  The agent gets nothing from /verif: TASK.md holds the property text only."""
import glob, os, re, subprocess, sys

for sid in sys.argv[1:]:
    dirs = sorted(glob.glob(f"/verif/seeded/{sid}-*"), key=os.path.getmtime)
    tasks = [d for d in dirs if os.path.exists(os.path.join(d, "TASK.md"))]
    if not tasks:
        print("no template for", sid)
        continue
    t = open(os.path.join(tasks[-1], "TASK.md")).read()
    taken = "; ".join(f"({chr(97 + i)}) {os.path.basename(d)[len(sid) + 1:].replace('-', ' ')}" for i, d in enumerate(dirs))
    t2, n = re.subn(r"Do NOT reuse these ideas[^:]*: .*?\. Find something different", f"Do NOT reuse these ideas (already taken): {taken}. Find something different", t, count=1, flags=re.S)
    if n != 1:
        print("template of", sid, "has no taken-list; left as is")
    os.makedirs(f"/tmp/seed-{sid}", exist_ok=True)
    open(f"/tmp/seed-{sid}/TASK.md", "w").write(t2)
    wt = f"/tmp/wt2-{sid}"
    if not os.path.isdir(wt):
        subprocess.run(["git", "-C", "/repo", "worktree", "add", "--detach", wt], capture_output=True)
    print(sid, "task ready,", len(dirs), "ideas taken, worktree", wt, os.path.isdir(wt))
