#!/usr/bin/env python3
"""seed_regress.py [ids...]: regression of the checks against every kept seeded change (/verif/seeded/<name>/patch.diff).
Works on the repository named by VERIF_REPO, which must be a SCRATCH copy (a `vp run --with-repo` snapshot or a worktree under
/tmp) — never /repo: each patch is applied there, the quick check of the seed's property is run, the patch is taken back.
Prints one line per seed: DETECTED / MISSED, and a summary."""
import json, os, subprocess, sys

VERIF = os.path.dirname(os.path.dirname(os.path.abspath(__file__)))
REPO = os.environ.get("VERIF_REPO", "")
if not REPO or os.path.realpath(REPO) == "/repo":
    sys.exit("VERIF_REPO must name a scratch copy of the repository")
only = set(sys.argv[1:])
res = []
for name in sorted(os.listdir(os.path.join(VERIF, "seeded"))):
    d = os.path.join(VERIF, "seeded", name)
    patch = os.path.join(d, "patch.diff")
    if not os.path.exists(patch):
        continue
    pid = name.split("-")[0]
    if only and pid not in only and name not in only:
        continue
    meta = os.path.join(d, "meta.json")
    if os.path.exists(meta) and json.load(open(meta)).get("superseded"):
        print(f"SUPERSEDED {name}", flush=True)
        continue
    subprocess.run(["git", "-C", REPO, "checkout", "-q", "--", "."], check=False)
    if subprocess.run(["git", "-C", REPO, "apply", patch]).returncode != 0:
        print(f"APPLY-FAILED {name}", flush=True)
        res.append((name, None))
        continue
    try:
        out = subprocess.run([os.path.join(VERIF, "check"), pid], cwd=VERIF, capture_output=True, text=True, timeout=2400).stdout
    except subprocess.TimeoutExpired:
        out = "VIOLATION (check did not finish)"
    finally:
        subprocess.run(["git", "-C", REPO, "checkout", "-q", "--", "."], check=False)
    hit = [l for l in out.splitlines() if l.startswith("VIOLATION")]
    ok = bool(hit)
    res.append((name, ok))
    print(("DETECTED " if ok else "MISSED   ") + name + ("  " + hit[0][:110] if hit else ""), flush=True)
det = sum(1 for _, ok in res if ok)
print(f"SUMMARY seeds={len(res)} detected={det} missed={sum(1 for _, ok in res if ok is False)} apply-failed={sum(1 for _, ok in res if ok is None)}", flush=True)
